"""
C16 time-zone worker. Run as:  TZ=<zone> /venv/bin/python c16_tzworker.py <repo_src>   (JSON lines on stdin -> JSON lines on stdout)

The process time zone is fixed by the environment before Python starts, so `astimezone()` inside the implementation
sees <zone>. Independent reference for offsets / existence of local times: `zoneinfo.ZoneInfo(<zone>)` (PEP 615, reads the
TZif file itself) cross-checked with the C library (`time.mktime` / `time.localtime`).

request kinds
  {"kind":"rt","args":[y,mo,d,h,mi,s,ms],"us":0..999}   datetimeNew (+ optional extra microseconds) -> datetimeISOFormat -> datetimeISOParse
  {"kind":"parse","text":"..."}                 datetimeISOParse of arbitrary text (+ reference offset if the text is a valid ISO datetime)
  {"kind":"arith","args":[...],"n":int,"as_int":bool}   (d + n) - d through evaluate_expression
"""

import datetime
import json
import os
import re
import sys
import time
import zoneinfo

sys.path.insert(0, sys.argv[1])
from bare_script import library, runtime, value  # noqa: E402  pylint: disable=wrong-import-position

ZONE = os.environ['TZ']
Z = zoneinfo.ZoneInfo(ZONE)
UTC = datetime.timezone.utc
FN = library.SCRIPT_FUNCTIONS

STRICT_DT = re.compile(r'([0-9]{4})-([0-9]{2})-([0-9]{2})T([0-9]{2}):([0-9]{2}):([0-9]{2})(?:\.([0-9]{1,6}))?(Z|[+-][0-9]{2}:[0-9]{2})', re.ASCII)


def parts(d):
    if d is None:
        return None
    if not isinstance(d, datetime.datetime):
        return {'error': 'not-a-datetime:' + type(d).__name__}
    if d.tzinfo is not None:
        return {'error': 'aware-datetime'}
    if d.microsecond % 1000:
        return {'error': 'sub-millisecond:%d' % d.microsecond}
    return [d.year, d.month, d.day, d.hour, d.minute, d.second, d.microsecond // 1000]


def call(name, args):
    """Call a library function the way the runtime's call wrapper does (any exception -> null, class recorded)."""
    try:
        return FN[name](args, None), None
    except value.ValueArgsError as exc:
        return exc.return_value, 'ValueArgsError'
    except Exception as exc:  # pylint: disable=broad-except
        return None, type(exc).__name__


def secs(td):
    return None if td is None else td.days * 86400 + td.seconds


def libc_exists(d):
    """Does the naive local time survive mktime -> localtime? -> (exists, gmtoff)"""
    try:
        ts = time.mktime((d.year, d.month, d.day, d.hour, d.minute, d.second, 0, 0, -1))
        lt = time.localtime(ts)
    except (OverflowError, ValueError, OSError):
        return None, None
    return tuple(lt[:6]) == (d.year, d.month, d.day, d.hour, d.minute, d.second), lt.tm_gmtoff


def zi_exists(d):
    aware = d.replace(tzinfo=Z)
    off = aware.utcoffset()
    try:
        back = aware.astimezone(UTC).astimezone(Z).replace(tzinfo=None)
    except OverflowError:
        return None, secs(off)
    return back == d, secs(off)


DAY_US = 86400 * 10 ** 6
MAX_US = 3652059 * DAY_US          # microseconds from 0001-01-01T00:00 to the end of year 9999
CYCLE_US = 146097 * DAY_US         # 400 Gregorian years: a whole number of weeks, so every zone rule falls on the same dates
EPOCH1_UTC = datetime.datetime(1, 1, 1, tzinfo=UTC)
UNIX_US = (datetime.date(1970, 1, 1).toordinal() - 1) * DAY_US


def ref_offset_at(text):
    """For text that is a syntactically strict ISO datetime with valid fields: the UTC offset (seconds) of ZONE at that
    instant per zoneinfo and per libc, and the expected local parts per zoneinfo (None = the UTC instant or the local
    time falls outside years 1..9999). Integer arithmetic, so instants at the ends of the range are handled. Else None."""
    m = STRICT_DT.fullmatch(text)
    if not m:
        return None
    y, mo, d, h, mi, s = (int(m.group(i)) for i in range(1, 7))
    frac = m.group(7) or ''
    us = int((frac + '000000')[:6]) if frac else 0
    zone = m.group(8)
    if zone == 'Z':
        off = 0
    else:
        oh, om = int(zone[1:3]), int(zone[4:6])
        if oh > 23 or om > 59:
            return None
        off = (oh * 3600 + om * 60) * (-1 if zone[0] == '-' else 1)
    try:
        datetime.datetime(y, mo, d, h, mi, s)
    except ValueError:
        return None
    local_us = ((datetime.date(y, mo, d).toordinal() - 1) * 86400 + h * 3600 + mi * 60 + s) * 10 ** 6 + us
    utc_us = local_us - off * 10 ** 6
    probe = utc_us
    while probe < 2 * DAY_US:
        probe += CYCLE_US
    while probe >= MAX_US - 2 * DAY_US:
        probe -= CYCLE_US
    zi_off = secs((EPOCH1_UTC + datetime.timedelta(microseconds=probe)).astimezone(Z).utcoffset())
    try:
        libc_off = time.localtime((utc_us - UNIX_US) // 10 ** 6).tm_gmtoff
    except (OverflowError, ValueError, OSError):
        libc_off = None
    out_us = utc_us + zi_off * 10 ** 6
    local = None
    if 0 <= utc_us < MAX_US and 0 <= out_us < MAX_US:
        local = parts(datetime.datetime(1, 1, 1) + datetime.timedelta(microseconds=out_us // 1000 * 1000))
    return {'zi': zi_off, 'libc': libc_off, 'local': local}


EXPR_LR = {'binary': {'op': '-', 'left': {'group': {'binary': {'op': '+', 'left': {'variable': 'd'}, 'right': {'variable': 'n'}}}},
                      'right': {'variable': 'd'}}}
EXPR_RL = {'binary': {'op': '-', 'left': {'group': {'binary': {'op': '+', 'left': {'variable': 'n'}, 'right': {'variable': 'd'}}}},
                      'right': {'variable': 'd'}}}
EXPR_SUM = {'binary': {'op': '+', 'left': {'variable': 'd'}, 'right': {'variable': 'n'}}}


def num_out(x):
    if x is None:
        return None
    if isinstance(x, bool) or not isinstance(x, (int, float)):
        return {'error': 'not-a-number:' + type(x).__name__}
    if x != x or x in (float('inf'), float('-inf')):
        return {'error': 'non-finite'}
    if x == int(x):
        return int(x)
    return {'inexact': repr(x)}


def arith(args, n, as_int):
    d, _ = call('datetimeNew', [float(a) for a in args])
    if d is None:
        return {'d': None}
    nv = int(n) if as_int else float(n)
    out = {'d': parts(d)}
    for key, expr in (('lr', EXPR_LR), ('rl', EXPR_RL)):
        try:
            out[key] = num_out(runtime.evaluate_expression(expr, None, {'d': d, 'n': nv}))
        except Exception as exc:  # pylint: disable=broad-except
            out[key] = {'error': type(exc).__name__}
    try:
        out['sum'] = parts(runtime.evaluate_expression(EXPR_SUM, None, {'d': d, 'n': nv}))
    except Exception as exc:  # pylint: disable=broad-except
        out['sum'] = {'error': type(exc).__name__}
    return out


def handle(req):
    kind = req['kind']
    if kind == 'rt':
        d, err = call('datetimeNew', [float(a) for a in req['args']])
        if d is None:
            return {'d': None, 'err': err}
        out = {'d': parts(d)}
        if req.get('us'):
            # a datetime with sub-millisecond precision, as datetimeNow() or the host can produce; `d` stays the value cut to the millisecond
            d = d.replace(microsecond=d.microsecond + req['us'])
        text, err = call('datetimeISOFormat', [d])
        out['text'] = text if isinstance(text, str) else {'error': str(err or type(text).__name__)}
        dtext, err = call('datetimeISOFormat', [d, True])
        out['datetext'] = dtext if isinstance(dtext, str) else {'error': str(err or type(dtext).__name__)}
        if isinstance(text, str):
            p, err = call('datetimeISOParse', [text])
            out['p'] = parts(p) if err is None else {'error': err}
            out['ref'] = ref_offset_at(text)
        if isinstance(dtext, str):
            p, err = call('datetimeISOParse', [dtext])
            out['pd'] = parts(p) if err is None else {'error': err}
        zi_ok, zi_off = zi_exists(d)
        lc_ok, lc_off = libc_exists(d)
        try:
            os_off = secs(d.astimezone().utcoffset())
        except (OverflowError, ValueError, OSError):
            os_off = None
        out['fold'] = bool(zi_ok) and d.replace(tzinfo=Z, fold=1).utcoffset() != d.replace(tzinfo=Z).utcoffset()
        out.update({'zi_exists': zi_ok, 'zi_off': zi_off, 'libc_exists': lc_ok, 'libc_off': lc_off, 'os_off': os_off})
        return out
    if kind == 'parse':
        text = req['text']
        try:
            p = value.value_parse_datetime(text)
            out = {'p': parts(p)}
        except Exception as exc:  # pylint: disable=broad-except
            out = {'p': {'error': type(exc).__name__}}
        p2, err = call('datetimeISOParse', [text])
        out['lib'] = parts(p2) if err is None else {'error': err}
        out['ref'] = ref_offset_at(text)
        return out
    if kind == 'arith':
        return arith(req['args'], req['n'], req.get('as_int', False))
    return {'bad': kind}


def main():
    out = sys.stdout
    for line in sys.stdin:
        line = line.strip()
        if not line:
            continue
        try:
            resp = handle(json.loads(line))
        except Exception as exc:  # pylint: disable=broad-except
            resp = {'worker_error': f'{type(exc).__name__}: {exc}'}
        out.write(json.dumps(resp, ensure_ascii=True))
        out.write('\n')
    out.flush()


if __name__ == '__main__':
    main()
