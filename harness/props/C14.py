"""C14 - JSON serialisation is faithful: jsonParse(jsonStringify(v)) equals v.

Model side: lean/BareModel/Json.lean (mirror = json.dumps stage + clean-up scanner, spec encoder, decoder),
theorems lean/BareProofs/C14.lean, driver lean/Drv/C14.lean.

Wire form of a value (also the form of witnesses / corpus lines):
  null | true/false | {"i": int} | {"f": [neg, n]} integral float |x|<1e16 | {"d": repr} other finite float |
  {"s": str} | {"a": [...]} | {"o": [[key, value], ...]} (insertion order)

Object graphs and histories (stream `history`): the Python object handed to jsonStringify need not be a tree - the same
list/dict instance can sit at several places (arrayNew(row, row), arrayNewSize(3, row), arrayCopy sharing its elements),
and it can be changed in place between two serialisations. The model value is the TREE such an object denotes (the wire
form sent to the driver is the expansion); a witness of this stream is the whole history {"history": {...}} (grammar in
the comment above CONFUSABLE), replayed step by step through the library functions and as a BareScript program.

Strings are also built from whole units (stream `boundaries`): text that looks like a number or a JSON token directly
against every character some text-level tool treats as a boundary (all Unicode separators / controls / format characters,
everything str.splitlines / str.isspace / \\s know), and object keys from groups that other collations order differently.

Host-typed values (stream `hostvalues`): {"h": [kind, wire]} is a host object of a SUBCLASS type (int / float / str / list /
dict subclass, IntEnum / str-mixin Enum member, OrderedDict, defaultdict) denoting the inner value; value_type() classifies
by isinstance, so these are values of the property. The model sees the denoted tree.

Fault-then-continue (stream `faults`): {"x": kind} is a host-supplied thing WITHOUT JSON form (NaN, infinities, an int beyond
the int->str limit, an object with unsortable keys, over-deep nesting); a container can also be made to contain itself for
a while. Serialising such an object must fail and is not judged; what IS judged is every serialisation of the same objects
once the script has repaired them in place - nothing a failed call leaves behind may show. A witness is the whole history,
or {"histories": [...]} when the failure needs the state left by the histories run before it in the same process.

Outside the property / the model (never JUDGED): datetime / function / regex values (serialise as strings or null),
non-string keys, NaN / infinities (`allow_nan=False` raises), lone surrogates (a Python str can hold them and json.dumps
escapes them; a Lean `Char` cannot), containers that contain themselves, the text stringNew / concatenation give for a container.

Negative zero: value_json(-0.0) == '-0' and jsonParse('-0') is the int 0; value_compare(-0.0, 0) == 0, so the value
round-trips under the property's equality (numbers equal in value); the model's `norm` maps `fint true 0` to `int 0`.
"""

import collections
import enum
import importlib
import itertools
import json
import math
import os
import re
import struct
import subprocess
import sys
import unicodedata
from fractions import Fraction

import fw

ID = 'C14'
LEVEL = 'proof'
LEAN_TARGETS = ['BareProofs.C14', 'BareProofs.C14Regex', 'BareProofs.C14Bridge', 'BareProofs.C14BridgeHostLib']
DRIVER = 'drv_c14'
DRIVER_ROOT = 'Drv.C14'
GEN = ['Regex']
THEOREMS = [

    # bridge to the execution model (BareProofs/C14Bridge*.lean): the text the machine hosts concatenate / log IS the C14 encoding of the reified value
    'C14Bridge.valueJson_bridge', 'C14Bridge.valueJson_bridgeF', 'C14Bridge.wf_toJson', 'C14Bridge.wf_of_class',
    'C14Bridge.valueJson_mirror', 'C14Bridge.valueString_bridge', 'C14Bridge.valueString_total', 'C14Bridge.strOf_integral',
    'C14Bridge.strOf_container', 'C14Bridge.valueJson_none_of_cycle', 'C14Bridge.valueString_none_of_cycle', 'C14Bridge.not_reifiable_of_valueString_none',
    'C14Bridge.machine_add_str', 'C14Bridge.machine_str_add', 'C14Bridge.machine_systemLog', 'C14Bridge.machine_text_cycle',
    'C14Bridge.machine_json_roundtrip', 'C14Bridge.machine_json_injective', 'C14Bridge.machine_same_text_iff_equal', 'C14Bridge.machine_equal_same_text',
    'C14Bridge.machine_keys_sorted', 'C14Bridge.machine_integral_no_fraction', 'C14Bridge.equiv_of_cmp_zero', 'C14Bridge.enc_eq_of_cmp_zero',
    'C14Bridge.cmp_zero_of_equiv', 'C14Bridge.lib_valueString_agrees', 'C14Bridge.lib_valueString_defined', 'C14Bridge.hostLib_valueString_bridge',
    'C14Bridge.hostLib_add_str', 'C14Bridge.hostLib_str_add', 'C14Bridge.hostLib_systemLog', 'C14Bridge.hostLib_text_cycle',
    'C14Bridge.hostLib_json_roundtrip', 'C14Bridge.hostLib_json_injective', 'C14Bridge.hostLib_keys_sorted', 'C14Bridge.hostLib_integral_no_fraction',
    'C14.cleanup_regex_is_modelled', 'C14.strings_untouched', 'C14.cleanup_eq_spec', 'C14.string_roundtrip',
    'C14.json_roundtrip', 'C14.json_roundtrip_spec', 'C14.json_injective', 'C14.keys_sorted', 'C14.integral_no_fraction',
    'C14.norm_idem',
]
ASSUMPTIONS = [
    'float.__repr__ (not modelled): an integral float with |x| < 1e16 prints as -?D+.0, every other finite float prints in the '
    'grammar reprDec (-?D+.D+ with a non-zero fraction digit, or -?D(.D+)?e[+-]DD+); repr is injective (shortest round trip), so '
    'equal decimal text means equal float. The harness classifies each generated float this way and the driver re-checks reprDec '
    '(field wf) on every case.',
    'int.__repr__ is the decimal expansion (Nat.toDigits 10); json.loads of an integer literal is that integer',
    'json.dumps(sort_keys, ensure_ascii, separators, indent) produces the layout and escapes of Json.encWith / Json.escChar '
    '(tied by the json and strings streams); sorted() on str keys is code-point order',
    'CPython re: the substitution with _R_VALUE_JSON_NUMBER_CLEANUP behaves as the scanner Json.clean (pattern text pinned by '
    'Gen/Regex + theorem cleanup_regex_is_modelled, behaviour tied by the cleanup stream on arbitrary text)',
    'json.loads is the standard JSON reader modelled by Json.decode (tied by the decode stream incl. malformed text); '
    'NaN/Infinity literals and lone-surrogate escapes, which json.loads accepts, are outside the model',
]
TRUSTED = ['value wire encoding to_wire/from_wire in harness/props/C14.py (classification of floats into fint/dec by is_integer() and abs < 1e16)']

LEVEL_TEXT = ('Theorems for all JSON values (unbounded depth and length, strings over all Unicode scalar values, every indent): the '
              'clean-up pass of value_json copies every string literal verbatim and removes exactly the ".0" of integral floats '
              '(mirror = spec encoder); the standard JSON decoder maps the text back to the canonical form of the value (keys '
              'sorted, numbers by value) - including the full \\uXXXX / surrogate-pair escape round trip; hence injectivity, '
              'sorted keys, and no fraction on integral numbers. The model is tied to value_json / jsonStringify / jsonParse by '
              'differential streams; the property oracles (json.loads, jsonParse∘jsonStringify via value_compare, key order, '
              'number tokens, literal tokens, injectivity pool) run directly on the implementation - on tree-shaped values and on '
              'object graphs / histories (one container instance at several places, changed between serialisations, parsed back; '
              'through the library functions and through scripts), each judged against a reference execution on plain trees; on '
              'strings and keys built from number-like text against every Unicode boundary character and keys from '
              'collation-confusable groups; on host-supplied values of subclass types (int/float/str/list/dict subclasses, enum '
              'members) through value_json, the library function, evaluate_expression and execute_script; and on '
              'fault-then-continue histories (a serialisation / parse / argument validation fails on an object without JSON form, '
              'the same objects are repaired in place and serialised again, thousands of such histories in one process, failures '
              'confirmed in a fresh interpreter).')
LEVEL_NOTE = ('Trusted: Lean kernel; extract.py; this harness. Modelled, not verified: float/int repr, json.dumps layout and escapes, '
              'CPython re, json.loads. Lone surrogates, NaN/inf, datetime/function values are outside the property.')

# ---------------------------------------------------------------------------------------------------------------------
# values <-> wire
# ---------------------------------------------------------------------------------------------------------------------


class OutOfDomain(Exception):
    """the object denotes no JSON value of the property (contains itself, a non-finite / unprintable number, a non-string key)"""


def to_wire(v, poison=(), _path=()):
    """Wire form of the TREE the Python object v denotes. Host subclasses of int / float / str / list / dict (and enum members
    mixed with them) denote the plain value - their own __repr__ / __str__ are never consulted. OutOfDomain when v denotes no
    JSON value: it contains itself, a non-finite float, an int too long for int->str, a non-string key, or an object listed
    (by id) in `poison`."""
    if v is None or isinstance(v, bool):
        return v
    if poison and id(v) in poison:
        raise OutOfDomain('poison')
    if isinstance(v, int):
        v = int.__int__(v)
        if v.bit_length() > 14000:
            raise OutOfDomain('int beyond the int->str limit')
        return {'i': v}
    if isinstance(v, float):
        v = float.__float__(v)
        if not math.isfinite(v):
            raise OutOfDomain('non-finite')
        if v.is_integer() and abs(v) < 1e16:
            return {'f': [math.copysign(1.0, v) < 0, int(abs(v))]}
        return {'d': float.__repr__(v)}
    if isinstance(v, str):
        return {'s': str.__str__(v)}
    if isinstance(v, (list, dict)):
        if id(v) in _path:
            raise OutOfDomain('contains itself')
        path = _path + (id(v),)
        if isinstance(v, list):
            return {'a': [to_wire(x, poison, path) for x in list.__iter__(v)]}
        out = []
        for k, x in dict.items(v):
            if not isinstance(k, str):
                raise OutOfDomain('non-string key')
            out.append([str.__str__(k), to_wire(x, poison, path)])
        return {'o': out}
    raise TypeError(type(v))


class HInt(int):
    """a host number type (a quantity, an id ...) with its own text forms"""

    def __repr__(self):
        return f'HInt({int.__repr__(self)})'

    def __str__(self):
        return f'#{int.__repr__(self)}'


class HFloat(float):
    def __repr__(self):
        return f'HFloat({float.__repr__(self)})'

    def __str__(self):
        return f'{float.__repr__(self)} units'


class HStr(str):
    def __repr__(self):
        return f'HStr({str.__repr__(self)})'

    def __str__(self):
        return '<HStr>'


class HList(list):
    def __repr__(self):
        return 'HList(...)'


class HDict(dict):
    def __repr__(self):
        return 'HDict(...)'


def _host(kind, x):
    """The host-side object of kind `kind` denoting the plain value x."""
    if kind == 'int':
        return HInt(x)
    if kind == 'float':
        return HFloat(x)
    if kind == 'str':
        return HStr(x)
    if kind == 'list':
        return HList(x)
    if kind == 'dict':
        return HDict(x)
    if kind == 'odict':
        return collections.OrderedDict(x)
    if kind == 'ddict':
        return collections.defaultdict(list, x)
    if kind == 'intenum':
        return enum.IntEnum('Level', {'M': x}).M       # pylint: disable=no-member
    if kind == 'strenum':
        return enum.Enum('Colour', {'M': x}, type=str).M   # pylint: disable=no-member
    raise ValueError(kind)


HOST_KINDS = {'i': ['int', 'intenum'], 'f': ['float'], 'd': ['float'], 's': ['str', 'strenum'], 'a': ['list'], 'o': ['dict', 'odict', 'ddict']}
DEEP_NESTING = 6000


def _poison(kind):
    """Host-supplied things with NO JSON form (the serialiser must fail on them, anywhere in a value)."""
    if kind in ('nan', 'inf', '-inf'):
        return float(kind)
    if kind == 'bigint':
        return 10 ** 5000
    if kind == 'badkeys':
        return {1: 'a', 'b': 2}
    if kind == 'deep':
        x = []
        for _ in range(DEEP_NESTING):
            x = [x]
        return x
    raise ValueError(kind)


POISONS = ['nan', 'inf', '-inf', 'nan', 'inf', '-inf', 'nan', 'bigint', 'bigint', 'badkeys', 'badkeys', 'deep']


def from_wire(w):
    """wire -> Python object. Besides the model's forms: {"h": [kind, wire]} a host object of a subclass type denoting the inner
    value (HOST_KINDS), {"x": kind} a host-supplied thing without JSON form (POISONS)."""
    if w is None or isinstance(w, bool):
        return w
    (k, x), = w.items()
    if k == 'i':
        return int(x)
    if k == 'f':
        return -float(x[1]) if x[0] else float(x[1])
    if k == 'd':
        return float(x)
    if k == 's':
        return x
    if k == 'a':
        return [from_wire(y) for y in x]
    if k == 'o':
        return {from_wire(kk) if isinstance(kk, dict) else kk: from_wire(y) for kk, y in x}
    if k == 'h':
        return _host(x[0], from_wire(x[1]))
    if k == 'x':
        return _poison(x)
    raise ValueError(k)


def plain_wire(w):
    """the model's wire form of the tree a (possibly host-typed) wire value denotes"""
    if w is None or isinstance(w, bool):
        return w
    (k, x), = w.items()
    if k == 'h':
        return plain_wire(x[1])
    if k == 'a':
        return {'a': [plain_wire(y) for y in x]}
    if k == 'o':
        return {'o': [[plain_wire(kk)['s'] if isinstance(kk, dict) else kk, plain_wire(y)] for kk, y in x]}
    if k == 'x':
        raise OutOfDomain(x)
    return w


def is_poison_wire(w):
    return isinstance(w, dict) and 'x' in w


def canon(v):
    """Canonical JSON-able form with numbers by exact value (int and float of equal value coincide)."""
    if v is None or isinstance(v, (bool, str)):
        return v
    if isinstance(v, (int, float)):
        if isinstance(v, float) and not math.isfinite(v):
            return ['n', repr(v)]
        fr = Fraction(v)
        return ['n', fr.numerator, fr.denominator]
    if isinstance(v, list):
        return ['a'] + [canon(x) for x in v]
    if isinstance(v, dict):
        return ['o'] + [[k, canon(v[k])] for k in sorted(v)]
    return ['?', type(v).__name__]


def py_equal(a, b):
    """Equality of BareScript JSON values written from the property statement (numbers by value, bool is not a number)."""
    if a is None or b is None:
        return a is None and b is None
    if isinstance(a, bool) or isinstance(b, bool):
        return isinstance(a, bool) and isinstance(b, bool) and a == b
    if isinstance(a, (int, float)) and isinstance(b, (int, float)):
        return a == b
    if isinstance(a, str) and isinstance(b, str):
        return a == b
    if isinstance(a, list) and isinstance(b, list):
        return len(a) == len(b) and all(py_equal(x, y) for x, y in zip(a, b))
    if isinstance(a, dict) and isinstance(b, dict):
        return a.keys() == b.keys() and all(py_equal(a[k], b[k]) for k in a)
    return False


def has_lone_surrogate(v):
    if isinstance(v, str):
        return any(0xd800 <= ord(c) <= 0xdfff for c in v)
    if isinstance(v, list):
        return any(has_lone_surrogate(x) for x in v)
    if isinstance(v, dict):
        return any(has_lone_surrogate(k) or has_lone_surrogate(x) for k, x in v.items())
    return False


def has_nonfinite(v):
    if isinstance(v, float):
        return not math.isfinite(v)
    if isinstance(v, list):
        return any(has_nonfinite(x) for x in v)
    if isinstance(v, dict):
        return any(has_nonfinite(x) for x in v.values())
    return False


# ---------------------------------------------------------------------------------------------------------------------
# independent tokeniser of a JSON text and the expected token sequence of a value (oracles)
# ---------------------------------------------------------------------------------------------------------------------

_NUM = re.compile(r'-?\d+(?:\.\d+)?(?:[eE][+-]?\d+)?|[^\s\[\]{},:"]+')


def tokenise(text):
    """-> (string literal tokens incl. quotes, number-ish tokens outside literals), in text order. None if a literal is unterminated."""
    lits = []
    outside = []
    i = 0
    n = len(text)
    while i < n:
        c = text[i]
        if c == '"':
            j = i + 1
            while j < n and text[j] != '"':
                j += 2 if text[j] == '\\' else 1
            if j >= n:
                return None
            lits.append(text[i:j + 1])
            outside.append('"')
            i = j + 1
        else:
            outside.append(c)
            i += 1
    words = [w for w in _NUM.findall(''.join(outside)) if w not in ('null', 'true', 'false')]
    return lits, words


def walk(v, strs, nums):
    """strings/keys and numbers of v in serialisation order (object members by ascending key)."""
    if isinstance(v, str):
        strs.append(v)
    elif isinstance(v, bool) or v is None:
        pass
    elif isinstance(v, (int, float)):
        nums.append(v)
    elif isinstance(v, list):
        for x in v:
            walk(x, strs, nums)
    elif isinstance(v, dict):
        for k in sorted(v):
            strs.append(k)
            walk(v[k], strs, nums)


def keys_in_text_order_sorted(text):
    bad = []

    def hook(pairs):
        ks = [k for k, _ in pairs]
        if ks != sorted(ks) or len(set(ks)) != len(ks):
            bad.append(ks)
        return dict(pairs)
    json.loads(text, object_pairs_hook=hook)
    return not bad, bad[:1]


_INT_TOKEN = re.compile(r'-?(?:0|[1-9]\d*)\Z')


def text_failures(impl, text, parse_text, want):
    """The property oracles on ONE serialised text: `text` claims to be the JSON of the value `want` (a plain tree, built
    independently of the object that was serialised); `parse_text` is what jsonParse gets (the library function's output).
    -> list of (oracle, expected, actual), empty when the property holds."""
    fails = []
    value, library = impl['value'], impl['library']

    # 1. valid JSON that a standard parser maps back to the value
    try:
        back = json.loads(text)
        if not py_equal(back, want):
            fails.append(('std-parser-roundtrip', canon(want), canon(back)))
    except Exception as exc:  # pylint: disable=broad-except
        back = None
        fails.append(('valid-json', 'json.loads accepts ' + text[:300], f'{type(exc).__name__}: {exc}'))

    # 2. jsonParse(jsonStringify(v)) == v by value_compare
    try:
        parsed = library._json_parse([parse_text], None)  # pylint: disable=protected-access
        cmp_ = value.value_compare(parsed, want)
        if cmp_ != 0 or not py_equal(parsed, want):
            fails.append(('jsonParse-jsonStringify', canon(want), {'value_compare': cmp_, 'parsed': canon(parsed)}))
    except Exception as exc:  # pylint: disable=broad-except
        fails.append(('jsonParse-jsonStringify', canon(want), f'{type(exc).__name__}: {exc}'))

    # 3. keys in sorted order in the text
    if back is not None:
        ok, bad = keys_in_text_order_sorted(text)
        if not ok:
            fails.append(('keys-sorted', 'ascending unique keys', bad))

    # 4./5. tokens: string literals are the plain escapes of the originals; integral numbers have no fraction
    toks = tokenise(text)
    strs, nums = [], []
    walk(want, strs, nums)
    if toks is None:
        fails.append(('strings-untouched', 'terminated literals', text[:300]))
    else:
        lits, words = toks
        # every literal token denotes exactly the original string / key (standard decoder on the token alone)
        try:
            got_strs = [json.loads(lit) for lit in lits]
        except ValueError as exc:
            got_strs = f'{type(exc).__name__}: {exc}'
        if got_strs != strs:
            fails.append(('strings-untouched', strs[:20], got_strs[:20] if isinstance(got_strs, list) else got_strs))
        if len(words) != len(nums):
            fails.append(('number-tokens', [repr(x) for x in nums][:20], words[:20]))
        else:
            for x, w in zip(nums, words):
                integral = isinstance(x, int) or (x.is_integer() and abs(x) < 1e16)
                try:
                    val_ok = (int(w) if _INT_TOKEN.match(w) else float(w)) == x
                except ValueError:
                    val_ok = False
                if not val_ok or (integral and not _INT_TOKEN.match(w)) or (isinstance(x, int) and w != str(x)):
                    fails.append(('integral-no-fraction' if val_ok else 'number-value',
                                  (str(int(x)) if x != 0 or isinstance(x, int) or math.copysign(1.0, x) > 0 else '-0') if integral else repr(x), w))
                    break
    return fails


def oracle_failures(impl, v, indent, extra=None, ref=None, lib_indent=None):
    """All property oracles on the real implementation for value v and indent (None or int).
    -> (list of (oracle, expected, actual) - empty when the property holds on this input -, text of value_json or None).
    `ref` is an independent plain-tree copy of v made BEFORE the call (every container a fresh object): the texts are judged
    against it, so neither the object identity of v's parts (one array referenced from two places) nor anything the
    serialiser does to its argument can leak into the expectation; extra['mutated'] is set when v no longer equals ref afterwards.
    extra['jsonStringify'] receives what the library function returned (correspondence only: a different but valid layout is not
    a violation of the property). `lib_indent`: the object handed to the library function as indent (a host number type)."""
    fails = []
    extra = {} if extra is None else extra
    want = v if ref is None else ref
    value, library = impl['value'], impl['library']
    try:
        text = value.value_json(v, indent)
    except Exception as exc:  # pylint: disable=broad-except
        return [('serialises', 'a JSON text', f'{type(exc).__name__}: {exc}')], None
    if not isinstance(text, str):
        return [('serialises', 'a JSON text', repr(text)[:200])], None

    # jsonStringify (library function, indent as int or float) is value_json
    try:
        args = [v] if indent is None else [v, lib_indent if lib_indent is not None else float(indent) if indent % 2 else indent]
        lib_text = library._json_stringify(args, None)  # pylint: disable=protected-access
        extra['jsonStringify'] = lib_text
    except Exception as exc:  # pylint: disable=broad-except
        lib_text = None
        extra['jsonStringify'] = f'{type(exc).__name__}: {exc}'
        fails.append(('serialises', 'jsonStringify returns a JSON text', extra['jsonStringify']))

    fails += text_failures(impl, text, lib_text if isinstance(lib_text, str) else text, want)
    if ref is not None and not py_equal(v, ref):
        extra['mutated'] = True
    return fails, text


# ---------------------------------------------------------------------------------------------------------------------
# generators
# ---------------------------------------------------------------------------------------------------------------------

SMALL = ['a', '.', '0', ',', ']', '}']
NASTY = SMALL + ['"', '\\', '/', ' ', '\n', '\t', '\r', '\x00', '\x1f', '\x7f', '\x08', '\x0c', '\x0b', '\x85', '\xa0', '\xe9', '\u2028',
                 '\ud7ff', '\ue000', '\uffff', '\ufeff', '\U0001f600', '\U00010000', '\U0010ffff', 'u', '1', ':', '[', '{', 'e', '-', '+', 'n']
INDENTS = [None, 1, 2, 3, 4, 5, 6, 7, 8]

FLOATS = [0.0, -0.0, 1.0, -1.0, 2.0, 10.0, 100.0, 1e15, 999999999999999.9, 9999999999999998.0, 1e16, -1e16, 1.2345678901234568e+17,
          1e21, 1e22, 1e100, 1.7976931348623157e308, float(2 ** 53), float(2 ** 53 + 2), 4503599627370497.5, 0.5, 1.5, -1.5, 0.1, 0.2, 0.30000000000000004,
          100.001, 1.0000000000000002, 0.001, 0.0001, 1e-05, 1e-07, 1.5e-07, -1e-07, 2.2250738585072014e-308, 5e-324, -5e-324, 1e-320,
          123456.789, 3.141592653589793, 1.05, 10.01, 1000000.0, 0.10000000000000002, 20.0, 1.0e2, 30.3, 0.05]
INTS = [0, 1, -1, 7, 10, 42, -100, 2 ** 31, 2 ** 53, 2 ** 53 + 1, -(2 ** 63), 10 ** 15, 10 ** 16, 10 ** 20, -(10 ** 30) + 1, 10 ** 100]


def small_strings(maxlen):
    for n in range(maxlen + 1):
        for tup in itertools.product(SMALL, repeat=n):
            yield ''.join(tup)


def gen_string(rng):
    r = rng.random()
    if r < 0.1:
        return ''
    if r < 0.5:
        return ''.join(rng.choice(SMALL) for _ in range(rng.randint(1, 6)))
    if r < 0.78:
        return ''.join(rng.choice(NASTY) for _ in range(rng.randint(1, 8)))
    if r < 0.9:
        return gen_unit_string(rng)
    # arbitrary scalar values
    out = []
    for _ in range(rng.randint(1, 5)):
        c = rng.randrange(0x110000)
        if 0xd800 <= c <= 0xdfff:
            c = 0x41
        out.append(chr(c))
    return ''.join(out)


def _special_chars():
    """Every character that some text-level tool treats as a boundary: Unicode separators (Zs/Zl/Zp), controls (Cc), format
    characters (Cf), whatever str.isspace / str.splitlines / regex \\s recognise - plus the JSON-significant ASCII characters and a
    few ordinary / extreme ones. Computed from the running Python's tables (about 290 characters)."""
    out = []
    for c in range(0x110000):
        if 0xd800 <= c <= 0xdfff:
            continue
        ch = chr(c)
        if unicodedata.category(ch) in ('Zs', 'Zl', 'Zp', 'Cc', 'Cf') or ch.isspace() or len(('a' + ch + 'b').splitlines()) > 1:
            out.append(ch)
    out = sorted(set(out))
    extra = ['"', '\\', '/', ',', ':', '[', ']', '{', '}', ' ', '-', '+', 'e', 'E', 'a', '0', '9', '_', '~', '!', '\xe9', '\xdf', '\u0130', '\u0663', '\u0969', '\uff13',
             '\U0001d7cf', '\ud7ff', '\ue000', '\ufffd', '\uffff', '\U00010000', '\U0001f600', '\U0010ffff', '\u0301', '\u200d']
    have = set(out)
    return out + [c for c in extra if c not in have]


SPECIAL = _special_chars()
LINE_BOUNDARIES = [c for c in SPECIAL if len(('a' + c + 'b').splitlines()) > 1]
# text that looks like (part of) a number or a JSON token - what a clean-up pass may take for one
NUMLIKE = ['2.0', '0.0', '1.00', '7.0,', '5.0]', '3.0}', '4.0 ', '-1.0', '6.0:', '1e+16', '1.5', '.0', '.00,', '10', '1.0e5', '\u0663.0', '\uff13.0,', '"8.0', '\\9.0',
           '0', '-0.0', 'null', 'true', '1.0"', '2.0\\',
           # JSON-token look-alikes in value position (a pass that rewrites tokens "outside strings" by context - R7C14-m1)
           'NaN', 'Infinity', '-Infinity', ',NaN,', '[NaN]', ': NaN }', ':Infinity,', ',-Infinity]', '[ Infinity ]', 'nan', 'inf', ',null,', '[true]',
           ':false}', ',]', ',}', ', ]', '{"a":1.0}', '[1.0,2.0]', '{"k": NaN}', '[NaN, Infinity]']


def boundary_strings(c, frag):
    """the four placements of a number-like fragment against the character c"""
    return [frag + c + 'x', frag + c, c + frag, 'v ' + frag + c + frag]


def gen_unit_string(rng):
    """a string made of whole units: number-like fragments, boundary characters, ordinary text"""
    out = []
    for _ in range(rng.randint(1, 5)):
        r = rng.random()
        if r < 0.4:
            out.append(rng.choice(NUMLIKE))
        elif r < 0.8:
            out.append(rng.choice(LINE_BOUNDARIES if rng.random() < 0.3 else SPECIAL))
        else:
            out.append(rng.choice(['x', 'version ', 'a', ' ', 'k']))
    return ''.join(out)


def gen_float(rng):
    r = rng.random()
    if r < 0.45:
        return rng.choice(FLOATS)
    if r < 0.6:
        return float(rng.randint(-10 ** rng.randint(0, 17), 10 ** rng.randint(0, 17)))
    if r < 0.8:
        return round(rng.uniform(-1000, 1000), rng.randint(0, 6))
    while True:
        x = struct.unpack('<d', struct.pack('<Q', rng.getrandbits(64)))[0]
        if math.isfinite(x):
            return x


def gen_number(rng):
    r = rng.random()
    if r < 0.2:
        return rng.choice(INTS)
    if r < 0.3:
        return rng.randint(-10 ** rng.randint(0, 25), 10 ** rng.randint(0, 25))
    return gen_float(rng)


def gen_value(rng, depth, top=False):
    r = rng.random()
    if top and r < 0.45:
        r = 0.5 + r
    if depth <= 0 or r < 0.45:
        k = rng.random()
        if k < 0.08:
            return None
        if k < 0.16:
            return rng.random() < 0.5
        if k < 0.55:
            return gen_number(rng)
        return gen_string(rng)
    if r < 0.75:
        return [gen_value(rng, depth - 1) for _ in range(rng.choice([0, 1, 1, 2, 2, 3, 4]))]
    return {gen_string(rng): gen_value(rng, depth - 1) for _ in range(rng.choice([0, 1, 1, 2, 2, 3, 4]))}


def depth_of(v):
    if isinstance(v, list):
        return 1 + max([depth_of(x) for x in v], default=0)
    if isinstance(v, dict):
        return 1 + max([depth_of(x) for x in v.values()], default=0)
    return 0


def load_corpus():
    path = os.path.join(fw.VERIF, 'harness', 'corpus', 'C14.jsonl')
    out = []
    if os.path.exists(path):
        with open(path, encoding='utf-8') as fh:
            for ln in fh:
                ln = ln.strip()
                if ln and not ln.startswith('#'):
                    d = json.loads(ln)
                    if 'history' not in d:
                        out.append((from_wire(d['value']), d.get('indent')))
    return out


# ---------------------------------------------------------------------------------------------------------------------
# streams
# ---------------------------------------------------------------------------------------------------------------------


def run_encode_cases(ctx, st, stream, cases, pool):
    """cases: [(value, indent, tags)]. Model correspondence + oracles + injectivity pool."""
    impl = fw.impl()
    cases = [(c + (None, None))[:5] for c in cases]     # (value, indent, tags[, host wire form of the value[, wire of the indent object]])
    reqs = [{'op': 'encode', 'value': to_wire(v), 'indent': ind or 0} for v, ind, _, _, _ in cases]
    resps = ctx.driver.batch(reqs)
    texts = []
    for (v, ind, tags, hostwire, indwire), req, resp in zip(cases, reqs, resps):
        case = {'value': req['value'] if hostwire is None else hostwire, 'indent': ind}
        if indwire is not None:
            case['indent_object'] = indwire
        extra = {}
        fails, text = oracle_failures(impl, v, ind, extra, ref=from_wire(req['value']), lib_indent=None if indwire is None else from_wire(indwire))
        nontrivial = isinstance(v, (list, dict)) and len(v) > 0
        if extra.get('mutated'):
            ctx.disagree(stream, case, {'argument after the call': to_wire(v)}, {'argument': req['value']}, 'value_json changed its argument')
        st.case(case, nontrivial=nontrivial, tags=list(tags) + [f'indent={ind}', f'depth{depth_of(v)}'])
        for oracle, want, got in fails:
            ctx.witness(oracle, case, want, got)
        impl_out = {'text': text} if text is not None else {'error': fails[0][2].split(':')[0]}
        ctx.compare(stream, case, impl_out, {'text': resp.get('mirror', resp)})
        if text is not None and extra.get('jsonStringify') != text:
            ctx.disagree(stream, case, {'jsonStringify': str(extra.get('jsonStringify'))[:300]}, {'text': text[:300]},
                         'library jsonStringify(v, indent) differs from value_json(v, int(indent))')
        if resp.get('mirror') != resp.get('spec'):
            ctx.disagree(stream, case, resp.get('mirror'), resp.get('spec'), 'inside the model: mirror encoder differs from spec encoder')
        if resp.get('wf') is not True:
            ctx.disagree(stream, case, 'repr grammar / unique keys', resp.get('wf'), 'generated value is outside the hypotheses WF of the theorems')
        if text is not None:
            texts.append(text)
            # injectivity on the pool: one text, one value
            key = json.dumps(canon(from_wire(req['value'])), ensure_ascii=True)
            prev = pool.setdefault(text, (key, case))
            if prev[0] != key:
                ctx.witness('injective', {'value': case['value'], 'indent': ind, 'other': prev[1]}, 'different values, different texts', text[:300])
    return texts


def stream_json(ctx, pool):
    st = ctx.stream('json', 'value_json / jsonStringify vs mirror and spec encoders + all property oracles on the implementation: corpus, '
                            'every scalar of the number/string tables at top level and inside [x] / {"k": x}, random values of depth <= 5 over '
                            'the nasty alphabet, indent in {none,1..8}; non-trivial = non-empty container')
    rng = ctx.rng('json')
    cases = [(v, ind, ['corpus']) for v, ind in load_corpus()]
    scalars = [None, True, False] + INTS + FLOATS + [-x for x in FLOATS] + ['', 'etc., x', 'a.0]', 'q"x.0,', '\\', 'é', '😀', '1.0', '"1.0"', '\\"1.0,', '.0', '.0\n']
    for x in scalars:
        cases.append((x, None, ['scalar']))
        cases.append(([x], rng.choice(INDENTS), ['scalar-in-array']))
        cases.append(({'k': x, 'j': [x, 1.0]}, rng.choice(INDENTS), ['scalar-in-object']))
    for ind in INDENTS:
        cases.append(([1.0, 'a.0,', {'b.0]': 2.0, 'a': [], 'c': {}}, [[-0.0]], 1e16, 1.5], ind, ['layout']))
    # value_json treats indent <= 0 like None
    cases.append(([1.0, {'a': 'x.0,'}], 0, ['indent<=0']))
    cases.append(([1.0, {'a': 'x.0,'}], -3, ['indent<=0']))
    for _ in range(ctx.scale(2500, 60000)):
        cases.append((gen_value(rng, rng.randint(1, 5), top=True), rng.choice(INDENTS), ['random']))
    texts = []
    for i in range(0, len(cases), 20000):
        texts += run_encode_cases_neg(ctx, st, 'json', cases[i:i + 20000], pool)
    st.exhaustive = False
    return texts


def run_encode_cases_neg(ctx, st, stream, cases, pool):
    """like run_encode_cases, but a non-positive indent is sent to the model as 0 and skips the jsonStringify comparison"""
    normal = [(v, ind, tags) for v, ind, tags in cases if ind is None or ind > 0]
    texts = run_encode_cases(ctx, st, stream, normal, pool)
    odd = [(v, ind, tags) for v, ind, tags in cases if not (ind is None or ind > 0)]
    if odd:
        impl = fw.impl()
        resps = ctx.driver.batch([{'op': 'encode', 'value': to_wire(v), 'indent': 0} for v, _, _ in odd])
        for (v, ind, tags), resp in zip(odd, resps):
            case = {'value': to_wire(v), 'indent': ind}
            st.case(case, nontrivial=True, tags=list(tags))
            try:
                out = {'text': impl['value'].value_json(v, ind)}
            except Exception as exc:  # pylint: disable=broad-except
                out = {'error': type(exc).__name__}
            ctx.compare(stream, case, out, {'text': resp.get('mirror')})
            # the library function rejects such an indent (argument model: integer >= 1)
            try:
                impl['library']._json_stringify([v, ind], None)  # pylint: disable=protected-access
                rejected = False
            except impl['value'].ValueArgsError:
                rejected = True
            except Exception:  # pylint: disable=broad-except
                rejected = False
            ctx.compare(stream, {'jsonStringify-indent': ind}, {'rejected': rejected}, {'rejected': True})
    return texts


def string_contexts(s):
    yield [s, 1.0], ['ctx=array']
    yield {s: 1.0, 'k': s}, ['ctx=key+value']
    yield [{s: [2.0, s]}, 1.0], ['ctx=nested']


def stream_strings(ctx, pool):
    maxlen = ctx.scale(3, 4)
    st = ctx.stream('strings', f'every string of length <= {maxlen} over {{a . 0 , ] }}}} as array element next to an integral float, as object '
                               'key and value, and nested, compact and indented (quick: length 4 sampled): encoder correspondence + all '
                               'oracles; non-trivial = the string contains one of . 0 , ] }')
    rng = ctx.rng('strings')
    strings = list(small_strings(maxlen))
    if ctx.quick:
        strings += [''.join(rng.choice(SMALL) for _ in range(4)) for _ in range(300)]
    cases = []
    for s in strings:
        for v, tags in string_contexts(s):
            for ind in ([None, 2] if not ctx.quick else [rng.choice([None, 1, 2])]):
                cases.append((v, ind, tags + [f'len{len(s)}']))
    for i in range(0, len(cases), 20000):
        run_encode_cases(ctx, st, 'strings', cases[i:i + 20000], pool)
    st.exhaustive = not ctx.quick
    return strings


def char_class(c):
    if c in LINE_BOUNDARIES:
        return 'line-boundary'
    if c.isspace():
        return 'space'
    cat = unicodedata.category(c)
    return cat if cat in ('Cc', 'Cf') else 'other'


def gen_unit_value(rng, depth):
    r = rng.random()
    if depth <= 0 or r < 0.35:
        return gen_unit_string(rng) if rng.random() < 0.8 else gen_number(rng)
    if r < 0.65:
        return [gen_unit_value(rng, depth - 1) for _ in range(rng.choice([1, 2, 2, 3]))]
    return {gen_unit_string(rng): gen_unit_value(rng, depth - 1) for _ in range(rng.choice([1, 2, 2, 3]))}


# keys that other collations order differently from code-point order (the order of the property: sorted() on str)
KEY_GROUPS = [['a', 'B', 'b', 'A'], ['E', '_', 'e', 'Z', 'a', '^'],                                        # case-insensitive
              ['\uffff', '\U00010000', '\ue000', '\ud7ff', '\U0010ffff', '\ufb01', '\U0001f600'],              # UTF-16 code units
              ['10', '9', '2', '1', '01', '1.0', '-1', '+1', '_1'],                                        # numeric-aware
              ['a', 'a ', 'a!', 'a"', 'a\\', 'a/', 'ab', 'a\x7f', 'a\x00', 'a\n', 'a\xe9', 'a~', 'a_', 'aZ'],  # escaped text instead of the key
              ['\xe9', 'e\u0301', 'f', 'e', '\xeb', 'z', 'E'],                                            # normalisation / locale
              ['', ' ', '\t', '\x00', '0'],
              ['k', 'K', '\u212a', '\u017f', 's', 'S', '\xdf', 'ss', 'i', 'I', '\u0130', '\u0131']]          # case folding specials


def key_order_cases(rng, quick):
    cases = []
    for group in KEY_GROUPS:
        for a, b in itertools.permutations(group, 2):
            for ind in ([rng.choice([None, 2])] if quick else [None, 1, 4]):
                cases.append(({a: 1, b: [{b: 2.0, a: 'v'}]}, ind, ['key-order', 'pair']))
    for _ in range(300 if quick else 6000):
        keys = rng.sample(rng.choice(KEY_GROUPS) if rng.random() < 0.7 else sorted({k for g in KEY_GROUPS for k in g}), 3)
        rng.shuffle(keys)
        cases.append(({k: i for i, k in enumerate(keys)}, rng.choice(INDENTS), ['key-order', 'random']))
    return cases


def stream_boundaries(ctx, pool):
    """Text that looks like a number (or a JSON token) directly against every character some text tool treats as a boundary.
    The serialiser works in stages (encoder, then a clean-up over the produced TEXT): whatever unit a stage works on - the whole
    text, a line, a token, a \\s-separated word - a string must pass through untouched. The tree streams draw strings character
    by character from a small alphabet, so '2.0' + U+2028 inside an indented value practically never came up."""
    st = ctx.stream('boundaries', f'strings and keys in which a number-like fragment ({len(NUMLIKE)} of them: 2.0 1.00 7.0, 5.0] -1.0 1e+16 .0 "8.0 '
                                  f'null ..., also with non-ASCII digits) stands before / after / around EVERY boundary character ({len(SPECIAL)}: all '
                                  'of Unicode Zs/Zl/Zp/Cc/Cf, everything str.isspace / str.splitlines / \\s know, the JSON-significant ASCII, extreme '
                                  'code points), in four placements, as array element / key / object value / nested element next to integral '
                                  'floats and as the top-level value, compact and indented (line boundaries: every indent); plus random '
                                  'values whose strings are concatenations of such units; plus objects whose keys come from groups that other '
                                  'collations (case-insensitive, UTF-16 code units, numeric-aware, escaped text, normalisation, case folding) order '
                                  'differently from code-point order, every ordered pair; encoder correspondence with the model + all property '
                                  'oracles; non-trivial = container value')
    rng = ctx.rng('boundaries')
    all_inds = [None, 1, 2, 3, 4, 8]
    cases = []
    for c in SPECIAL:
        cls = char_class(c)
        for frag in NUMLIKE:
            strs = boundary_strings(c, frag)
            inds = all_inds if (cls == 'line-boundary' or not ctx.quick) else [rng.choice([None, 1, 2, 4])]
            for ind in inds:
                rng.shuffle(strs)
                cases.append(([strs[0], 1.0, {strs[1]: strs[2], 'k': [strs[3], 2.0]}], ind, ['packed', cls]))
            for s in (strs if not ctx.quick else [rng.choice(strs)]):
                cases.append((s, rng.choice([None, 2]), ['top-level', cls]))
                if not ctx.quick:
                    cases.append(({s: s}, rng.choice(all_inds), ['key=value', cls]))
    for _ in range(ctx.scale(2000, 40000)):
        cases.append((gen_unit_value(rng, rng.randint(0, 3)), rng.choice(INDENTS + [12, 16, 31]), ['random-units']))
    cases += key_order_cases(rng, ctx.quick)
    for i in range(0, len(cases), 20000):
        run_encode_cases(ctx, st, 'boundaries', cases[i:i + 20000], pool)
    st.exhaustive = False


# ---------------------------------------------------------------------------------------------------------------------
# host-boundary values: the host hands the script numbers / strings / containers of SUBCLASS types
# ---------------------------------------------------------------------------------------------------------------------
#
# value_type() classifies by isinstance, so an IntEnum member IS a number, a str-mixin Enum member or a str subclass IS a string, an
# OrderedDict / defaultdict IS an object for the interpreter - they are values of the property. Their own __repr__ / __str__ differ
# from the plain value's ('<Level.M: 3>', 'HFloat(2.0)'), so a serialiser that formats with repr() / str() / f-strings, or that
# dispatches on type(v) is ..., goes wrong only here. The Lean model cannot see host types: it is compared on the denoted tree.


def hostify(rng, w, p):
    """wire -> wire in which nodes (and object keys) are wrapped as host-typed objects with probability p"""
    if w is None or isinstance(w, bool):
        return w
    (k, x), = w.items()
    if k == 'a':
        w = {'a': [hostify(rng, y, p) for y in x]}
    elif k == 'o':
        w = {'o': [[hostify(rng, {'s': kk}, p) if rng.random() < p else kk, hostify(rng, y, p)] for kk, y in x]}
    if rng.random() < p:
        return {'h': [rng.choice(HOST_KINDS[k]), w]}
    return w


def has_host(w):
    return '"h"' in json.dumps(w)


def mode_sources(ind, with_indent_object):
    """(mode, source, expected shape) - the value is the host global v, the indent object the host global n"""
    arg = '' if ind is None else (', n' if with_indent_object else f', {ind}')
    return [('expr', f'jsonStringify(v{arg})', 'v'),
            ('script', f'return jsonStringify(v{arg})\n', 'v'),
            ('script', f"w = arrayNew(v, objectNew('k', v))\nreturn jsonStringify(w{arg})\n", 'wrapped'),
            ('expr', f"jsonStringify(objectNew('v', v, 'c', arrayCopy(arrayNew(v))){arg})", 'wrapped2')]


def modes_failures(impl, wire, ind, indwire=None, only=None):
    """The value (wire form, host types allowed) serialised from inside the interpreter: expression and script entry points,
    alone and inside containers built by library functions. -> [(oracle, case extras, expected, actual)]"""
    out = []
    plain = plain_wire(wire)
    for i, (mode, src, shape) in enumerate(mode_sources(ind, indwire is not None)):
        if only is not None and i != only:
            continue
        v = from_wire(wire)
        glob = {'v': v}
        if indwire is not None:
            glob['n'] = from_wire(indwire)
        p = from_wire(plain)
        want = {'v': p, 'wrapped': [p, {'k': p}], 'wrapped2': {'v': p, 'c': [p]}}[shape]
        try:
            if mode == 'expr':
                # evaluate_expression knows the expression built-ins only: the host passes the library functions it wants as globals
                glob.update({k: impl['library'].SCRIPT_FUNCTIONS[k] for k in ('jsonStringify', 'objectNew', 'arrayNew', 'arrayCopy')})
                text = impl['runtime'].evaluate_expression(impl['parser'].parse_expression(src), {'globals': glob})
            else:
                text = impl['runtime'].execute_script(impl['parser'].parse_script(src), {'globals': glob, 'maxStatements': 100})
        except Exception as exc:  # pylint: disable=broad-except
            out.append(('serialises', {'mode': mode, 'source': src}, 'a JSON text', f'{type(exc).__name__}: {exc}'[:300]))
            continue
        if not isinstance(text, str):
            out.append(('serialises', {'mode': mode, 'source': src}, 'a JSON text', repr(text)[:200]))
            continue
        for oracle, w_, g_ in text_failures(impl, text, text, want):
            out.append((oracle, {'mode': mode, 'source': src}, w_, g_))
    return out


def stream_hostvalues(ctx, pool):
    st = ctx.stream('hostvalues', 'values supplied by the HOST with subclass types at any node: int subclass / IntEnum member, float subclass, str '
                                  'subclass / str-mixin Enum member (also as object key), list subclass, dict subclass / OrderedDict / defaultdict - all '
                                  'with __repr__ / __str__ that differ from the plain value; the indent too as int subclass / float subclass / IntEnum / '
                                  'integral float; serialised by value_json, by the library function, and from inside the interpreter '
                                  '(evaluate_expression and execute_script; bare and inside containers built by arrayNew / objectNew / arrayCopy); '
                                  'every text judged by all property oracles against the plain tree the value denotes. Host types do not exist in '
                                  'the Lean model: the model encoder is compared on the denoted tree (implementation-side oracles carry the '
                                  'host-type part); non-trivial = at least one host-typed node')
    rng = ctx.rng('hostvalues')
    impl = fw.impl()
    cases = []
    seeds = [None, True] + INTS[:8] + FLOATS[:12] + ['', 'a.0,', 'x"y', '\u2028', 'é']
    for x in seeds:
        w = to_wire(x)
        if isinstance(w, dict):
            for kind in HOST_KINDS[next(iter(w))]:
                cases.append(({'h': [kind, w]}, None, ['scalar', kind]))
                cases.append(({'a': [{'h': [kind, w]}, {'f': [False, 1]}]}, rng.choice(INDENTS), ['scalar-in-array', kind]))
    for _ in range(ctx.scale(1200, 30000)):
        plain = to_wire(gen_value(rng, rng.randint(0, 4), top=rng.random() < 0.7))
        hw = hostify(rng, plain, rng.choice([0.15, 0.4, 1.0]))
        cases.append((hw, rng.choice(INDENTS), ['random']))
    enc = []
    for hw, ind, tags in cases:
        indwire = None
        if ind is not None and rng.random() < 0.5:
            indwire = rng.choice([{'h': ['int', {'i': ind}]}, {'h': ['intenum', {'i': ind}]}, {'h': ['float', {'f': [False, ind]}]}, {'f': [False, ind]}])
        assert to_wire(from_wire(hw)) == plain_wire(hw)
        enc.append((from_wire(hw), ind, tags + (['host'] if has_host(hw) else ['plain']), hw, indwire))
    run_encode_cases(ctx, st, 'hostvalues', enc, pool)
    # from inside the interpreter
    for n, (_, ind, _, hw, indwire) in enumerate(enc):
        for oracle, more, want, got in modes_failures(impl, hw, ind, indwire, only=None if not ctx.quick else n % 4):
            case = {'value': hw, 'indent': ind}
            if indwire is not None:
                case['indent_object'] = indwire
            case.update(more)
            ctx.witness(oracle, case, want, got)
    st.exhaustive = False


def regex_cleanup(impl, text):
    value = impl['value']
    try:
        return {'text': value._R_VALUE_JSON_NUMBER_CLEANUP.sub(value._value_json_number_cleanup, text)}  # pylint: disable=protected-access
    except Exception as exc:  # pylint: disable=broad-except
        return {'error': type(exc).__name__}


CLEAN_ALPHA = ['"', '\\', '.', '0', ',', 'a', '\n']
CLEAN_WIDE = CLEAN_ALPHA + ['}', ']', ' ', '\t', '\r', '1', 'e', '-', ':', '[', '{', '\x0b', '\x0c', '\x1c', '\x85', '\xa0', '\u2028', '\u3000',
                            '\xe9', '\U0001f600', '/', 'u']


def stream_cleanup(ctx, stage1_texts):
    k = ctx.scale(4, 6)
    st = ctx.stream('cleanup', f'stage 2 alone on ARBITRARY text (also unterminated literals, backslash-newline, every Python \\s character): '
                               f'the real regex substitution vs the scanner Json.clean; all texts of length <= {k} over '
                               '{" \\ . 0 , a \\n} + random texts over a wider alphabet + stage-1 texts; non-trivial = contains ".0"')
    rng = ctx.rng('cleanup')
    impl = fw.impl()
    texts = [''.join(t) for n in range(k + 1) for t in itertools.product(CLEAN_ALPHA, repeat=n)]
    for _ in range(ctx.scale(3000, 60000)):
        texts.append(''.join(rng.choice(CLEAN_WIDE if rng.random() < 0.7 else CLEAN_ALPHA) for _ in range(rng.randint(1, 24))))
    for c in range(0x3100):   # every candidate whitespace character after ".0"
        if not 0xd800 <= c <= 0xdfff:
            texts.append('1.0' + chr(c) + '2.00' + chr(c))
    texts += stage1_texts[:ctx.scale(300, 3000)]
    for i in range(0, len(texts), 50000):
        chunk = texts[i:i + 50000]
        resps = ctx.driver.batch([{'op': 'cleanup', 'text': t} for t in chunk])
        for t, resp in zip(chunk, resps):
            st.case(t, nontrivial='.0' in t, tags=[f'len{min(len(t), 25) // 5 * 5}+', 'quote' if '"' in t else 'noquote'])
            ctx.compare('cleanup', t, regex_cleanup(impl, t), {'text': resp.get('text')})
    st.exhaustive = False


MUT_ALPHA = ['"', '\\', ',', ':', '[', ']', '{', '}', '0', '1', '.', '-', '+', 'e', 'E', ' ', '\n', 'u', 'a', 'd', '8', 'f', '/', 't', '\t', '\x01']


def mutate(rng, text):
    cs = list(text)
    for _ in range(rng.choice([1, 1, 1, 2, 3])):
        r = rng.random()
        pos = rng.randrange(len(cs) + 1)
        if r < 0.35 and cs:
            del cs[min(pos, len(cs) - 1)]
        elif r < 0.7:
            cs.insert(pos, rng.choice(MUT_ALPHA))
        elif cs:
            cs[min(pos, len(cs) - 1)] = rng.choice(MUT_ALPHA)
    return ''.join(cs)


HAND_TEXTS = ['', ' ', 'null', ' true ', 'fals', 'nul', '[]', '[ ]', '{}', '{ }', '[1,]', '[,1]', '{"a":1,}', '{"a"}', '{"a":}', '{1:2}', '-0', '-0.0', '0', '00', '01',
              '-', '+1', '1.', '.5', '1.5', '1e5', '1E5', '1e+5', '1e-5', '1e', '1e+', '1.5e3', '1.0', '-1.25E-2', '1.2.3', '1-2', '1e5e5', '0x10', '1 2', '[1 2]',
              '"a', '"a"', '"\\', '"\\"', '"\\x"', '"\\u00e9"', '"\\u00E9"', '"\\u00g9"', '"\\u12"', '"\\ud83d\\ude00"', '"\\/"', '"\\b\\f\\n\\r\\t"', '"\x7f"', '"\x01"',
              '"\n"', '"\t"', '"é😀"', '{"a":1,"a":2}', '{"b":1,"a":2}', '[[[[[[]]]]]]', '[[[[[[]]]]]', '{"a":{"b":{"c":[]}}}', ' [ 1 , 2 ] ', '\n{\n "a" : [ ]\n}\n',
              '[1]x', 'true false', '"a" "b"', '﻿[]', '[\x0b1]', '[1,\x0c2]', '"\\ud83d\\u0041"', '123456789012345678901234567890', '-123456789012345678901234567890',
              '1e300', '[1.0, 2.50, 1e+16, -0]', '{"":""}', '{"a":1 "b":2}', '["a":1]', '{"a",1}', '[}', '{]', '"\\u0000"', '"\\uDBFF\\uDFFF"', '"\\ud800\\udc00"']


def canon_decoded_impl(impl, text):
    try:
        v = impl['library']._json_parse([text], None)  # pylint: disable=protected-access
    except ValueError:
        return {'ok': False}
    except RecursionError:
        return None
    except Exception as exc:  # pylint: disable=broad-except
        return {'error': type(exc).__name__}
    if has_lone_surrogate(v) or has_nonfinite(v):
        return None
    return {'ok': True, 'value': canon(v)}


def stream_decode(ctx, texts):
    st = ctx.stream('decode', 'jsonParse (json.loads) vs the model decoder Json.decode on serialiser outputs, hand-written JSON and near-JSON, '
                              'and 1-3 character mutations of valid texts (malformed stream); results with lone surrogates / NaN / inf are '
                              'outside the model and skipped; non-trivial = accepted by the implementation')
    rng = ctx.rng('decode')
    impl = fw.impl()
    base = texts[:ctx.scale(1500, 20000)]
    cases = [(t, 'serialised') for t in base] + [(t, 'hand') for t in HAND_TEXTS]
    for _ in range(ctx.scale(3000, 60000)):
        cases.append((mutate(rng, rng.choice(base) if rng.random() < 0.8 else rng.choice(HAND_TEXTS)), 'mutated'))
    cases = [(t, tag) for t, tag in cases if 'NaN' not in t and 'Infinity' not in t and not has_lone_surrogate(t)]
    for i in range(0, len(cases), 30000):
        chunk = cases[i:i + 30000]
        resps = ctx.driver.batch([{'op': 'decode', 'text': t} for t, _ in chunk])
        for (t, tag), resp in zip(chunk, resps):
            want = canon_decoded_impl(impl, t)
            if want is None:
                st.case(t, nontrivial=False, tags=[tag, 'skipped-outside-model'])
                continue
            if resp.get('ok'):
                try:
                    got = {'ok': True, 'value': canon(from_wire(resp['value']))}
                except (ValueError, OverflowError) as exc:
                    got = {'error': type(exc).__name__}
            else:
                got = {'ok': False}
            st.case(t, nontrivial=bool(want.get('ok')), tags=[tag, 'accepted' if want.get('ok') else 'rejected'])
            ctx.compare('decode', t, want, got)
    st.exhaustive = False


def stream_reparse(ctx):
    """jsonParse must return a FRESH value every time: parse a text, mutate the result through the library, parse the same
    text again - the second result must still equal the original value and be a different object (a parse cache that
    hands out the same mutable list/dict breaks the round trip on the second call)."""
    impl = fw.impl()
    lib = impl['library'].SCRIPT_FUNCTIONS
    vcmp = impl['value'].value_compare
    rng = ctx.rng('reparse')
    st = ctx.stream('reparse', 'arrays/objects serialised, parsed, the parsed value mutated (arrayPush/objectSet/arraySet), then the '
                               'same text parsed again; non-trivial = container with at least one element')
    for i in range(ctx.scale(300, 5000)):
        if rng.random() < 0.5:
            v = [rng.choice([1, 2.5, 'a', None, True, [1], {'k': 1}]) for _ in range(rng.randint(0, 4))]
        else:
            v = {rng.choice(['a', 'b', 'c.0,', 'k']): rng.choice([1, 'x', None, [2]]) for _ in range(rng.randint(0, 3))}
        ind = rng.choice([None, None, 2])
        text = lib['jsonStringify']([v] if ind is None else [v, ind], None)
        st.case({'value': text, 'indent': ind}, nontrivial=len(v) > 0, tags=['array' if isinstance(v, list) else 'object'])
        try:
            text_ok = py_equal(json.loads(text), v)
        except (TypeError, ValueError):
            text_ok = False
        if not text_ok:
            # the serialiser (not the parser) went wrong, and only after the calls made before this one: the history stream
            # looks for a self-contained input; here it is recorded as a broken correspondence
            ctx.disagree('reparse', {'value': to_wire(v), 'indent': ind, 'after': f'{i} earlier serialisations'}, {'text': str(text)[:300]},
                         {'value': canon(v)}, 'jsonStringify gave a text that is not the value (depends on earlier calls)')
            continue
        first = lib['jsonParse']([text], None)
        if isinstance(first, list):
            lib['arrayPush']([first, 'extra'], None)
            if first:
                lib['arraySet']([first, 0, 'changed'], None)
        elif isinstance(first, dict):
            lib['objectSet']([first, 'extra', 1], None)
        second = lib['jsonParse']([text], None)
        if second is first or vcmp(second, v) != 0:
            ctx.witness('reparse-fresh', {'text': text}, 'a fresh value equal to the original', repr(second)[:300])
            return


# ---------------------------------------------------------------------------------------------------------------------
# object graphs and histories: the value handed to jsonStringify as a program builds it
# ---------------------------------------------------------------------------------------------------------------------
#
# A JSON value of the property is a TREE; the Python object that denotes it need not be one: `row = arrayNew('r', 1.5)`,
# `objectNew('first', row, 'last', row)` holds ONE list object at two places (no cycle), arrayNewSize(3, row) holds it three
# times, arrayCopy / objectCopy share their elements with the original, and a container can be serialised, changed in place
# and serialised again. None of this may show in the text: it is a function of the denoted tree alone. from_wire() builds a
# fresh object for every node, so the tree streams above never produce such values; this family does.
#
# history = {"scalars": [wire, ...],            leaves by index (in script mode the host globals s0, s1, ...)
#            "kinds":   ["a" | "o", ...],       kind of every container binding b0, b1, ... in creation order
#            "steps":   [step, ...]}
# item = ["s", i] | ["b", j]
# step = ["arr", [item, ...]]                   b_new = arrayNew(items...)
#      | ["obj", [[key scalar index, item], ...]] b_new = objectNew(key, item, ...)
#      | ["copy", j]                            b_new = arrayCopy(bj) / objectCopy(bj)   (shallow: elements shared)
#      | ["fill", n, item]                      b_new = arrayNewSize(n, item)            (the same item n times)
#      | ["push", j, item]                      arrayPush(bj, item)
#      | ["set", j, index | key scalar index, item]   arraySet / objectSet
#      | ["del", j, key scalar index]           objectDelete
#      | ["drop", j]                            bj = null (the object may be freed and its id reused)
#      | ["ser", item, indent | null]           t_new = jsonStringify(item[, indent])    <- every one is judged by all oracles
#      | ["parse", k]                           b_new = jsonParse(t_k)
# A step of stream `history` only ever stores binding j into a binding with a larger index, so no container can contain itself.
#
# Fault-then-continue histories (stream `faults`) add: scalars {"x": kind} - host-supplied things WITHOUT a JSON form (NaN, +-inf,
# an int beyond the int->str limit, an object with unsortable keys, nesting beyond the recursion limit) - and {"h": [kind, wire]}
# host-typed values; "set" / "push" with ANY item (so a container can be made to contain itself or one of its containers), and
#        ["ser", item, indent | null, route]    route "json" (default): t_new, or null / an exception when the object has no JSON form
#                                               at that moment - expected then, and not judged;
#                                               route "str" = stringNew(item) | "cat" = '' + item: other ways into the serialiser
#                                               (containers stringify through it) - they may fail inside it like jsonStringify,
#                                               their result is NOT judged (the property is about jsonStringify)
#      | ["bad", item, how]                     a call that fails argument validation with the object as (part of) the offending
#                                               arguments: how = "len" stringLength(item) | "ind0" jsonStringify(item, 0) |
#                                               "indfrac" jsonStringify(item, 1.5) | "indstr" jsonStringify(item, 'x') | "extra" jsonStringify(item, 2, item)
#      | ["badparse", k, num, den]              jsonParse of the first len*num/den characters of t_k (fails unless that is JSON)
#      | ["pop", j]                             arrayPop(bj)
# What is judged is every serialisation of an object that DOES denote a JSON value at that moment - in particular after a failed
# call on the very same objects and their in-place repair.

CONFUSABLE = [[True, 1, 1.0], [False, 0, 0.0, -0.0], ['1', 1, 1.0], [None, 'null', 'None'], ['', 0, False, None], ['true', True], [2 ** 53, float(2 ** 53)],
              ['a', 'a.0,'], [1.5, '1.5'], [10 ** 16, 1e16]]
HIST_MAX_TREE = 250


class HistoryAbort(Exception):
    pass


NO_JSON = 'no JSON form'      # snapshot of a serialisation whose object denotes no JSON value at that moment
NOT_JUDGED = 'not judged'     # snapshot of a stringNew / concatenation step: the property speaks of jsonStringify only - these
                              # reach the serialiser (and may fail inside it), their result is nobody's business here


BAD_CALLS = {'len': 'stringLength({0})', 'ind0': 'jsonStringify({0}, 0)', 'indfrac': 'jsonStringify({0}, 1.5)', 'indstr': "jsonStringify({0}, 'x')",
             'extra': 'jsonStringify({0}, 2, {0})'}


class RefBackend:
    """Reference semantics of the steps on plain Python lists / dicts - no implementation code."""

    @staticmethod
    def arr(items):
        return list(items)

    @staticmethod
    def obj(pairs):
        out = {}
        for k, x in pairs:
            out[k] = x
        return out

    @staticmethod
    def copy(x):
        return list(x) if isinstance(x, list) else dict(x)

    @staticmethod
    def fill(n, x):
        return [x for _ in range(n)]

    @staticmethod
    def push(b, x):
        b.append(x)

    @staticmethod
    def set(b, key, x):
        b[key] = x

    @staticmethod
    def delete(b, key):
        b.pop(key, None)

    @staticmethod
    def pop(b):
        if b:
            b.pop()


class LibBackend:
    """The same steps through the library functions of the implementation (called in-process)."""

    def __init__(self, impl):
        self.fn = impl['library'].SCRIPT_FUNCTIONS

    def arr(self, items):
        return self.fn['arrayNew'](list(items), None)

    def obj(self, pairs):
        return self.fn['objectNew']([y for pair in pairs for y in pair], None)

    def copy(self, x):
        return self.fn['arrayCopy' if isinstance(x, list) else 'objectCopy']([x], None)

    def fill(self, n, x):
        return self.fn['arrayNewSize']([n, x], None)

    def push(self, b, x):
        self.fn['arrayPush']([b, x], None)

    def set(self, b, key, x):
        self.fn['arraySet' if isinstance(b, list) else 'objectSet']([b, key, x], None)

    def delete(self, b, key):
        self.fn['objectDelete']([b, key], None)

    def pop(self, b):
        if b:
            self.fn['arrayPop']([b], None)


def run_history(hist, backend, on_ser, on_parse, on_aux=None, scal=None):
    """Execute the steps; on_ser(n, step index, object, indent, route) at the n-th "ser", on_parse(k) -> the value of jsonParse(t_k),
    on_aux(step index, step, object | None) at "bad" / "badparse" steps."""
    scal = [from_wire(w) for w in hist['scalars']] if scal is None else scal
    binds = []

    def item(it):
        return scal[it[1]] if it[0] == 's' else binds[it[1]]
    nser = 0
    for ix, step in enumerate(hist['steps']):
        op = step[0]
        if op == 'arr':
            binds.append(backend.arr([item(i) for i in step[1]]))
        elif op == 'obj':
            binds.append(backend.obj([(scal[k], item(i)) for k, i in step[1]]))
        elif op == 'copy':
            binds.append(backend.copy(binds[step[1]]))
        elif op == 'fill':
            binds.append(backend.fill(step[1], item(step[2])))
        elif op == 'push':
            backend.push(binds[step[1]], item(step[2]))
        elif op == 'set':
            b = binds[step[1]]
            backend.set(b, step[2] if isinstance(b, list) else scal[step[2]], item(step[3]))
        elif op == 'del':
            backend.delete(binds[step[1]], scal[step[2]])
        elif op == 'drop':
            binds[step[1]] = None
        elif op == 'pop':
            backend.pop(binds[step[1]])
        elif op == 'ser':
            on_ser(nser, ix, item(step[1]), step[2], step[3] if len(step) > 3 else 'json')
            nser += 1
        elif op == 'parse':
            binds.append(on_parse(step[1]))
        elif op == 'bad':
            if on_aux is not None:
                on_aux(ix, step, item(step[1]))
        elif op == 'badparse':
            if on_aux is not None:
                on_aux(ix, step, None)
        else:
            raise ValueError(op)
    return binds


def parsed_form(v):
    """What a JSON reader gives back for the text of v, written from the property statement: integral numbers come back as
    integers (they are written without a fraction; -0 is 0), every container is fresh, keys are in sorted order."""
    if isinstance(v, float) and v.is_integer() and abs(v) < 1e16:
        return int(v)
    if isinstance(v, list):
        return [parsed_form(x) for x in v]
    if isinstance(v, dict):
        return {k: parsed_form(v[k]) for k in sorted(v)}
    return v


def history_snapshots(hist):
    """-> wire trees of what every "ser" step must serialise (reference run); NO_JSON where the object denotes no JSON value at that
    moment (it contains itself / a host-supplied thing without JSON form): the serialisation is expected to fail there."""
    snaps = []
    scal = [from_wire(w) for w in hist['scalars']]
    poison = {id(x) for x, w in zip(scal, hist['scalars']) if is_poison_wire(w)}

    def on_ser(n, ix, obj, ind, route):
        if route != 'json':
            snaps.append(NOT_JUDGED)
            return
        try:
            snaps.append(to_wire(obj, poison))
        except OutOfDomain:
            snaps.append(NO_JSON)

    def on_parse(k):
        if snaps[k] in (NO_JSON, NOT_JUDGED):
            raise HistoryAbort()
        return parsed_form(from_wire(snaps[k]))
    try:
        run_history(hist, RefBackend, on_ser, on_parse, scal=scal)
    except HistoryAbort:
        pass
    return snaps


def tree_size(x, memo):
    if not isinstance(x, (list, dict)):
        return 1
    k = id(x)
    if k not in memo:
        memo[k] = 0
        memo[k] = 1 + sum(tree_size(y, memo) for y in (x if isinstance(x, list) else x.values()))
    return memo[k]


def shared_containers(x):
    """number of container objects reachable from x along more than one path"""
    seen = {}

    def go(y):
        if isinstance(y, (list, dict)):
            seen[id(y)] = seen.get(id(y), 0) + 1
            if seen[id(y)] == 1:
                for z in (y if isinstance(y, list) else y.values()):
                    go(z)
    go(x)
    return sum(1 for n in seen.values() if n > 1)


def gen_hist_scalar(rng):
    r = rng.random()
    if r < 0.3:
        return rng.choice(rng.choice(CONFUSABLE))
    if r < 0.4:
        return rng.choice([None, True, False])
    if r < 0.7:
        return gen_number(rng)
    return gen_string(rng)


def gen_history(rng):
    """A random history (see the grammar above), generated alongside its reference execution so that every index / key / size
    is meaningful; the expansion of any binding into a tree stays below HIST_MAX_TREE nodes."""
    scalars, steps, kinds = [], [], []
    binds = []             # reference objects (None once dropped)
    sers = []              # per "ser": kind of the serialised binding or None

    def new_scalar(v):
        scalars.append(v)
        return len(scalars) - 1

    def scalar_item():
        if scalars and rng.random() < 0.3:
            return ['s', rng.randrange(len(scalars))]
        return ['s', new_scalar(gen_hist_scalar(rng))]

    def key_index(existing=None):
        if existing and rng.random() < 0.6:
            k = rng.choice(sorted(existing))
            have = [i for i, x in enumerate(scalars) if isinstance(x, str) and x == k]
            return have[0] if have else new_scalar(k)
        have = [i for i, x in enumerate(scalars) if isinstance(x, str)]
        if have and rng.random() < 0.4:
            return rng.choice(have)
        return new_scalar(rng.choice(['a', 'b', 'k', 'id', '', 'a.0,']) if rng.random() < 0.6 else gen_string(rng))

    def alive(below=None):
        return [j for j, b in enumerate(binds) if b is not None and (below is None or j < below)]

    def item(below=None):
        js = alive(below)
        if js and rng.random() < 0.6:
            return ['b', rng.choice(js[-3:] if rng.random() < 0.7 else js)]
        return scalar_item()

    def val(it):
        return scalars[it[1]] if it[0] == 's' else binds[it[1]]

    def too_big():
        memo = {}
        return any(tree_size(b, memo) > HIST_MAX_TREE for b in binds if b is not None)

    def create(step, kind, obj):
        binds.append(obj)
        if too_big():
            binds.pop()
            return
        kinds.append(kind)
        steps.append(step)

    n_steps = rng.randint(2, 11)
    guard = 0
    while len(steps) < n_steps and guard < 60:
        guard += 1
        r = rng.random()
        js = alive()
        if not js or r < 0.2:
            items = [item() for _ in range(rng.choice([0, 1, 2, 2, 3, 4]))]
            create(['arr', items], 'a', RefBackend.arr([val(i) for i in items]))
        elif r < 0.38:
            pairs = [[key_index(), item()] for _ in range(rng.choice([0, 1, 2, 2, 3]))]
            create(['obj', pairs], 'o', RefBackend.obj([(scalars[k], val(i)) for k, i in pairs]))
        elif r < 0.45:
            j = rng.choice(js)
            create(['copy', j], kinds[j], RefBackend.copy(binds[j]))
        elif r < 0.51:
            it = item()
            n = rng.choice([0, 1, 2, 2, 3])
            create(['fill', n, it], 'a', RefBackend.fill(n, val(it)))
        elif r < 0.61:
            arrs = [j for j in js if kinds[j] == 'a']
            if arrs:
                j = rng.choice(arrs)
                it = item(below=j)
                binds[j].append(val(it))
                if too_big():
                    binds[j].pop()
                else:
                    steps.append(['push', j, it])
        elif r < 0.71:
            j = rng.choice(js)
            it = item(below=j)
            if kinds[j] == 'a':
                if not binds[j]:
                    continue
                key = pykey = rng.randrange(len(binds[j]))
            else:
                key = key_index(binds[j].keys())
                pykey = scalars[key]
            missing = object()
            old = binds[j][pykey] if kinds[j] == 'a' else binds[j].get(pykey, missing)
            binds[j][pykey] = val(it)
            if too_big():
                if old is missing:
                    del binds[j][pykey]
                else:
                    binds[j][pykey] = old
            else:
                steps.append(['set', j, key, it])
        elif r < 0.74:
            objs = [j for j in js if kinds[j] == 'o']
            if objs:
                j = rng.choice(objs)
                key = key_index(binds[j].keys())
                binds[j].pop(scalars[key], None)
                steps.append(['del', j, key])
        elif r < 0.77:
            if len(js) > 1:
                j = rng.choice(js)
                binds[j] = None
                steps.append(['drop', j])
        elif r < 0.95:
            if rng.random() < 0.85:
                j = rng.choice(js[-2:] if rng.random() < 0.7 else js)
                it = ['b', j]
                sers.append(kinds[j])
            else:
                it = scalar_item()
                sers.append(None)
            steps.append(['ser', it, rng.choice(INDENTS) if rng.random() < 0.5 else None])
        else:
            ks = [k for k, kind in enumerate(sers) if kind is not None]
            if ks:
                k = rng.choice(ks)
                # the reference value of the parse is not needed for generation beyond its shape: rebuild it from the reference run
                snaps = history_snapshots({'scalars': [to_wire(x) for x in scalars], 'kinds': kinds, 'steps': steps})
                create(['parse', k], sers[k], parsed_form(from_wire(snaps[k])))
    js = alive()
    if js:
        j = js[-1] if rng.random() < 0.7 else rng.choice(js)
        steps.append(['ser', ['b', j], rng.choice(INDENTS) if rng.random() < 0.5 else None])
    else:
        steps.append(['ser', scalar_item(), None])
    return {'scalars': [to_wire(x) for x in scalars], 'kinds': kinds, 'steps': steps}


def history_script(hist):
    """The history as BareScript source (+ the host globals holding the leaves); returns the texts t0, t1, ... as an array."""
    kinds = hist['kinds']
    lines = []
    nb = nt = nu = 0

    def item(it):
        return f's{it[1]}' if it[0] == 's' else f'b{it[1]}'
    for step in hist['steps']:
        op = step[0]
        if op == 'arr':
            lines.append(f'b{nb} = arrayNew({", ".join(item(i) for i in step[1])})')
            nb += 1
        elif op == 'obj':
            lines.append(f'b{nb} = objectNew({", ".join(f"s{k}, {item(i)}" for k, i in step[1])})')
            nb += 1
        elif op == 'copy':
            lines.append(f'b{nb} = {"arrayCopy" if kinds[step[1]] == "a" else "objectCopy"}(b{step[1]})')
            nb += 1
        elif op == 'fill':
            lines.append(f'b{nb} = arrayNewSize({step[1]}, {item(step[2])})')
            nb += 1
        elif op == 'push':
            lines.append(f'arrayPush(b{step[1]}, {item(step[2])})')
        elif op == 'set':
            if kinds[step[1]] == 'a':
                lines.append(f'arraySet(b{step[1]}, {step[2]}, {item(step[3])})')
            else:
                lines.append(f'objectSet(b{step[1]}, s{step[2]}, {item(step[3])})')
        elif op == 'del':
            lines.append(f'objectDelete(b{step[1]}, s{step[2]})')
        elif op == 'drop':
            lines.append(f'b{step[1]} = null')
        elif op == 'pop':
            lines.append(f'if arrayLength(b{step[1]}) > 0:\n    arrayPop(b{step[1]})\nendif')
        elif op == 'ser':
            route = step[3] if len(step) > 3 else 'json'
            if route == 'str':
                lines.append(f't{nt} = stringNew({item(step[1])})')
            elif route == 'cat':
                lines.append(f"t{nt} = '' + {item(step[1])}")
            else:
                lines.append(f't{nt} = jsonStringify({item(step[1])}' + (')' if step[2] is None else f', {step[2]})'))
            nt += 1
        elif op == 'parse':
            lines.append(f'b{nb} = jsonParse(t{step[1]})')
            nb += 1
        elif op == 'bad':
            lines.append(f'u{nu} = ' + BAD_CALLS[step[2]].format(item(step[1])))
            nu += 1
        elif op == 'badparse':
            lines.append(f'if t{step[1]} != null:\n    u{nu} = jsonParse(stringSlice(t{step[1]}, 0, mathFloor(stringLength(t{step[1]}) * {step[2]} / {step[3]})))\nendif')
            nu += 1
    lines.append(f'return arrayNew({", ".join(f"t{i}" for i in range(nt))})')
    return '\n'.join(lines) + '\n', {f's{i}': from_wire(w) for i, w in enumerate(hist['scalars'])}


def route_call(impl, route, obj, ind):
    """one serialisation of obj through a route other than jsonStringify"""
    if route == 'str':
        return impl['library'].SCRIPT_FUNCTIONS['stringNew']([obj], None)
    expr = {'binary': {'op': '+', 'left': {'string': ''}, 'right': {'variable': 'x'}}}
    return impl['runtime'].evaluate_expression(expr, {'globals': {'x': obj}})


def history_direct(impl, hist, snaps, aux=None, problems=None):
    """Run the history through the library functions, judging every "ser" of an object that denotes a JSON value with all oracles
    against the reference snapshot. -> [(n, step index, indent, fails, text, extra)] (stops at the first in-domain serialisation
    that gives no text). A "ser" whose snapshot is NO_JSON is EXPECTED to fail: extra['expected_failure'] holds what happened
    ('raises' | 'null' | 'text'), nothing is judged. aux (a list) receives (step index, step, outcome) of "bad" / "badparse" steps;
    problems (a list) receives (oracle, {'step': ..}, expected, actual) for a "parse" step at which jsonParse does not accept a text
    that jsonStringify produced for an in-domain value earlier in the history."""
    out = []
    texts = {}
    fn = impl['library'].SCRIPT_FUNCTIONS

    def on_ser(n, ix, obj, ind, route):
        if n >= len(snaps):
            raise HistoryAbort()
        if snaps[n] == NOT_JUDGED:
            try:
                route_call(impl, route, obj, ind)
            except (ValueError, TypeError, RecursionError):
                pass
            out.append((n, ix, ind, [], None, {'shared': 0, 'not_judged': True, 'route': route}))
            texts[n] = None
            return
        if snaps[n] == NO_JSON:
            got = []
            calls = [lambda: impl['value'].value_json(obj, ind), lambda: fn['jsonStringify']([obj] if ind is None else [obj, ind], None)]
            for call in calls:
                try:
                    res = call()
                    got.append('null' if res is None else 'text')
                except (ValueError, TypeError, RecursionError):
                    got.append('raises')
            out.append((n, ix, ind, [], None, {'shared': 0, 'expected_failure': got, 'route': route}))
            texts[n] = None
            return
        extra = {'shared': shared_containers(obj), 'route': route}
        fails, text = oracle_failures(impl, obj, ind, extra, ref=from_wire(snaps[n]))
        texts[n] = extra.get('jsonStringify') if isinstance(extra.get('jsonStringify'), str) else text
        out.append((n, ix, ind, fails, text, extra))

    def on_parse(k):
        if not isinstance(texts.get(k), str):
            raise HistoryAbort()
        try:
            return fn['jsonParse']([texts[k]], None)
        except Exception as exc:  # pylint: disable=broad-except
            if problems is not None and not any(r[0] == k and r[3] for r in out):
                problems.append(('jsonParse-jsonStringify', {'parse_of_ser': k, 'text': texts[k][:300]}, canon(from_wire(snaps[k])), f'{type(exc).__name__}: {exc}'[:300]))
            raise HistoryAbort() from exc

    def on_aux(ix, step, obj):
        if step[0] == 'bad':
            how = step[2]
            args = {'len': [obj], 'ind0': [obj, 0], 'indfrac': [obj, 1.5], 'indstr': [obj, 'x'], 'extra': [obj, 2, obj]}[how]
            try:
                (fn['stringLength'] if how == 'len' else fn['jsonStringify'])(args, None)
                res = 'returns'
            except Exception:  # pylint: disable=broad-except
                res = 'raises'
            if aux is not None:
                aux.append((ix, step, res, 'raises'))
        else:
            t = texts.get(step[1])
            if not isinstance(t, str):
                return
            piece = t[:len(t) * step[2] // step[3]]
            try:
                want = ['ok', canon(json.loads(piece))]
            except ValueError:
                want = ['rejects']
            except RecursionError:
                return
            try:
                res = ['ok', canon(fn['jsonParse']([piece], None))]
            except ValueError:
                res = ['rejects']
            except Exception as exc:  # pylint: disable=broad-except
                res = ['raises', type(exc).__name__]
            if aux is not None:
                aux.append((ix, step, res, want))
    try:
        run_history(hist, LibBackend(impl), on_ser, on_parse, on_aux)
    except HistoryAbort:
        pass
    except Exception as exc:  # pylint: disable=broad-except
        # a step that is meaningful in the reference run failed on the implementation (its state has already diverged)
        out.append((len(out), None, None, [], None, {'shared': 0, 'error': f'{type(exc).__name__}: {exc}'[:300]}))
    return out


def history_script_run(impl, hist):
    """-> (source, list of texts | {'error': ...})"""
    src, glob = history_script(hist)
    try:
        res = impl['runtime'].execute_script(impl['parser'].parse_script(src), {'globals': glob, 'maxStatements': 10 * len(hist['steps']) + 50})
    except Exception as exc:  # pylint: disable=broad-except
        return src, {'error': f'{type(exc).__name__}: {exc}'[:300]}
    return src, res


def history_script_failures(impl, hist, snaps):
    """The same history as a script: every returned text against the reference snapshot (a snapshot NO_JSON = the serialisation is
    expected to yield null; not judged). -> (source, result, [(n, fails)])"""
    src, res = history_script_run(impl, hist)
    out = []
    if isinstance(res, list) and len(res) == len(snaps):
        for n, (text, snap) in enumerate(zip(res, snaps)):
            if snap in (NO_JSON, NOT_JUDGED):
                continue
            if not isinstance(text, str):
                out.append((n, [('serialises', 'a JSON text', repr(text)[:200])]))
                continue
            fails = text_failures(impl, text, text, from_wire(snap))
            if fails:
                out.append((n, fails))
    else:
        out.append((0, [('serialises', f'{len(snaps)} JSON texts from the script', repr(res)[:300])]))
    return src, res, out


def load_history_corpus():
    path = os.path.join(fw.VERIF, 'harness', 'corpus', 'C14.jsonl')
    out = []
    if os.path.exists(path):
        with open(path, encoding='utf-8') as fh:
            for ln in fh:
                ln = ln.strip()
                if ln and not ln.startswith('#'):
                    d = json.loads(ln)
                    if 'history' in d:
                        out.append(d['history'])
    return out


def history_tags(hist):
    ops = [s[0] for s in hist['steps']]
    tags = [f'steps{min(len(ops), 12) // 3 * 3}+', f'ser{min(ops.count("ser"), 4)}']
    seen_ser = set()
    for s in hist['steps']:
        if s[0] == 'ser' and s[1][0] == 'b':
            seen_ser.add(s[1][1])
        if s[0] in ('push', 'set', 'del') and seen_ser:
            tags.append('changed-after-ser')
            break
    for op in ('copy', 'fill', 'parse', 'drop', 'bad', 'badparse', 'pop'):
        if op in ops:
            tags.append(op)
    if any(s[0] == 'ser' and s[1][0] == 's' for s in hist['steps']):
        tags.append('scalar-ser')
    for s in hist['steps']:
        if s[0] == 'ser' and len(s) > 3:
            tags.append('route=' + s[3])
    kinds_x = sorted({w['x'] for w in hist['scalars'] if is_poison_wire(w)})
    tags += ['poison=' + k for k in kinds_x]
    if any(s[0] in ('set', 'push') and s[-1][0] == 'b' and s[-1][1] >= s[1] for s in hist['steps']):
        tags.append('cycle')
    return tags


def run_history_cases(ctx, st, hists, pool, stream='history', emit=None):
    """emit(history index, oracle, case, expected, actual) reports a property failure (default: ctx.witness)."""
    impl = fw.impl()
    if emit is None:
        def emit(_i, oracle, case, want, got):
            ctx.witness(oracle, case, want, got)
    snaps_all = [history_snapshots(h) for h in hists]
    reqs = []
    for h, snaps in zip(hists, snaps_all):
        sers = [s for s in h['steps'] if s[0] == 'ser']
        reqs += [{'op': 'encode', 'value': snap, 'indent': s[2] or 0} for s, snap in zip(sers, snaps) if snap not in (NO_JSON, NOT_JUDGED)]
    resps = iter(ctx.driver.batch(reqs))
    for hi, (hist, snaps) in enumerate(zip(hists, snaps_all)):
        model = [next(resps) if snap not in (NO_JSON, NOT_JUDGED) else None for snap in snaps]
        tags = history_tags(hist)
        aux = []
        problems = []
        results = history_direct(impl, hist, snaps, aux, problems)
        for oracle, more, want, got in problems:
            emit(hi, oracle, dict({'history': hist}, **more), want, got)
        if results and 'error' in results[-1][5]:
            ctx.disagree(stream, {'history': hist}, {'error': results.pop()[5]['error']}, 'every step succeeds', 'a step of the history failed on the implementation')
        elif len(results) != len(snaps):
            ctx.disagree(stream, {'history': hist}, {'serialisations': len(results)}, {'serialisations': len(snaps)},
                         'the history stopped early on the implementation')
        shared = any(r[5]['shared'] for r in results)
        faulted = any(snap == NO_JSON for snap in snaps)
        after_fault = faulted and any(snap not in (NO_JSON, NOT_JUDGED) for snap in snaps[snaps.index(NO_JSON):])
        st.case(hist, nontrivial=shared or 'changed-after-ser' in tags or 'parse' in tags or after_fault,
                tags=tags + ['shared' if shared else 'tree'] + (['ser-after-failed-call'] if after_fault else [])
                + [f'expansion{min(max((depth_of(from_wire(s)) for s in snaps if s not in (NO_JSON, NOT_JUDGED)), default=0), 6)}'])
        for ix, step, got, want in aux:
            ctx.compare(stream, {'history': hist, 'step': ix, 'call': step}, got, want)
        for (n, ix, ind, fails, text, extra), resp in zip(results, model):
            case = {'history': hist, 'ser': n, 'step': ix, 'indent': ind, 'value': snaps[n]}
            if 'not_judged' in extra:
                continue
            if 'expected_failure' in extra:
                # no JSON form at this moment: the current code refuses (raises; null inside a script) - correspondence only
                ctx.compare(stream, case, {'fails': [g if g == 'text' else 'fails' for g in extra['expected_failure']]},
                            {'fails': ['fails'] * len(extra['expected_failure'])})
                continue
            for oracle, want, got in fails:
                emit(hi, oracle, case, want, got)
            impl_out = {'text': text} if text is not None else {'error': fails[0][2].split(':')[0]}
            ctx.compare(stream, case, impl_out, {'text': resp.get('mirror', resp)})
            if text is not None and extra.get('jsonStringify') != text:
                ctx.disagree(stream, case, {'jsonStringify': str(extra.get('jsonStringify'))[:300]}, {'text': text[:300]},
                             'library jsonStringify(v, indent) differs from value_json(v, int(indent))')
            if extra.get('mutated'):
                ctx.disagree(stream, case, 'argument changed', 'argument unchanged', 'value_json changed its argument')
            if resp.get('wf') is not True:
                ctx.disagree(stream, case, 'repr grammar / unique keys', resp.get('wf'), 'generated value is outside the hypotheses WF of the theorems')
            if text is not None:
                key = json.dumps(canon(from_wire(snaps[n])), ensure_ascii=True)
                prev = pool.setdefault(text, (key, {'value': snaps[n], 'indent': ind}))
                if prev[0] != key:
                    emit(hi, 'injective', {'value': snaps[n], 'indent': ind, 'other': prev[1]}, 'different values, different texts', text[:300])
        # the same history as a script run by the interpreter
        src, res, sfails = history_script_failures(impl, hist, snaps)
        for n, fails in sfails:
            for oracle, want, got in fails:
                emit(hi, oracle, {'history': hist, 'mode': 'script', 'script': src, 'ser': n, 'value': snaps[n] if n < len(snaps) else None}, want, got)
        if isinstance(res, list) and len(res) == len(snaps):
            res = [None if snap == NOT_JUDGED else t for t, snap in zip(res, snaps)]
        ctx.compare(stream, {'history': hist, 'mode': 'script', 'script': src},
                    res if isinstance(res, (list, dict)) else repr(res)[:200], [m.get('mirror', m) if m is not None else None for m in model])


def stream_history(ctx, pool):
    st = ctx.stream('history', 'object graphs and histories: containers built step by step with arrayNew/objectNew/arrayCopy/objectCopy/arrayNewSize '
                               'where the SAME array/object instance (also an empty one) is stored at several places, changed in place between two '
                               'serialisations (arrayPush/arraySet/objectSet/objectDelete), dropped, parsed back and re-serialised; scalars from '
                               'confusable groups (true/1/1.0, 0/-0.0/false, "1"/1); every jsonStringify of the history is judged by all property '
                               'oracles against a reference execution on plain trees and compared with the model encoder on the expanded tree; each '
                               'history runs twice: library functions in-process, and as a BareScript program through parse_script/execute_script; '
                               'non-trivial = some serialised object reaches a container along two paths, or is changed after a serialisation, or '
                               'comes from jsonParse')
    rng = ctx.rng('history')
    hists = load_history_corpus()
    for _ in range(ctx.scale(3000, 40000)):
        hists.append(gen_history(rng))
    for i in range(0, len(hists), 5000):
        run_history_cases(ctx, st, hists[i:i + 5000], pool)
    st.exhaustive = False


# ---------------------------------------------------------------------------------------------------------------------
# fault-then-continue histories
# ---------------------------------------------------------------------------------------------------------------------
#
# Every serialisation the streams above perform succeeds. The serialiser is also called on objects that have NO JSON form at that
# moment - a container that (for a while) contains itself or one of its containers, a host-supplied NaN / infinity / over-long
# int / unsortable object / over-deep nesting - and must refuse; it is reached through jsonStringify, stringNew, string
# concatenation and the message of an argument-validation error. Whatever a failed call leaves behind (in a re-used encoder
# object, a cache, a counter - anything that outlives the call) must not show afterwards: when the script has repaired the very
# same objects in place they are ordinary values again and the property holds for them and for every container around them.


def gen_fault_history(rng):
    """A nest of containers b0 in b1 in ... (arrays / objects, the inner one possibly at several places); then 1-3 episodes:
    1-2 faults put into containers of the nest (a host-supplied poison scalar, or one of the containers AROUND it = a cycle),
    calls that must fail on the containers enclosing the fault (all routes; indented too) mixed with serialisations of parts that
    are still fine, the in-place repair (arraySet / objectSet / objectDelete / arrayPop), then serialisations of every level of
    the nest through every route, a failed jsonParse of a cut-off text, parsing back and re-serialising."""
    scalars, vals, steps, kinds, binds = [], [], [], [], []
    sers = []                                    # per "ser": kind of the binding if it is known to be in the domain, else None

    def new_scalar(w):
        scalars.append(w)
        vals.append(from_wire(w))
        return len(scalars) - 1

    def clean_item():
        ok = [i for i, w in enumerate(scalars) if not is_poison_wire(w)]
        if ok and rng.random() < 0.25:
            return ['s', rng.choice(ok)]
        w = to_wire(gen_hist_scalar(rng))
        if rng.random() < 0.1:
            w = hostify(rng, w, 1.0)
        return ['s', new_scalar(w)]

    def key_index(key):
        for i, w in enumerate(scalars):
            if w == {'s': key}:
                return i
        return new_scalar({'s': key})

    def fresh_key(have):
        cands = [k for k in ['a', 'b', 'k', 'id', '', 'a.0,', 'z', 'm', '0', '1.0', 'items', 'é'] if k not in have]
        if cands and rng.random() < 0.8:
            return rng.choice(cands)
        while True:
            k = gen_string(rng)
            if k not in have:
                return k

    def val(it):
        return vals[it[1]] if it[0] == 's' else binds[it[1]]

    def is_cont(x):
        return isinstance(x, (list, dict)) and not any(x is v for v, w in zip(vals, scalars) if is_poison_wire(w))

    # the nest
    chain = []
    for _ in range(rng.randint(1, 4)):
        items = [clean_item() for _ in range(rng.choice([0, 1, 2, 2, 3]))]
        if chain:
            items.insert(rng.randrange(len(items) + 1), ['b', chain[-1]])
            if rng.random() < 0.2:
                items.insert(rng.randrange(len(items) + 1), ['b', rng.choice(chain)])
        if rng.random() < 0.5:
            steps.append(['arr', items])
            binds.append([val(i) for i in items])
            kinds.append('a')
        else:
            have = []
            for _i in items:
                have.append(fresh_key(have))
            pairs = [[key_index(k), it] for k, it in zip(have, items)]
            steps.append(['obj', pairs])
            binds.append({k: val(it) for k, it in zip(have, items)})
            kinds.append('o')
        chain.append(len(binds) - 1)

    # string concatenation turns value errors and recursion errors into null, but not the TypeError of an object with unsortable
    # keys (that ends the script - not a matter of this property): no concatenation while such an object is in the nest
    no_cat = [False]
    # the indenting encoder needs about 0.1 s to fail on over-deep nesting (every token passes through 1000 generators)
    no_indent = [False]

    def ser(j, ind=None, route='json', known=False):
        steps.append(['ser', ['b', j], ind] + ([route] if route != 'json' else []))
        sers.append(kinds[j] if known and route == 'json' else None)

    def any_route(j, known=False):
        r = rng.random()
        if r < 0.6 or (r < 0.75 and no_indent[0]):
            ser(j, None, 'json', known)
        elif r < 0.75:
            ser(j, rng.choice(INDENTS[1:]), 'json', known)
        elif r < 0.88 or no_cat[0]:
            ser(j, None, 'str', known)
        else:
            ser(j, None, 'cat', known)

    if rng.random() < 0.5:
        any_route(chain[-1], known=True)

    for _ in range(rng.choice([1, 1, 2, 3])):
        faults = []
        low = len(chain)
        for _f in range(1 if rng.random() < 0.8 else 2):
            ci = rng.randrange(len(chain))
            low = min(low, ci)
            c = chain[ci]
            if rng.random() < 0.45:
                it = ['b', chain[rng.randrange(ci, len(chain))]]          # itself or a container around it
            else:
                it = ['s', new_scalar({'x': rng.choice(POISONS)})]
                no_cat[0] = no_cat[0] or scalars[-1]['x'] == 'badkeys'
                no_indent[0] = no_indent[0] or scalars[-1]['x'] == 'deep'
            if kinds[c] == 'a':
                free = [i for i, x in enumerate(binds[c]) if not is_cont(x)]
                if free and rng.random() < 0.6:
                    idx = rng.choice(free)
                    steps.append(['set', c, idx, it])
                    binds[c][idx] = val(it)
                else:
                    idx = len(binds[c])
                    steps.append(['push', c, it])
                    binds[c].append(val(it))
                faults.append((c, idx))
            else:
                free = sorted(k for k, x in binds[c].items() if not is_cont(x))
                key = rng.choice(free) if free and rng.random() < 0.5 else fresh_key(list(binds[c]))
                ki = key_index(key)
                steps.append(['set', c, ki, it])
                binds[c][key] = val(it)
                faults.append((c, ki))

        def trigger():
            t = chain[rng.randrange(low, len(chain))] if rng.random() < 0.8 else rng.randrange(len(binds))
            if rng.random() < 0.8:
                any_route(t)
            else:
                steps.append(['bad', ['b', t], rng.choice(sorted(BAD_CALLS))])
        for _t in range(rng.choice([1, 1, 2, 3])):
            trigger()
        rng.shuffle(faults)
        for n, (c, slot) in enumerate(faults):
            if n and rng.random() < 0.5:
                trigger()
            if kinds[c] == 'a':
                if slot == len(binds[c]) - 1 and rng.random() < 0.5:
                    steps.append(['pop', c])
                    binds[c].pop()
                elif slot < len(binds[c]):
                    it = clean_item()
                    steps.append(['set', c, slot, it])
                    binds[c][slot] = val(it)
            elif rng.random() < 0.5:
                steps.append(['del', c, slot])
                binds[c].pop(vals[slot], None)
            else:
                it = clean_item()
                steps.append(['set', c, slot, it])
                binds[c][vals[slot]] = val(it)
        # afterwards: every level of the nest is an ordinary value again
        no_cat[0] = no_indent[0] = False
        levels = [j for j in chain if rng.random() < 0.8] or [chain[-1]]
        rng.shuffle(levels)
        for j in levels:
            any_route(j, known=True)
        if not any(k is not None for k in sers):
            ser(chain[-1], None, 'json', True)
        if rng.random() < 0.35:
            ks = [k for k, kind in enumerate(sers) if kind is not None]
            k = rng.choice(ks[-3:])
            if rng.random() < 0.7:
                steps.append(['badparse', k, rng.randint(1, 9), 10])
            snaps = history_snapshots({'scalars': scalars, 'kinds': kinds, 'steps': steps})
            if len(snaps) == len(sers) and snaps[k] != NO_JSON:
                steps.append(['parse', k])
                binds.append(parsed_form(from_wire(snaps[k])))
                kinds.append(sers[k])
                any_route(len(binds) - 1, known=True)
    return {'scalars': scalars, 'kinds': kinds, 'steps': steps}


_FRESH_SRC = r"""
import importlib, json, sys
sys.path.insert(0, sys.argv[1])
import fw                                   # puts $VERIF_REPO/src first on sys.path
from props import C14 as m
impl = {n: importlib.import_module('bare_script.' + n) for n in ('parser', 'value', 'library', 'runtime')}
out = []
for h in json.load(sys.stdin):
    try:
        out.append(bool(m.history_fails(impl, h)))
    except Exception as exc:
        out.append(True)
json.dump(out, sys.stdout)
"""


def fresh_history_fails(hists, timeout=300):
    """The histories run IN ORDER by a fresh interpreter process (nothing left over from this process): -> [fails?] per history."""
    res = subprocess.run([sys.executable, '-c', _FRESH_SRC, os.path.join(fw.VERIF, 'harness')], input=json.dumps(hists), capture_output=True,
                         text=True, timeout=timeout, check=False)
    if res.returncode != 0:
        raise fw.Infra('fresh interpreter process failed: ' + res.stderr[-400:])
    return json.loads(res.stdout)


def stream_faults(ctx, pool):
    st = ctx.stream('faults', 'fault-then-continue histories: a nest of arrays/objects built by library functions; a fault is put into it (host-supplied '
                              'NaN / +-inf / int beyond the int->str limit / object with unsortable keys / nesting beyond the recursion limit, or one '
                              'of the surrounding containers itself = a cycle); calls that must fail on the enclosing containers through every '
                              'route to the serialiser (jsonStringify compact and indented, stringNew, string concatenation, the message of an '
                              'argument-validation error), mixed with serialisations of the parts that are still fine; the in-place repair of '
                              'the SAME objects (arraySet / objectSet / objectDelete / arrayPop); then every level of the nest serialised again '
                              '(compact and indented; stringNew / concatenation in between, not judged), a failing jsonParse of a cut-off text, parse back and re-serialise; 1-3 such episodes per history; '
                              'each history runs through the library functions and as a BareScript program, and the whole stream runs in ONE '
                              'process, so state left by any failed call meets all later histories. Every serialisation of an object that '
                              'denotes a JSON value is judged by all property oracles against the reference tree and compared with the model '
                              'encoder; that the faulty object is refused is correspondence only (cycles and host poisons are outside the Lean '
                              'model). A failure is confirmed in a FRESH interpreter: alone, else with the shortest run of preceding histories '
                              'that reproduces it; non-trivial = an in-domain serialisation after a failed call')
    rng = ctx.rng('faults')
    hists = [gen_fault_history(rng) for _ in range(ctx.scale(1000, 30000))]
    done = 0
    found = []
    for i in range(0, len(hists), 500):
        chunk = hists[i:i + 500]
        run_history_cases(ctx, st, chunk, pool, 'faults', emit=lambda hi, oracle, case, want, got, i=i: found.append((i + hi, oracle, case, want, got)))
        done = i + len(chunk)
        if found:
            break
    st.exhaustive = False
    seen = []
    for hi, oracle, case, want, got in found:
        if hi not in seen:
            seen.append(hi)
    verdict = {}
    for hi in seen[:3]:
        if fresh_history_fails([hists[hi]])[0]:
            verdict[hi] = None
            continue
        span = 1
        verdict[hi] = False
        while True:
            lo = max(0, hi - span)
            if fresh_history_fails(hists[lo:hi + 1])[-1]:
                verdict[hi] = hists[lo:hi]
                break
            if lo == 0:
                break
            span *= 4
    for hi, oracle, case, want, got in found:
        if hi not in verdict:
            continue
        if verdict[hi] is None:
            ctx.witness(oracle, case, want, got)
        elif verdict[hi] is False:
            ctx.disagree('faults', case, got, want, f'{oracle}: fails after the {hi} histories run before it in this process, not reproduced in a fresh interpreter')
        else:
            seq = dict(case)
            seq['histories'] = verdict[hi] + [seq.pop('history', hists[hi])]
            ctx.witness('after-earlier-calls:' + oracle, seq, want, got)
    ctx.notes.append(f'faults: {done} histories in one process, {len(seen)} with a failing serialisation')


def history_fails(impl, hist):
    """-> True if some serialisation of the history violates an oracle (direct or script mode)."""
    snaps = history_snapshots(hist)
    problems = []
    results = history_direct(impl, hist, snaps, None, problems)
    if problems or len(results) != len(snaps) or any(r[3] or 'error' in r[5] for r in results):
        return True
    return bool(history_script_failures(impl, hist, snaps)[2])


def streams(ctx):
    pool = {}
    stream_reparse(ctx)
    stream_history(ctx, pool)
    texts = stream_json(ctx, pool)
    stream_strings(ctx, pool)
    stream_boundaries(ctx, pool)
    stream_hostvalues(ctx, pool)
    # before the streams that make jsonParse fail thousands of times (decode): a failure found here is then reproducible from the
    # fault histories alone
    stream_faults(ctx, pool)
    stream_cleanup(ctx, texts)
    stream_decode(ctx, texts)
    ctx.notes.append(f'injectivity pool: {len(pool)} distinct texts')


# ---------------------------------------------------------------------------------------------------------------------
# search / replay
# ---------------------------------------------------------------------------------------------------------------------


def search(ctx):
    """Directed search for a failing input on the implementation: corpus, all small strings in number contexts (the clean-up pass and
    the escapes are what can change), every scalar, then random values."""
    impl = fw.impl()
    pool = {}

    def try_(v, ind, hostwire=None):
        fails, text = oracle_failures(impl, v, ind, ref=from_wire(to_wire(v)))
        case = {'value': to_wire(v) if hostwire is None else hostwire, 'indent': ind}
        for oracle, want, got in fails:
            ctx.witness(oracle, case, want, got)
        if text is not None:
            key = json.dumps(canon(from_wire(to_wire(v))), ensure_ascii=True)
            prev = pool.setdefault(text, (key, case))
            if prev[0] != key:
                ctx.witness('injective', {'value': case['value'], 'indent': ind, 'other': prev[1]}, 'different values, different texts', text[:300])
        return bool(ctx.witnesses)

    for v, ind in load_corpus():
        if try_(v, ind):
            return

    def try_history(hist):
        snaps = history_snapshots(hist)
        problems = []
        results = history_direct(impl, hist, snaps, None, problems)
        for oracle, more, want, got in problems:
            ctx.witness(oracle, dict({'history': hist}, **more), want, got)
        for n, ix, ind, fails, _, extra in results:
            if 'error' in extra:
                continue
            for oracle, want, got in fails:
                ctx.witness(oracle, {'history': hist, 'ser': n, 'step': ix, 'indent': ind, 'value': snaps[n]}, want, got)
        if not ctx.witnesses:
            src, _, sfails = history_script_failures(impl, hist, snaps)
            for n, fails in sfails:
                for oracle, want, got in fails:
                    ctx.witness(oracle, {'history': hist, 'mode': 'script', 'script': src, 'ser': n, 'value': snaps[n] if n < len(snaps) else None}, want, got)
        return bool(ctx.witnesses)

    for hist in load_history_corpus():
        if try_history(hist):
            return
    hrng = ctx.rng('search-history')
    for _ in range(ctx.scale(3000, 30000)):
        if try_history(gen_history(hrng)):
            return
    frng = ctx.rng('search-faults')
    for _ in range(ctx.scale(3000, 30000)):
        if try_history(gen_fault_history(frng)):
            return
    for x in [None, True] + INTS + FLOATS + [-y for y in FLOATS]:
        for ind in (None, 1, 4):
            if try_([x, {'b': x, 'a': [x]}], ind):
                return
    for c in SPECIAL:
        for frag in NUMLIKE:
            strs = boundary_strings(c, frag)
            for ind in (None, 2):
                if try_([strs[0], 1.0, {strs[1]: strs[2], 'k': [strs[3], 2.0]}], ind) or try_(strs[0], ind):
                    return
    hvrng = ctx.rng('search-host')
    for _ in range(ctx.scale(2000, 20000)):
        hw = hostify(hvrng, to_wire(gen_value(hvrng, hvrng.randint(0, 4), top=True)), hvrng.choice([0.15, 0.4, 1.0]))
        ind = hvrng.choice(INDENTS)
        if try_(from_wire(hw), ind, hw):
            return
        for oracle, more, want, got in modes_failures(impl, hw, ind):
            ctx.witness(oracle, dict({'value': hw, 'indent': ind}, **more), want, got)
            return
    for s in small_strings(4):
        for v, _ in string_contexts(s):
            for ind in (None, 2):
                if try_(v, ind):
                    return
    rng = ctx.rng('search')
    for _ in range(ctx.scale(20000, 200000)):
        if try_(gen_value(rng, rng.randint(1, 5)), rng.choice(INDENTS)):
            return


def replay(witness):
    impl = fw.impl()
    inp = witness['input']
    if 'histories' in inp:
        # a run of histories in one process: the last one fails only after the earlier ones (state that outlives a call)
        res = [history_fails(impl, h) for h in inp['histories']]
        return res[-1]
    if 'history' in inp:
        # the whole history is the input: the same steps, in the same order, in direct and in script mode
        return history_fails(impl, inp['history'])
    if 'value' not in inp and 'text' in inp:
        # reparse stream: parse, change the result, parse the same text again
        lib = impl['library'].SCRIPT_FUNCTIONS
        want = json.loads(inp['text'])
        first = lib['jsonParse']([inp['text']], None)
        if isinstance(first, list):
            lib['arrayPush']([first, 'extra'], None)
        elif isinstance(first, dict):
            lib['objectSet']([first, 'extra', 1], None)
        second = lib['jsonParse']([inp['text']], None)
        return second is first or not py_equal(second, want)
    v = from_wire(inp['value'])
    ind = inp.get('indent')
    indwire = inp.get('indent_object')
    fails, text = oracle_failures(impl, v, ind, ref=from_wire(plain_wire(inp['value'])), lib_indent=None if indwire is None else from_wire(indwire))
    if fails:
        return True
    if 'mode' in inp and modes_failures(impl, inp['value'], ind, indwire):
        return True
    if 'other' in inp and text is not None:
        w = from_wire(inp['other']['value'])
        try:
            other_text = impl['value'].value_json(w, inp['other'].get('indent'))
        except Exception:  # pylint: disable=broad-except
            return True
        return other_text == text and not py_equal(from_wire(plain_wire(inp['value'])), from_wire(plain_wire(inp['other']['value'])))
    return False
