"""C14 - JSON serialisation is faithful: jsonParse(jsonStringify(v)) equals v.

Model side: lean/BareModel/Json.lean (mirror = json.dumps stage + clean-up scanner, spec encoder, decoder),
theorems lean/BareProofs/C14.lean, driver lean/Drv/C14.lean.

Wire form of a value (also the form of witnesses / corpus lines):
  null | true/false | {"i": int} | {"f": [neg, n]} integral float |x|<1e16 | {"d": repr} other finite float |
  {"s": str} | {"a": [...]} | {"o": [[key, value], ...]} (insertion order)

Object graphs and histories (stream `history`): the Python object handed to jsonStringify need not be a tree - the same
list/dict instance can sit at several places (arrayNew(row, row), arrayNewSize(3, row), arrayCopy sharing its elements),
and it can be changed in place between two serialisations. The model value is the TREE such an object denotes (the wire
form sent to the driver is the expansion); a witness of this stream is the whole history {"history": {...}} (grammar in
the comment above CONFUSABLE), replayed step by step through the library functions and as a BareScript program.

Outside the property / the model (excluded from the generators): datetime / function / regex values (serialise as
strings or null), non-string keys, NaN / infinities (`allow_nan=False` raises), lone surrogates (a Python str can hold
them and json.dumps escapes them; a Lean `Char` cannot), containers that contain themselves (F18).

Negative zero: value_json(-0.0) == '-0' and jsonParse('-0') is the int 0; value_compare(-0.0, 0) == 0, so the value
round-trips under the property's equality (numbers equal in value); the model's `norm` maps `fint true 0` to `int 0`.
"""

import itertools
import json
import math
import os
import re
import struct
from fractions import Fraction

import fw

ID = 'C14'
LEVEL = 'proof'
LEAN_TARGETS = ['BareProofs.C14', 'BareProofs.C14Regex']
DRIVER = 'drv_c14'
DRIVER_ROOT = 'Drv.C14'
GEN = ['Regex']
THEOREMS = [
    'C14.cleanup_regex_is_modelled', 'C14.strings_untouched', 'C14.cleanup_eq_spec', 'C14.string_roundtrip',
    'C14.json_roundtrip', 'C14.json_roundtrip_spec', 'C14.json_injective', 'C14.keys_sorted', 'C14.integral_no_fraction',
    'C14.norm_idem',
]
ASSUMPTIONS = [
    'float.__repr__ (not modelled): an integral float with |x| < 1e16 prints as -?D+.0, every other finite float prints in the '
    'grammar reprDec (-?D+.D+ with a non-zero fraction digit, or -?D(.D+)?e[+-]DD+); repr is injective (shortest round trip), so '
    'equal decimal text means equal float. The harness classifies each generated float this way and the driver re-checks reprDec '
    '(field wf) on every case.',
    'int.__repr__ is the decimal expansion (Nat.toDigits 10); json.loads of an integer literal is that integer',
    'json.dumps(sort_keys, ensure_ascii, separators, indent) produces the layout and escapes of Json.encWith / Json.escChar '
    '(tied by the json and strings streams); sorted() on str keys is code-point order',
    'CPython re: the substitution with _R_VALUE_JSON_NUMBER_CLEANUP behaves as the scanner Json.clean (pattern text pinned by '
    'Gen/Regex + theorem cleanup_regex_is_modelled, behaviour tied by the cleanup stream on arbitrary text)',
    'json.loads is the standard JSON reader modelled by Json.decode (tied by the decode stream incl. malformed text); '
    'NaN/Infinity literals and lone-surrogate escapes, which json.loads accepts, are outside the model',
]
TRUSTED = ['value wire encoding to_wire/from_wire in harness/props/C14.py (classification of floats into fint/dec by is_integer() and abs < 1e16)']

LEVEL_TEXT = ('Theorems for all JSON values (unbounded depth and length, strings over all Unicode scalar values, every indent): the '
              'clean-up pass of value_json copies every string literal verbatim and removes exactly the ".0" of integral floats '
              '(mirror = spec encoder); the standard JSON decoder maps the text back to the canonical form of the value (keys '
              'sorted, numbers by value) - including the full \\uXXXX / surrogate-pair escape round trip; hence injectivity, '
              'sorted keys, and no fraction on integral numbers. The model is tied to value_json / jsonStringify / jsonParse by '
              'differential streams; the property oracles (json.loads, jsonParse∘jsonStringify via value_compare, key order, '
              'number tokens, literal tokens, injectivity pool) run directly on the implementation - on tree-shaped values and on '
              'object graphs / histories (one container instance at several places, changed between serialisations, parsed back; '
              'through the library functions and through scripts), each judged against a reference execution on plain trees.')
LEVEL_NOTE = ('Trusted: Lean kernel; extract.py; this harness. Modelled, not verified: float/int repr, json.dumps layout and escapes, '
              'CPython re, json.loads. Lone surrogates, NaN/inf, datetime/function values are outside the property.')

# ---------------------------------------------------------------------------------------------------------------------
# values <-> wire
# ---------------------------------------------------------------------------------------------------------------------


def to_wire(v):
    if v is None or isinstance(v, bool):
        return v
    if isinstance(v, int):
        return {'i': v}
    if isinstance(v, float):
        if v.is_integer() and abs(v) < 1e16:
            return {'f': [math.copysign(1.0, v) < 0, int(abs(v))]}
        return {'d': repr(v)}
    if isinstance(v, str):
        return {'s': v}
    if isinstance(v, list):
        return {'a': [to_wire(x) for x in v]}
    if isinstance(v, dict):
        return {'o': [[k, to_wire(x)] for k, x in v.items()]}
    raise TypeError(type(v))


def from_wire(w):
    if w is None or isinstance(w, bool):
        return w
    (k, x), = w.items()
    if k == 'i':
        return int(x)
    if k == 'f':
        return -float(x[1]) if x[0] else float(x[1])
    if k == 'd':
        return float(x)
    if k == 's':
        return x
    if k == 'a':
        return [from_wire(y) for y in x]
    if k == 'o':
        return {kk: from_wire(y) for kk, y in x}
    raise ValueError(k)


def canon(v):
    """Canonical JSON-able form with numbers by exact value (int and float of equal value coincide)."""
    if v is None or isinstance(v, (bool, str)):
        return v
    if isinstance(v, (int, float)):
        if isinstance(v, float) and not math.isfinite(v):
            return ['n', repr(v)]
        fr = Fraction(v)
        return ['n', fr.numerator, fr.denominator]
    if isinstance(v, list):
        return ['a'] + [canon(x) for x in v]
    if isinstance(v, dict):
        return ['o'] + [[k, canon(v[k])] for k in sorted(v)]
    return ['?', type(v).__name__]


def py_equal(a, b):
    """Equality of BareScript JSON values written from the property statement (numbers by value, bool is not a number)."""
    if a is None or b is None:
        return a is None and b is None
    if isinstance(a, bool) or isinstance(b, bool):
        return isinstance(a, bool) and isinstance(b, bool) and a == b
    if isinstance(a, (int, float)) and isinstance(b, (int, float)):
        return a == b
    if isinstance(a, str) and isinstance(b, str):
        return a == b
    if isinstance(a, list) and isinstance(b, list):
        return len(a) == len(b) and all(py_equal(x, y) for x, y in zip(a, b))
    if isinstance(a, dict) and isinstance(b, dict):
        return a.keys() == b.keys() and all(py_equal(a[k], b[k]) for k in a)
    return False


def has_lone_surrogate(v):
    if isinstance(v, str):
        return any(0xd800 <= ord(c) <= 0xdfff for c in v)
    if isinstance(v, list):
        return any(has_lone_surrogate(x) for x in v)
    if isinstance(v, dict):
        return any(has_lone_surrogate(k) or has_lone_surrogate(x) for k, x in v.items())
    return False


def has_nonfinite(v):
    if isinstance(v, float):
        return not math.isfinite(v)
    if isinstance(v, list):
        return any(has_nonfinite(x) for x in v)
    if isinstance(v, dict):
        return any(has_nonfinite(x) for x in v.values())
    return False


# ---------------------------------------------------------------------------------------------------------------------
# independent tokeniser of a JSON text and the expected token sequence of a value (oracles)
# ---------------------------------------------------------------------------------------------------------------------

_NUM = re.compile(r'-?\d+(?:\.\d+)?(?:[eE][+-]?\d+)?|[^\s\[\]{},:"]+')


def tokenise(text):
    """-> (string literal tokens incl. quotes, number-ish tokens outside literals), in text order. None if a literal is unterminated."""
    lits = []
    outside = []
    i = 0
    n = len(text)
    while i < n:
        c = text[i]
        if c == '"':
            j = i + 1
            while j < n and text[j] != '"':
                j += 2 if text[j] == '\\' else 1
            if j >= n:
                return None
            lits.append(text[i:j + 1])
            outside.append('"')
            i = j + 1
        else:
            outside.append(c)
            i += 1
    words = [w for w in _NUM.findall(''.join(outside)) if w not in ('null', 'true', 'false')]
    return lits, words


def walk(v, strs, nums):
    """strings/keys and numbers of v in serialisation order (object members by ascending key)."""
    if isinstance(v, str):
        strs.append(v)
    elif isinstance(v, bool) or v is None:
        pass
    elif isinstance(v, (int, float)):
        nums.append(v)
    elif isinstance(v, list):
        for x in v:
            walk(x, strs, nums)
    elif isinstance(v, dict):
        for k in sorted(v):
            strs.append(k)
            walk(v[k], strs, nums)


def keys_in_text_order_sorted(text):
    bad = []

    def hook(pairs):
        ks = [k for k, _ in pairs]
        if ks != sorted(ks) or len(set(ks)) != len(ks):
            bad.append(ks)
        return dict(pairs)
    json.loads(text, object_pairs_hook=hook)
    return not bad, bad[:1]


_INT_TOKEN = re.compile(r'-?(?:0|[1-9]\d*)\Z')


def text_failures(impl, text, parse_text, want):
    """The property oracles on ONE serialised text: `text` claims to be the JSON of the value `want` (a plain tree, built
    independently of the object that was serialised); `parse_text` is what jsonParse gets (the library function's output).
    -> list of (oracle, expected, actual), empty when the property holds."""
    fails = []
    value, library = impl['value'], impl['library']

    # 1. valid JSON that a standard parser maps back to the value
    try:
        back = json.loads(text)
        if not py_equal(back, want):
            fails.append(('std-parser-roundtrip', canon(want), canon(back)))
    except Exception as exc:  # pylint: disable=broad-except
        back = None
        fails.append(('valid-json', 'json.loads accepts ' + text[:300], f'{type(exc).__name__}: {exc}'))

    # 2. jsonParse(jsonStringify(v)) == v by value_compare
    try:
        parsed = library._json_parse([parse_text], None)  # pylint: disable=protected-access
        cmp_ = value.value_compare(parsed, want)
        if cmp_ != 0 or not py_equal(parsed, want):
            fails.append(('jsonParse-jsonStringify', canon(want), {'value_compare': cmp_, 'parsed': canon(parsed)}))
    except Exception as exc:  # pylint: disable=broad-except
        fails.append(('jsonParse-jsonStringify', canon(want), f'{type(exc).__name__}: {exc}'))

    # 3. keys in sorted order in the text
    if back is not None:
        ok, bad = keys_in_text_order_sorted(text)
        if not ok:
            fails.append(('keys-sorted', 'ascending unique keys', bad))

    # 4./5. tokens: string literals are the plain escapes of the originals; integral numbers have no fraction
    toks = tokenise(text)
    strs, nums = [], []
    walk(want, strs, nums)
    if toks is None:
        fails.append(('strings-untouched', 'terminated literals', text[:300]))
    else:
        lits, words = toks
        # every literal token denotes exactly the original string / key (standard decoder on the token alone)
        try:
            got_strs = [json.loads(lit) for lit in lits]
        except ValueError as exc:
            got_strs = f'{type(exc).__name__}: {exc}'
        if got_strs != strs:
            fails.append(('strings-untouched', strs[:20], got_strs[:20] if isinstance(got_strs, list) else got_strs))
        if len(words) != len(nums):
            fails.append(('number-tokens', [repr(x) for x in nums][:20], words[:20]))
        else:
            for x, w in zip(nums, words):
                integral = isinstance(x, int) or (x.is_integer() and abs(x) < 1e16)
                try:
                    val_ok = (int(w) if _INT_TOKEN.match(w) else float(w)) == x
                except ValueError:
                    val_ok = False
                if not val_ok or (integral and not _INT_TOKEN.match(w)) or (isinstance(x, int) and w != str(x)):
                    fails.append(('integral-no-fraction' if val_ok else 'number-value',
                                  (str(int(x)) if x != 0 or isinstance(x, int) or math.copysign(1.0, x) > 0 else '-0') if integral else repr(x), w))
                    break
    return fails


def oracle_failures(impl, v, indent, extra=None, ref=None):
    """All property oracles on the real implementation for value v and indent (None or int).
    -> (list of (oracle, expected, actual) - empty when the property holds on this input -, text of value_json or None).
    `ref` is an independent plain-tree copy of v made BEFORE the call (every container a fresh object): the texts are judged
    against it, so neither the object identity of v's parts (one array referenced from two places) nor anything the
    serialiser does to its argument can leak into the expectation; extra['mutated'] is set when v no longer equals ref afterwards.
    extra['jsonStringify'] receives what the library function returned (correspondence only: a different but valid layout is not
    a violation of the property)."""
    fails = []
    extra = {} if extra is None else extra
    want = v if ref is None else ref
    value, library = impl['value'], impl['library']
    try:
        text = value.value_json(v, indent)
    except Exception as exc:  # pylint: disable=broad-except
        return [('serialises', 'a JSON text', f'{type(exc).__name__}: {exc}')], None
    if not isinstance(text, str):
        return [('serialises', 'a JSON text', repr(text)[:200])], None

    # jsonStringify (library function, indent as int or float) is value_json
    try:
        args = [v] if indent is None else [v, float(indent) if indent % 2 else indent]
        lib_text = library._json_stringify(args, None)  # pylint: disable=protected-access
        extra['jsonStringify'] = lib_text
    except Exception as exc:  # pylint: disable=broad-except
        lib_text = None
        extra['jsonStringify'] = f'{type(exc).__name__}: {exc}'
        fails.append(('serialises', 'jsonStringify returns a JSON text', extra['jsonStringify']))

    fails += text_failures(impl, text, lib_text if isinstance(lib_text, str) else text, want)
    if ref is not None and not py_equal(v, ref):
        extra['mutated'] = True
    return fails, text


# ---------------------------------------------------------------------------------------------------------------------
# generators
# ---------------------------------------------------------------------------------------------------------------------

SMALL = ['a', '.', '0', ',', ']', '}']
NASTY = SMALL + ['"', '\\', '/', ' ', '\n', '\t', '\r', '\x00', '\x1f', '\x7f', '\x08', '\x0c', '\x0b', '\x85', '\xa0', '\xe9', '\u2028',
                 '\ud7ff', '\ue000', '\uffff', '\ufeff', '\U0001f600', '\U00010000', '\U0010ffff', 'u', '1', ':', '[', '{', 'e', '-', '+', 'n']
INDENTS = [None, 1, 2, 3, 4, 5, 6, 7, 8]

FLOATS = [0.0, -0.0, 1.0, -1.0, 2.0, 10.0, 100.0, 1e15, 999999999999999.9, 9999999999999998.0, 1e16, -1e16, 1.2345678901234568e+17,
          1e21, 1e22, 1e100, 1.7976931348623157e308, float(2 ** 53), float(2 ** 53 + 2), 4503599627370497.5, 0.5, 1.5, -1.5, 0.1, 0.2, 0.30000000000000004,
          100.001, 1.0000000000000002, 0.001, 0.0001, 1e-05, 1e-07, 1.5e-07, -1e-07, 2.2250738585072014e-308, 5e-324, -5e-324, 1e-320,
          123456.789, 3.141592653589793, 1.05, 10.01, 1000000.0, 0.10000000000000002, 20.0, 1.0e2, 30.3, 0.05]
INTS = [0, 1, -1, 7, 10, 42, -100, 2 ** 31, 2 ** 53, 2 ** 53 + 1, -(2 ** 63), 10 ** 15, 10 ** 16, 10 ** 20, -(10 ** 30) + 1, 10 ** 100]


def small_strings(maxlen):
    for n in range(maxlen + 1):
        for tup in itertools.product(SMALL, repeat=n):
            yield ''.join(tup)


def gen_string(rng):
    r = rng.random()
    if r < 0.1:
        return ''
    if r < 0.5:
        return ''.join(rng.choice(SMALL) for _ in range(rng.randint(1, 6)))
    if r < 0.9:
        return ''.join(rng.choice(NASTY) for _ in range(rng.randint(1, 8)))
    # arbitrary scalar values
    out = []
    for _ in range(rng.randint(1, 5)):
        c = rng.randrange(0x110000)
        if 0xd800 <= c <= 0xdfff:
            c = 0x41
        out.append(chr(c))
    return ''.join(out)


def gen_float(rng):
    r = rng.random()
    if r < 0.45:
        return rng.choice(FLOATS)
    if r < 0.6:
        return float(rng.randint(-10 ** rng.randint(0, 17), 10 ** rng.randint(0, 17)))
    if r < 0.8:
        return round(rng.uniform(-1000, 1000), rng.randint(0, 6))
    while True:
        x = struct.unpack('<d', struct.pack('<Q', rng.getrandbits(64)))[0]
        if math.isfinite(x):
            return x


def gen_number(rng):
    r = rng.random()
    if r < 0.2:
        return rng.choice(INTS)
    if r < 0.3:
        return rng.randint(-10 ** rng.randint(0, 25), 10 ** rng.randint(0, 25))
    return gen_float(rng)


def gen_value(rng, depth, top=False):
    r = rng.random()
    if top and r < 0.45:
        r = 0.5 + r
    if depth <= 0 or r < 0.45:
        k = rng.random()
        if k < 0.08:
            return None
        if k < 0.16:
            return rng.random() < 0.5
        if k < 0.55:
            return gen_number(rng)
        return gen_string(rng)
    if r < 0.75:
        return [gen_value(rng, depth - 1) for _ in range(rng.choice([0, 1, 1, 2, 2, 3, 4]))]
    return {gen_string(rng): gen_value(rng, depth - 1) for _ in range(rng.choice([0, 1, 1, 2, 2, 3, 4]))}


def depth_of(v):
    if isinstance(v, list):
        return 1 + max([depth_of(x) for x in v], default=0)
    if isinstance(v, dict):
        return 1 + max([depth_of(x) for x in v.values()], default=0)
    return 0


def load_corpus():
    path = os.path.join(fw.VERIF, 'harness', 'corpus', 'C14.jsonl')
    out = []
    if os.path.exists(path):
        with open(path, encoding='utf-8') as fh:
            for ln in fh:
                ln = ln.strip()
                if ln and not ln.startswith('#'):
                    d = json.loads(ln)
                    if 'history' not in d:
                        out.append((from_wire(d['value']), d.get('indent')))
    return out


# ---------------------------------------------------------------------------------------------------------------------
# streams
# ---------------------------------------------------------------------------------------------------------------------


def run_encode_cases(ctx, st, stream, cases, pool):
    """cases: [(value, indent, tags)]. Model correspondence + oracles + injectivity pool."""
    impl = fw.impl()
    reqs = [{'op': 'encode', 'value': to_wire(v), 'indent': ind or 0} for v, ind, _ in cases]
    resps = ctx.driver.batch(reqs)
    texts = []
    for (v, ind, tags), req, resp in zip(cases, reqs, resps):
        case = {'value': req['value'], 'indent': ind}
        extra = {}
        fails, text = oracle_failures(impl, v, ind, extra, ref=from_wire(req['value']))
        nontrivial = isinstance(v, (list, dict)) and len(v) > 0
        if extra.get('mutated'):
            ctx.disagree(stream, case, {'argument after the call': to_wire(v)}, {'argument': req['value']}, 'value_json changed its argument')
        st.case(case, nontrivial=nontrivial, tags=list(tags) + [f'indent={ind}', f'depth{depth_of(v)}'])
        for oracle, want, got in fails:
            ctx.witness(oracle, case, want, got)
        impl_out = {'text': text} if text is not None else {'error': fails[0][2].split(':')[0]}
        ctx.compare(stream, case, impl_out, {'text': resp.get('mirror', resp)})
        if text is not None and extra.get('jsonStringify') != text:
            ctx.disagree(stream, case, {'jsonStringify': str(extra.get('jsonStringify'))[:300]}, {'text': text[:300]},
                         'library jsonStringify(v, indent) differs from value_json(v, int(indent))')
        if resp.get('mirror') != resp.get('spec'):
            ctx.disagree(stream, case, resp.get('mirror'), resp.get('spec'), 'inside the model: mirror encoder differs from spec encoder')
        if resp.get('wf') is not True:
            ctx.disagree(stream, case, 'repr grammar / unique keys', resp.get('wf'), 'generated value is outside the hypotheses WF of the theorems')
        if text is not None:
            texts.append(text)
            # injectivity on the pool: one text, one value
            key = json.dumps(canon(v), ensure_ascii=True)
            prev = pool.setdefault(text, (key, case))
            if prev[0] != key:
                ctx.witness('injective', {'value': case['value'], 'indent': ind, 'other': prev[1]}, 'different values, different texts', text[:300])
    return texts


def stream_json(ctx, pool):
    st = ctx.stream('json', 'value_json / jsonStringify vs mirror and spec encoders + all property oracles on the implementation: corpus, '
                            'every scalar of the number/string tables at top level and inside [x] / {"k": x}, random values of depth <= 5 over '
                            'the nasty alphabet, indent in {none,1..8}; non-trivial = non-empty container')
    rng = ctx.rng('json')
    cases = [(v, ind, ['corpus']) for v, ind in load_corpus()]
    scalars = [None, True, False] + INTS + FLOATS + [-x for x in FLOATS] + ['', 'etc., x', 'a.0]', 'q"x.0,', '\\', 'é', '😀', '1.0', '"1.0"', '\\"1.0,', '.0', '.0\n']
    for x in scalars:
        cases.append((x, None, ['scalar']))
        cases.append(([x], rng.choice(INDENTS), ['scalar-in-array']))
        cases.append(({'k': x, 'j': [x, 1.0]}, rng.choice(INDENTS), ['scalar-in-object']))
    for ind in INDENTS:
        cases.append(([1.0, 'a.0,', {'b.0]': 2.0, 'a': [], 'c': {}}, [[-0.0]], 1e16, 1.5], ind, ['layout']))
    # value_json treats indent <= 0 like None
    cases.append(([1.0, {'a': 'x.0,'}], 0, ['indent<=0']))
    cases.append(([1.0, {'a': 'x.0,'}], -3, ['indent<=0']))
    for _ in range(ctx.scale(2500, 60000)):
        cases.append((gen_value(rng, rng.randint(1, 5), top=True), rng.choice(INDENTS), ['random']))
    texts = []
    for i in range(0, len(cases), 20000):
        texts += run_encode_cases_neg(ctx, st, 'json', cases[i:i + 20000], pool)
    st.exhaustive = False
    return texts


def run_encode_cases_neg(ctx, st, stream, cases, pool):
    """like run_encode_cases, but a non-positive indent is sent to the model as 0 and skips the jsonStringify comparison"""
    normal = [(v, ind, tags) for v, ind, tags in cases if ind is None or ind > 0]
    texts = run_encode_cases(ctx, st, stream, normal, pool)
    odd = [(v, ind, tags) for v, ind, tags in cases if not (ind is None or ind > 0)]
    if odd:
        impl = fw.impl()
        resps = ctx.driver.batch([{'op': 'encode', 'value': to_wire(v), 'indent': 0} for v, _, _ in odd])
        for (v, ind, tags), resp in zip(odd, resps):
            case = {'value': to_wire(v), 'indent': ind}
            st.case(case, nontrivial=True, tags=list(tags))
            try:
                out = {'text': impl['value'].value_json(v, ind)}
            except Exception as exc:  # pylint: disable=broad-except
                out = {'error': type(exc).__name__}
            ctx.compare(stream, case, out, {'text': resp.get('mirror')})
            # the library function rejects such an indent (argument model: integer >= 1)
            try:
                impl['library']._json_stringify([v, ind], None)  # pylint: disable=protected-access
                rejected = False
            except impl['value'].ValueArgsError:
                rejected = True
            except Exception:  # pylint: disable=broad-except
                rejected = False
            ctx.compare(stream, {'jsonStringify-indent': ind}, {'rejected': rejected}, {'rejected': True})
    return texts


def string_contexts(s):
    yield [s, 1.0], ['ctx=array']
    yield {s: 1.0, 'k': s}, ['ctx=key+value']
    yield [{s: [2.0, s]}, 1.0], ['ctx=nested']


def stream_strings(ctx, pool):
    maxlen = ctx.scale(3, 4)
    st = ctx.stream('strings', f'every string of length <= {maxlen} over {{a . 0 , ] }}}} as array element next to an integral float, as object '
                               'key and value, and nested, compact and indented (quick: length 4 sampled): encoder correspondence + all '
                               'oracles; non-trivial = the string contains one of . 0 , ] }')
    rng = ctx.rng('strings')
    strings = list(small_strings(maxlen))
    if ctx.quick:
        strings += [''.join(rng.choice(SMALL) for _ in range(4)) for _ in range(300)]
    cases = []
    for s in strings:
        for v, tags in string_contexts(s):
            for ind in ([None, 2] if not ctx.quick else [rng.choice([None, 1, 2])]):
                cases.append((v, ind, tags + [f'len{len(s)}']))
    for i in range(0, len(cases), 20000):
        run_encode_cases(ctx, st, 'strings', cases[i:i + 20000], pool)
    st.exhaustive = not ctx.quick
    return strings


def regex_cleanup(impl, text):
    value = impl['value']
    try:
        return {'text': value._R_VALUE_JSON_NUMBER_CLEANUP.sub(value._value_json_number_cleanup, text)}  # pylint: disable=protected-access
    except Exception as exc:  # pylint: disable=broad-except
        return {'error': type(exc).__name__}


CLEAN_ALPHA = ['"', '\\', '.', '0', ',', 'a', '\n']
CLEAN_WIDE = CLEAN_ALPHA + ['}', ']', ' ', '\t', '\r', '1', 'e', '-', ':', '[', '{', '\x0b', '\x0c', '\x1c', '\x85', '\xa0', '\u2028', '\u3000',
                            '\xe9', '\U0001f600', '/', 'u']


def stream_cleanup(ctx, stage1_texts):
    k = ctx.scale(4, 6)
    st = ctx.stream('cleanup', f'stage 2 alone on ARBITRARY text (also unterminated literals, backslash-newline, every Python \\s character): '
                               f'the real regex substitution vs the scanner Json.clean; all texts of length <= {k} over '
                               '{" \\ . 0 , a \\n} + random texts over a wider alphabet + stage-1 texts; non-trivial = contains ".0"')
    rng = ctx.rng('cleanup')
    impl = fw.impl()
    texts = [''.join(t) for n in range(k + 1) for t in itertools.product(CLEAN_ALPHA, repeat=n)]
    for _ in range(ctx.scale(3000, 60000)):
        texts.append(''.join(rng.choice(CLEAN_WIDE if rng.random() < 0.7 else CLEAN_ALPHA) for _ in range(rng.randint(1, 24))))
    for c in range(0x3100):   # every candidate whitespace character after ".0"
        if not 0xd800 <= c <= 0xdfff:
            texts.append('1.0' + chr(c) + '2.00' + chr(c))
    texts += stage1_texts[:ctx.scale(300, 3000)]
    for i in range(0, len(texts), 50000):
        chunk = texts[i:i + 50000]
        resps = ctx.driver.batch([{'op': 'cleanup', 'text': t} for t in chunk])
        for t, resp in zip(chunk, resps):
            st.case(t, nontrivial='.0' in t, tags=[f'len{min(len(t), 25) // 5 * 5}+', 'quote' if '"' in t else 'noquote'])
            ctx.compare('cleanup', t, regex_cleanup(impl, t), {'text': resp.get('text')})
    st.exhaustive = False


MUT_ALPHA = ['"', '\\', ',', ':', '[', ']', '{', '}', '0', '1', '.', '-', '+', 'e', 'E', ' ', '\n', 'u', 'a', 'd', '8', 'f', '/', 't', '\t', '\x01']


def mutate(rng, text):
    cs = list(text)
    for _ in range(rng.choice([1, 1, 1, 2, 3])):
        r = rng.random()
        pos = rng.randrange(len(cs) + 1)
        if r < 0.35 and cs:
            del cs[min(pos, len(cs) - 1)]
        elif r < 0.7:
            cs.insert(pos, rng.choice(MUT_ALPHA))
        elif cs:
            cs[min(pos, len(cs) - 1)] = rng.choice(MUT_ALPHA)
    return ''.join(cs)


HAND_TEXTS = ['', ' ', 'null', ' true ', 'fals', 'nul', '[]', '[ ]', '{}', '{ }', '[1,]', '[,1]', '{"a":1,}', '{"a"}', '{"a":}', '{1:2}', '-0', '-0.0', '0', '00', '01',
              '-', '+1', '1.', '.5', '1.5', '1e5', '1E5', '1e+5', '1e-5', '1e', '1e+', '1.5e3', '1.0', '-1.25E-2', '1.2.3', '1-2', '1e5e5', '0x10', '1 2', '[1 2]',
              '"a', '"a"', '"\\', '"\\"', '"\\x"', '"\\u00e9"', '"\\u00E9"', '"\\u00g9"', '"\\u12"', '"\\ud83d\\ude00"', '"\\/"', '"\\b\\f\\n\\r\\t"', '"\x7f"', '"\x01"',
              '"\n"', '"\t"', '"é😀"', '{"a":1,"a":2}', '{"b":1,"a":2}', '[[[[[[]]]]]]', '[[[[[[]]]]]', '{"a":{"b":{"c":[]}}}', ' [ 1 , 2 ] ', '\n{\n "a" : [ ]\n}\n',
              '[1]x', 'true false', '"a" "b"', '﻿[]', '[\x0b1]', '[1,\x0c2]', '"\\ud83d\\u0041"', '123456789012345678901234567890', '-123456789012345678901234567890',
              '1e300', '[1.0, 2.50, 1e+16, -0]', '{"":""}', '{"a":1 "b":2}', '["a":1]', '{"a",1}', '[}', '{]', '"\\u0000"', '"\\uDBFF\\uDFFF"', '"\\ud800\\udc00"']


def canon_decoded_impl(impl, text):
    try:
        v = impl['library']._json_parse([text], None)  # pylint: disable=protected-access
    except ValueError:
        return {'ok': False}
    except RecursionError:
        return None
    except Exception as exc:  # pylint: disable=broad-except
        return {'error': type(exc).__name__}
    if has_lone_surrogate(v) or has_nonfinite(v):
        return None
    return {'ok': True, 'value': canon(v)}


def stream_decode(ctx, texts):
    st = ctx.stream('decode', 'jsonParse (json.loads) vs the model decoder Json.decode on serialiser outputs, hand-written JSON and near-JSON, '
                              'and 1-3 character mutations of valid texts (malformed stream); results with lone surrogates / NaN / inf are '
                              'outside the model and skipped; non-trivial = accepted by the implementation')
    rng = ctx.rng('decode')
    impl = fw.impl()
    base = texts[:ctx.scale(1500, 20000)]
    cases = [(t, 'serialised') for t in base] + [(t, 'hand') for t in HAND_TEXTS]
    for _ in range(ctx.scale(3000, 60000)):
        cases.append((mutate(rng, rng.choice(base) if rng.random() < 0.8 else rng.choice(HAND_TEXTS)), 'mutated'))
    cases = [(t, tag) for t, tag in cases if 'NaN' not in t and 'Infinity' not in t and not has_lone_surrogate(t)]
    for i in range(0, len(cases), 30000):
        chunk = cases[i:i + 30000]
        resps = ctx.driver.batch([{'op': 'decode', 'text': t} for t, _ in chunk])
        for (t, tag), resp in zip(chunk, resps):
            want = canon_decoded_impl(impl, t)
            if want is None:
                st.case(t, nontrivial=False, tags=[tag, 'skipped-outside-model'])
                continue
            if resp.get('ok'):
                try:
                    got = {'ok': True, 'value': canon(from_wire(resp['value']))}
                except (ValueError, OverflowError) as exc:
                    got = {'error': type(exc).__name__}
            else:
                got = {'ok': False}
            st.case(t, nontrivial=bool(want.get('ok')), tags=[tag, 'accepted' if want.get('ok') else 'rejected'])
            ctx.compare('decode', t, want, got)
    st.exhaustive = False


def stream_reparse(ctx):
    """jsonParse must return a FRESH value every time: parse a text, mutate the result through the library, parse the same
    text again - the second result must still equal the original value and be a different object (a parse cache that
    hands out the same mutable list/dict breaks the round trip on the second call)."""
    impl = fw.impl()
    lib = impl['library'].SCRIPT_FUNCTIONS
    vcmp = impl['value'].value_compare
    rng = ctx.rng('reparse')
    st = ctx.stream('reparse', 'arrays/objects serialised, parsed, the parsed value mutated (arrayPush/objectSet/arraySet), then the '
                               'same text parsed again; non-trivial = container with at least one element')
    for i in range(ctx.scale(300, 5000)):
        if rng.random() < 0.5:
            v = [rng.choice([1, 2.5, 'a', None, True, [1], {'k': 1}]) for _ in range(rng.randint(0, 4))]
        else:
            v = {rng.choice(['a', 'b', 'c.0,', 'k']): rng.choice([1, 'x', None, [2]]) for _ in range(rng.randint(0, 3))}
        ind = rng.choice([None, None, 2])
        text = lib['jsonStringify']([v] if ind is None else [v, ind], None)
        st.case({'value': text, 'indent': ind}, nontrivial=len(v) > 0, tags=['array' if isinstance(v, list) else 'object'])
        try:
            text_ok = py_equal(json.loads(text), v)
        except (TypeError, ValueError):
            text_ok = False
        if not text_ok:
            # the serialiser (not the parser) went wrong, and only after the calls made before this one: the history stream
            # looks for a self-contained input; here it is recorded as a broken correspondence
            ctx.disagree('reparse', {'value': to_wire(v), 'indent': ind, 'after': f'{i} earlier serialisations'}, {'text': str(text)[:300]},
                         {'value': canon(v)}, 'jsonStringify gave a text that is not the value (depends on earlier calls)')
            continue
        first = lib['jsonParse']([text], None)
        if isinstance(first, list):
            lib['arrayPush']([first, 'extra'], None)
            if first:
                lib['arraySet']([first, 0, 'changed'], None)
        elif isinstance(first, dict):
            lib['objectSet']([first, 'extra', 1], None)
        second = lib['jsonParse']([text], None)
        if second is first or vcmp(second, v) != 0:
            ctx.witness('reparse-fresh', {'text': text}, 'a fresh value equal to the original', repr(second)[:300])
            return


# ---------------------------------------------------------------------------------------------------------------------
# object graphs and histories: the value handed to jsonStringify as a program builds it
# ---------------------------------------------------------------------------------------------------------------------
#
# A JSON value of the property is a TREE; the Python object that denotes it need not be one: `row = arrayNew('r', 1.5)`,
# `objectNew('first', row, 'last', row)` holds ONE list object at two places (no cycle), arrayNewSize(3, row) holds it three
# times, arrayCopy / objectCopy share their elements with the original, and a container can be serialised, changed in place
# and serialised again. None of this may show in the text: it is a function of the denoted tree alone. from_wire() builds a
# fresh object for every node, so the tree streams above never produce such values; this family does.
#
# history = {"scalars": [wire, ...],            leaves by index (in script mode the host globals s0, s1, ...)
#            "kinds":   ["a" | "o", ...],       kind of every container binding b0, b1, ... in creation order
#            "steps":   [step, ...]}
# item = ["s", i] | ["b", j]
# step = ["arr", [item, ...]]                   b_new = arrayNew(items...)
#      | ["obj", [[key scalar index, item], ...]] b_new = objectNew(key, item, ...)
#      | ["copy", j]                            b_new = arrayCopy(bj) / objectCopy(bj)   (shallow: elements shared)
#      | ["fill", n, item]                      b_new = arrayNewSize(n, item)            (the same item n times)
#      | ["push", j, item]                      arrayPush(bj, item)
#      | ["set", j, index | key scalar index, item]   arraySet / objectSet
#      | ["del", j, key scalar index]           objectDelete
#      | ["drop", j]                            bj = null (the object may be freed and its id reused)
#      | ["ser", item, indent | null]           t_new = jsonStringify(item[, indent])    <- every one is judged by all oracles
#      | ["parse", k]                           b_new = jsonParse(t_k)
# A step only ever stores binding j into a binding with a larger index, so no container can contain itself (F18 stays out).

CONFUSABLE = [[True, 1, 1.0], [False, 0, 0.0, -0.0], ['1', 1, 1.0], [None, 'null', 'None'], ['', 0, False, None], ['true', True], [2 ** 53, float(2 ** 53)],
              ['a', 'a.0,'], [1.5, '1.5'], [10 ** 16, 1e16]]
HIST_MAX_TREE = 250


class HistoryAbort(Exception):
    pass


class RefBackend:
    """Reference semantics of the steps on plain Python lists / dicts - no implementation code."""

    @staticmethod
    def arr(items):
        return list(items)

    @staticmethod
    def obj(pairs):
        out = {}
        for k, x in pairs:
            out[k] = x
        return out

    @staticmethod
    def copy(x):
        return list(x) if isinstance(x, list) else dict(x)

    @staticmethod
    def fill(n, x):
        return [x for _ in range(n)]

    @staticmethod
    def push(b, x):
        b.append(x)

    @staticmethod
    def set(b, key, x):
        b[key] = x

    @staticmethod
    def delete(b, key):
        b.pop(key, None)


class LibBackend:
    """The same steps through the library functions of the implementation (called in-process)."""

    def __init__(self, impl):
        self.fn = impl['library'].SCRIPT_FUNCTIONS

    def arr(self, items):
        return self.fn['arrayNew'](list(items), None)

    def obj(self, pairs):
        return self.fn['objectNew']([y for pair in pairs for y in pair], None)

    def copy(self, x):
        return self.fn['arrayCopy' if isinstance(x, list) else 'objectCopy']([x], None)

    def fill(self, n, x):
        return self.fn['arrayNewSize']([n, x], None)

    def push(self, b, x):
        self.fn['arrayPush']([b, x], None)

    def set(self, b, key, x):
        self.fn['arraySet' if isinstance(b, list) else 'objectSet']([b, key, x], None)

    def delete(self, b, key):
        self.fn['objectDelete']([b, key], None)


def run_history(hist, backend, on_ser, on_parse):
    """Execute the steps; on_ser(n, step index, object, indent) at the n-th "ser", on_parse(k) -> the value of jsonParse(t_k)."""
    scal = [from_wire(w) for w in hist['scalars']]
    binds = []

    def item(it):
        return scal[it[1]] if it[0] == 's' else binds[it[1]]
    nser = 0
    for ix, step in enumerate(hist['steps']):
        op = step[0]
        if op == 'arr':
            binds.append(backend.arr([item(i) for i in step[1]]))
        elif op == 'obj':
            binds.append(backend.obj([(scal[k], item(i)) for k, i in step[1]]))
        elif op == 'copy':
            binds.append(backend.copy(binds[step[1]]))
        elif op == 'fill':
            binds.append(backend.fill(step[1], item(step[2])))
        elif op == 'push':
            backend.push(binds[step[1]], item(step[2]))
        elif op == 'set':
            b = binds[step[1]]
            backend.set(b, step[2] if isinstance(b, list) else scal[step[2]], item(step[3]))
        elif op == 'del':
            backend.delete(binds[step[1]], scal[step[2]])
        elif op == 'drop':
            binds[step[1]] = None
        elif op == 'ser':
            on_ser(nser, ix, item(step[1]), step[2])
            nser += 1
        elif op == 'parse':
            binds.append(on_parse(step[1]))
        else:
            raise ValueError(op)
    return binds


def parsed_form(v):
    """What a JSON reader gives back for the text of v, written from the property statement: integral numbers come back as
    integers (they are written without a fraction; -0 is 0), every container is fresh, keys are in sorted order."""
    if isinstance(v, float) and v.is_integer() and abs(v) < 1e16:
        return int(v)
    if isinstance(v, list):
        return [parsed_form(x) for x in v]
    if isinstance(v, dict):
        return {k: parsed_form(v[k]) for k in sorted(v)}
    return v


def history_snapshots(hist):
    """-> wire trees of what every "ser" step must serialise (reference run)."""
    snaps = []
    run_history(hist, RefBackend, lambda n, ix, obj, ind: snaps.append(to_wire(obj)), lambda k: parsed_form(from_wire(snaps[k])))
    return snaps


def tree_size(x, memo):
    if not isinstance(x, (list, dict)):
        return 1
    k = id(x)
    if k not in memo:
        memo[k] = 0
        memo[k] = 1 + sum(tree_size(y, memo) for y in (x if isinstance(x, list) else x.values()))
    return memo[k]


def shared_containers(x):
    """number of container objects reachable from x along more than one path"""
    seen = {}

    def go(y):
        if isinstance(y, (list, dict)):
            seen[id(y)] = seen.get(id(y), 0) + 1
            if seen[id(y)] == 1:
                for z in (y if isinstance(y, list) else y.values()):
                    go(z)
    go(x)
    return sum(1 for n in seen.values() if n > 1)


def gen_hist_scalar(rng):
    r = rng.random()
    if r < 0.3:
        return rng.choice(rng.choice(CONFUSABLE))
    if r < 0.4:
        return rng.choice([None, True, False])
    if r < 0.7:
        return gen_number(rng)
    return gen_string(rng)


def gen_history(rng):
    """A random history (see the grammar above), generated alongside its reference execution so that every index / key / size
    is meaningful; the expansion of any binding into a tree stays below HIST_MAX_TREE nodes."""
    scalars, steps, kinds = [], [], []
    binds = []             # reference objects (None once dropped)
    sers = []              # per "ser": kind of the serialised binding or None

    def new_scalar(v):
        scalars.append(v)
        return len(scalars) - 1

    def scalar_item():
        if scalars and rng.random() < 0.3:
            return ['s', rng.randrange(len(scalars))]
        return ['s', new_scalar(gen_hist_scalar(rng))]

    def key_index(existing=None):
        if existing and rng.random() < 0.6:
            k = rng.choice(sorted(existing))
            have = [i for i, x in enumerate(scalars) if isinstance(x, str) and x == k]
            return have[0] if have else new_scalar(k)
        have = [i for i, x in enumerate(scalars) if isinstance(x, str)]
        if have and rng.random() < 0.4:
            return rng.choice(have)
        return new_scalar(rng.choice(['a', 'b', 'k', 'id', '', 'a.0,']) if rng.random() < 0.6 else gen_string(rng))

    def alive(below=None):
        return [j for j, b in enumerate(binds) if b is not None and (below is None or j < below)]

    def item(below=None):
        js = alive(below)
        if js and rng.random() < 0.6:
            return ['b', rng.choice(js[-3:] if rng.random() < 0.7 else js)]
        return scalar_item()

    def val(it):
        return scalars[it[1]] if it[0] == 's' else binds[it[1]]

    def too_big():
        memo = {}
        return any(tree_size(b, memo) > HIST_MAX_TREE for b in binds if b is not None)

    def create(step, kind, obj):
        binds.append(obj)
        if too_big():
            binds.pop()
            return
        kinds.append(kind)
        steps.append(step)

    n_steps = rng.randint(2, 11)
    guard = 0
    while len(steps) < n_steps and guard < 60:
        guard += 1
        r = rng.random()
        js = alive()
        if not js or r < 0.2:
            items = [item() for _ in range(rng.choice([0, 1, 2, 2, 3, 4]))]
            create(['arr', items], 'a', RefBackend.arr([val(i) for i in items]))
        elif r < 0.38:
            pairs = [[key_index(), item()] for _ in range(rng.choice([0, 1, 2, 2, 3]))]
            create(['obj', pairs], 'o', RefBackend.obj([(scalars[k], val(i)) for k, i in pairs]))
        elif r < 0.45:
            j = rng.choice(js)
            create(['copy', j], kinds[j], RefBackend.copy(binds[j]))
        elif r < 0.51:
            it = item()
            n = rng.choice([0, 1, 2, 2, 3])
            create(['fill', n, it], 'a', RefBackend.fill(n, val(it)))
        elif r < 0.61:
            arrs = [j for j in js if kinds[j] == 'a']
            if arrs:
                j = rng.choice(arrs)
                it = item(below=j)
                binds[j].append(val(it))
                if too_big():
                    binds[j].pop()
                else:
                    steps.append(['push', j, it])
        elif r < 0.71:
            j = rng.choice(js)
            it = item(below=j)
            if kinds[j] == 'a':
                if not binds[j]:
                    continue
                key = pykey = rng.randrange(len(binds[j]))
            else:
                key = key_index(binds[j].keys())
                pykey = scalars[key]
            missing = object()
            old = binds[j][pykey] if kinds[j] == 'a' else binds[j].get(pykey, missing)
            binds[j][pykey] = val(it)
            if too_big():
                if old is missing:
                    del binds[j][pykey]
                else:
                    binds[j][pykey] = old
            else:
                steps.append(['set', j, key, it])
        elif r < 0.74:
            objs = [j for j in js if kinds[j] == 'o']
            if objs:
                j = rng.choice(objs)
                key = key_index(binds[j].keys())
                binds[j].pop(scalars[key], None)
                steps.append(['del', j, key])
        elif r < 0.77:
            if len(js) > 1:
                j = rng.choice(js)
                binds[j] = None
                steps.append(['drop', j])
        elif r < 0.95:
            if rng.random() < 0.85:
                j = rng.choice(js[-2:] if rng.random() < 0.7 else js)
                it = ['b', j]
                sers.append(kinds[j])
            else:
                it = scalar_item()
                sers.append(None)
            steps.append(['ser', it, rng.choice(INDENTS) if rng.random() < 0.5 else None])
        else:
            ks = [k for k, kind in enumerate(sers) if kind is not None]
            if ks:
                k = rng.choice(ks)
                # the reference value of the parse is not needed for generation beyond its shape: rebuild it from the reference run
                snaps = history_snapshots({'scalars': [to_wire(x) for x in scalars], 'kinds': kinds, 'steps': steps})
                create(['parse', k], sers[k], parsed_form(from_wire(snaps[k])))
    js = alive()
    if js:
        j = js[-1] if rng.random() < 0.7 else rng.choice(js)
        steps.append(['ser', ['b', j], rng.choice(INDENTS) if rng.random() < 0.5 else None])
    else:
        steps.append(['ser', scalar_item(), None])
    return {'scalars': [to_wire(x) for x in scalars], 'kinds': kinds, 'steps': steps}


def history_script(hist):
    """The history as BareScript source (+ the host globals holding the leaves); returns the texts t0, t1, ... as an array."""
    kinds = hist['kinds']
    lines = []
    nb = nt = 0

    def item(it):
        return f's{it[1]}' if it[0] == 's' else f'b{it[1]}'
    for step in hist['steps']:
        op = step[0]
        if op == 'arr':
            lines.append(f'b{nb} = arrayNew({", ".join(item(i) for i in step[1])})')
            nb += 1
        elif op == 'obj':
            lines.append(f'b{nb} = objectNew({", ".join(f"s{k}, {item(i)}" for k, i in step[1])})')
            nb += 1
        elif op == 'copy':
            lines.append(f'b{nb} = {"arrayCopy" if kinds[step[1]] == "a" else "objectCopy"}(b{step[1]})')
            nb += 1
        elif op == 'fill':
            lines.append(f'b{nb} = arrayNewSize({step[1]}, {item(step[2])})')
            nb += 1
        elif op == 'push':
            lines.append(f'arrayPush(b{step[1]}, {item(step[2])})')
        elif op == 'set':
            if kinds[step[1]] == 'a':
                lines.append(f'arraySet(b{step[1]}, {step[2]}, {item(step[3])})')
            else:
                lines.append(f'objectSet(b{step[1]}, s{step[2]}, {item(step[3])})')
        elif op == 'del':
            lines.append(f'objectDelete(b{step[1]}, s{step[2]})')
        elif op == 'drop':
            lines.append(f'b{step[1]} = null')
        elif op == 'ser':
            lines.append(f't{nt} = jsonStringify({item(step[1])}' + (')' if step[2] is None else f', {step[2]})'))
            nt += 1
        elif op == 'parse':
            lines.append(f'b{nb} = jsonParse(t{step[1]})')
            nb += 1
    lines.append(f'return arrayNew({", ".join(f"t{i}" for i in range(nt))})')
    return '\n'.join(lines) + '\n', {f's{i}': from_wire(w) for i, w in enumerate(hist['scalars'])}


def history_direct(impl, hist, snaps):
    """Run the history through the library functions, judging every "ser" with all oracles against the reference snapshot.
    -> [(n, step index, indent, fails, text, extra)] (stops at the first serialisation that gives no text)."""
    out = []
    texts = {}

    def on_ser(n, ix, obj, ind):
        extra = {'shared': shared_containers(obj)}
        fails, text = oracle_failures(impl, obj, ind, extra, ref=from_wire(snaps[n]))
        out.append((n, ix, ind, fails, text, extra))
        texts[n] = extra.get('jsonStringify') if isinstance(extra.get('jsonStringify'), str) else text

    def on_parse(k):
        if not isinstance(texts.get(k), str):
            raise HistoryAbort()
        return impl['library'].SCRIPT_FUNCTIONS['jsonParse']([texts[k]], None)
    try:
        run_history(hist, LibBackend(impl), on_ser, on_parse)
    except HistoryAbort:
        pass
    except Exception as exc:  # pylint: disable=broad-except
        # a step that is meaningful in the reference run failed on the implementation (its state has already diverged)
        out.append((len(out), None, None, [], None, {'shared': 0, 'error': f'{type(exc).__name__}: {exc}'[:300]}))
    return out


def history_script_run(impl, hist):
    """-> (source, list of texts | {'error': ...})"""
    src, glob = history_script(hist)
    try:
        res = impl['runtime'].execute_script(impl['parser'].parse_script(src), {'globals': glob, 'maxStatements': 10 * len(hist['steps']) + 50})
    except Exception as exc:  # pylint: disable=broad-except
        return src, {'error': f'{type(exc).__name__}: {exc}'[:300]}
    return src, res


def history_script_failures(impl, hist, snaps):
    """The same history as a script: every returned text against the reference snapshot. -> (source, result, [(n, fails)])"""
    src, res = history_script_run(impl, hist)
    out = []
    if isinstance(res, list) and len(res) == len(snaps):
        for n, (text, snap) in enumerate(zip(res, snaps)):
            if not isinstance(text, str):
                out.append((n, [('serialises', 'a JSON text', repr(text)[:200])]))
                continue
            fails = text_failures(impl, text, text, from_wire(snap))
            if fails:
                out.append((n, fails))
    else:
        out.append((0, [('serialises', f'{len(snaps)} JSON texts from the script', repr(res)[:300])]))
    return src, res, out


def load_history_corpus():
    path = os.path.join(fw.VERIF, 'harness', 'corpus', 'C14.jsonl')
    out = []
    if os.path.exists(path):
        with open(path, encoding='utf-8') as fh:
            for ln in fh:
                ln = ln.strip()
                if ln and not ln.startswith('#'):
                    d = json.loads(ln)
                    if 'history' in d:
                        out.append(d['history'])
    return out


def history_tags(hist):
    ops = [s[0] for s in hist['steps']]
    tags = [f'steps{min(len(ops), 12) // 3 * 3}+', f'ser{min(ops.count("ser"), 4)}']
    seen_ser = set()
    for s in hist['steps']:
        if s[0] == 'ser' and s[1][0] == 'b':
            seen_ser.add(s[1][1])
        if s[0] in ('push', 'set', 'del') and seen_ser:
            tags.append('changed-after-ser')
            break
    for op in ('copy', 'fill', 'parse', 'drop'):
        if op in ops:
            tags.append(op)
    if any(s[0] == 'ser' and s[1][0] == 's' for s in hist['steps']):
        tags.append('scalar-ser')
    return tags


def run_history_cases(ctx, st, hists, pool):
    impl = fw.impl()
    snaps_all = [history_snapshots(h) for h in hists]
    reqs = []
    for h, snaps in zip(hists, snaps_all):
        sers = [s for s in h['steps'] if s[0] == 'ser']
        reqs += [{'op': 'encode', 'value': snap, 'indent': s[2] or 0} for s, snap in zip(sers, snaps)]
    resps = iter(ctx.driver.batch(reqs))
    for hist, snaps in zip(hists, snaps_all):
        model = [next(resps) for _ in snaps]
        tags = history_tags(hist)
        results = history_direct(impl, hist, snaps)
        if results and 'error' in results[-1][5]:
            ctx.disagree('history', {'history': hist}, {'error': results.pop()[5]['error']}, 'every step succeeds', 'a step of the history failed on the implementation')
        elif len(results) != len(snaps):
            ctx.disagree('history', {'history': hist}, {'serialisations': len(results)}, {'serialisations': len(snaps)},
                         'the history stopped early on the implementation')
        shared = any(r[5]['shared'] for r in results)
        st.case(hist, nontrivial=shared or 'changed-after-ser' in tags or 'parse' in tags,
                tags=tags + ['shared' if shared else 'tree'] + [f'expansion{min(max((depth_of(from_wire(s)) for s in snaps), default=0), 6)}'])
        for (n, ix, ind, fails, text, extra), resp in zip(results, model):
            case = {'history': hist, 'ser': n, 'step': ix, 'indent': ind, 'value': snaps[n]}
            for oracle, want, got in fails:
                ctx.witness(oracle, case, want, got)
            impl_out = {'text': text} if text is not None else {'error': fails[0][2].split(':')[0]}
            ctx.compare('history', case, impl_out, {'text': resp.get('mirror', resp)})
            if text is not None and extra.get('jsonStringify') != text:
                ctx.disagree('history', case, {'jsonStringify': str(extra.get('jsonStringify'))[:300]}, {'text': text[:300]},
                             'library jsonStringify(v, indent) differs from value_json(v, int(indent))')
            if extra.get('mutated'):
                ctx.disagree('history', case, 'argument changed', 'argument unchanged', 'value_json changed its argument')
            if resp.get('wf') is not True:
                ctx.disagree('history', case, 'repr grammar / unique keys', resp.get('wf'), 'generated value is outside the hypotheses WF of the theorems')
            if text is not None:
                key = json.dumps(canon(from_wire(snaps[n])), ensure_ascii=True)
                prev = pool.setdefault(text, (key, {'value': snaps[n], 'indent': ind}))
                if prev[0] != key:
                    ctx.witness('injective', {'value': snaps[n], 'indent': ind, 'other': prev[1]}, 'different values, different texts', text[:300])
        # the same history as a script run by the interpreter
        src, res, sfails = history_script_failures(impl, hist, snaps)
        for n, fails in sfails:
            for oracle, want, got in fails:
                ctx.witness(oracle, {'history': hist, 'mode': 'script', 'script': src, 'ser': n, 'value': snaps[n] if n < len(snaps) else None}, want, got)
        ctx.compare('history', {'history': hist, 'mode': 'script', 'script': src},
                    res if isinstance(res, (list, dict)) else repr(res)[:200], [m.get('mirror', m) for m in model])


def stream_history(ctx, pool):
    st = ctx.stream('history', 'object graphs and histories: containers built step by step with arrayNew/objectNew/arrayCopy/objectCopy/arrayNewSize '
                               'where the SAME array/object instance (also an empty one) is stored at several places, changed in place between two '
                               'serialisations (arrayPush/arraySet/objectSet/objectDelete), dropped, parsed back and re-serialised; scalars from '
                               'confusable groups (true/1/1.0, 0/-0.0/false, "1"/1); every jsonStringify of the history is judged by all property '
                               'oracles against a reference execution on plain trees and compared with the model encoder on the expanded tree; each '
                               'history runs twice: library functions in-process, and as a BareScript program through parse_script/execute_script; '
                               'non-trivial = some serialised object reaches a container along two paths, or is changed after a serialisation, or '
                               'comes from jsonParse')
    rng = ctx.rng('history')
    hists = load_history_corpus()
    for _ in range(ctx.scale(3000, 40000)):
        hists.append(gen_history(rng))
    for i in range(0, len(hists), 5000):
        run_history_cases(ctx, st, hists[i:i + 5000], pool)
    st.exhaustive = False


def history_fails(impl, hist):
    """-> True if some serialisation of the history violates an oracle (direct or script mode)."""
    snaps = history_snapshots(hist)
    results = history_direct(impl, hist, snaps)
    if len(results) != len(snaps) or any(r[3] or 'error' in r[5] for r in results):
        return True
    return bool(history_script_failures(impl, hist, snaps)[2])


def streams(ctx):
    pool = {}
    stream_reparse(ctx)
    stream_history(ctx, pool)
    texts = stream_json(ctx, pool)
    stream_strings(ctx, pool)
    stream_cleanup(ctx, texts)
    stream_decode(ctx, texts)
    ctx.notes.append(f'injectivity pool: {len(pool)} distinct texts')


# ---------------------------------------------------------------------------------------------------------------------
# search / replay
# ---------------------------------------------------------------------------------------------------------------------


def search(ctx):
    """Directed search for a failing input on the implementation: corpus, all small strings in number contexts (the clean-up pass and
    the escapes are what can change), every scalar, then random values."""
    impl = fw.impl()
    pool = {}

    def try_(v, ind):
        fails, text = oracle_failures(impl, v, ind)
        case = {'value': to_wire(v), 'indent': ind}
        for oracle, want, got in fails:
            ctx.witness(oracle, case, want, got)
        if text is not None:
            key = json.dumps(canon(v), ensure_ascii=True)
            prev = pool.setdefault(text, (key, case))
            if prev[0] != key:
                ctx.witness('injective', {'value': case['value'], 'indent': ind, 'other': prev[1]}, 'different values, different texts', text[:300])
        return bool(ctx.witnesses)

    for v, ind in load_corpus():
        if try_(v, ind):
            return

    def try_history(hist):
        snaps = history_snapshots(hist)
        for n, ix, ind, fails, _, extra in history_direct(impl, hist, snaps):
            if 'error' in extra:
                continue
            for oracle, want, got in fails:
                ctx.witness(oracle, {'history': hist, 'ser': n, 'step': ix, 'indent': ind, 'value': snaps[n]}, want, got)
        if not ctx.witnesses:
            src, _, sfails = history_script_failures(impl, hist, snaps)
            for n, fails in sfails:
                for oracle, want, got in fails:
                    ctx.witness(oracle, {'history': hist, 'mode': 'script', 'script': src, 'ser': n, 'value': snaps[n] if n < len(snaps) else None}, want, got)
        return bool(ctx.witnesses)

    for hist in load_history_corpus():
        if try_history(hist):
            return
    hrng = ctx.rng('search-history')
    for _ in range(ctx.scale(3000, 30000)):
        if try_history(gen_history(hrng)):
            return
    for x in [None, True] + INTS + FLOATS + [-y for y in FLOATS]:
        for ind in (None, 1, 4):
            if try_([x, {'b': x, 'a': [x]}], ind):
                return
    for s in small_strings(4):
        for v, _ in string_contexts(s):
            for ind in (None, 2):
                if try_(v, ind):
                    return
    rng = ctx.rng('search')
    for _ in range(ctx.scale(20000, 200000)):
        if try_(gen_value(rng, rng.randint(1, 5)), rng.choice(INDENTS)):
            return


def replay(witness):
    impl = fw.impl()
    inp = witness['input']
    if 'history' in inp:
        # the whole history is the input: the same steps, in the same order, in direct and in script mode
        return history_fails(impl, inp['history'])
    if 'value' not in inp and 'text' in inp:
        # reparse stream: parse, change the result, parse the same text again
        lib = impl['library'].SCRIPT_FUNCTIONS
        want = json.loads(inp['text'])
        first = lib['jsonParse']([inp['text']], None)
        if isinstance(first, list):
            lib['arrayPush']([first, 'extra'], None)
        elif isinstance(first, dict):
            lib['objectSet']([first, 'extra', 1], None)
        second = lib['jsonParse']([inp['text']], None)
        return second is first or not py_equal(second, want)
    v = from_wire(inp['value'])
    ind = inp.get('indent')
    fails, text = oracle_failures(impl, v, ind, ref=from_wire(inp['value']))
    if fails:
        return True
    if 'other' in inp and text is not None:
        w = from_wire(inp['other']['value'])
        try:
            other_text = impl['value'].value_json(w, inp['other'].get('indent'))
        except Exception:  # pylint: disable=broad-except
            return True
        return other_text == text and not py_equal(v, w)
    return False
