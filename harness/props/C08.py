"""C08 - jump-level models execute by the documented statement semantics."""

import copy
import functools
import itertools
import json
import os
import signal

import fw
import progen

ID = 'C08'
LEVEL = 'proof'
LEAN_TARGETS = ['BareProofs.C08']
DRIVER = 'drv_c01'
DRIVER_ROOT = 'Drv.C01'
GEN = []
THEOREMS = [
    'C08.cache_transparent', 'C08.cache_transparent_nil', 'C08.callValue_eq', 'C08.execIncludes_eq', 'C08.execute_eq',
    'C08.cache_stays_valid',
    'C08.unknown_label_iff', 'C08.findLabel_some_iff', 'C08.first_label_wins',
    'C08.step_end', 'C08.step_exceeded', 'C08.step_label', 'C08.step_expr', 'C08.step_assign_global', 'C08.step_assign_local',
    'C08.function_stmt_binds_global', 'C08.step_return_none', 'C08.step_return_some', 'C08.jump_taken', 'C08.jumpif_step',
    'C08.jump_unknown', 'C08.jump_known',
    'C08.jumps_stay_in_scope', 'C08.return_ends_only_current', 'C08.return_in_include_ends_only_include',
    'C08.callee_independent_of_caller_list', 'C08.exec_deterministic',
]
ASSUMPTIONS = [
    'expression evaluation is shared between the reference statement interpreter and the implementation (C08 is about statements; '
    'operators and the library are C03/C15): the reference interpreter calls evaluate_expression for expressions',
    'numbers in generated programs are exactly representable, so the rational arithmetic of the Lean host equals float arithmetic',
    'immutability of the Python model dicts and run-to-run determinism are properties of the implementation only (in Lean a model is '
    'an immutable value and execute is a function): checked by deep-copy/compare and by executing every model twice',
    'negative zero is not modelled by the rational host: "-0" in log lines and in strings built from numbers is compared as "0" (number text is C12/C13); values '
    'that contain themselves (F18) are not compared',
    'Python recursion limit is not modelled: generated models have no unbounded recursion (DESIGN section 6)',
]
TRUSTED = ['reference statement interpreter (first label of that name in the same list, unknown-label error, return, function '
           'binding, per-list label scope) and the model enumerator/mutator in harness/props/C08.py (the property oracle)']

MAX_EXH = 60
CORPUS = os.path.join(os.path.dirname(os.path.dirname(os.path.abspath(__file__))), 'corpus', 'C08.jsonl')


# ---------------------------------------------------------------------------------------------------------------------
# hand-built models: the alphabet of the exhaustive stream
# ---------------------------------------------------------------------------------------------------------------------

def e_call(name, *args):
    return {'function': {'name': name, 'args': list(args)}}


def s_log(text):
    return {'expr': {'expr': e_call('systemLog', {'string': text})}}


X = {'variable': 'x'}
X_PLUS_1 = {'binary': {'op': '+', 'left': X, 'right': {'number': 1}}}
X_LT_2 = {'binary': {'op': '<', 'left': X, 'right': {'number': 2}}}


def s_func(body):
    return {'function': {'name': 'f', 'statements': body}}


FUNC_BODIES = {
    # label of the same name as a caller label; returns a constant
    'fA': [{'label': 'L1'}, {'return': {'expr': {'number': 5}}}],
    # jump inside the body to a label of the body
    'fB': [{'jump': {'label': 'L1'}}, {'label': 'L1'}],
    # dangling jump inside the body (L2 may exist in the caller: it must NOT be found)
    'fC': [{'jump': {'label': 'L2'}}, s_log('f')],
    # assignment inside a function is local; return ends only the function
    'fD': [{'expr': {'name': 'x', 'expr': X_PLUS_1}}, {'return': {'expr': X}}],
    # a loop inside the body around its own L1 (runs into the statement budget while the global x < 2)
    'fE': [{'label': 'L1'}, {'jump': {'label': 'L1', 'expr': X_LT_2}}],
}

ATOMS = {
    'log': s_log('a'),
    'inc': {'expr': {'name': 'x', 'expr': X_PLUS_1}},
    'j1': {'jump': {'label': 'L1'}},
    'j2': {'jump': {'label': 'L2'}},
    'ji1': {'jump': {'label': 'L1', 'expr': X_LT_2}},
    'l1': {'label': 'L1'},
    'l2': {'label': 'L2'},
    'ret': {'return': {'expr': X}},
    'call': {'expr': {'expr': e_call('f')}},
}
for _name, _body in FUNC_BODIES.items():
    ATOMS[_name] = s_func(_body)

BASE = ['log', 'inc', 'j1', 'j2', 'ji1', 'l1', 'l2', 'ret', 'call']
FULL = BASE + sorted(FUNC_BODIES)            # 14 atoms
SMALL = BASE + ['fC']                        # 10 atoms (one function variant): length 5
NINE = [n for n in SMALL if n != 'j2']       # 9 atoms (the alphabet of DESIGN section 9 + the call): length 6
# renaming L1 <-> L2: defined on the atoms whose image is again an atom
SWAP = {'log': 'log', 'inc': 'inc', 'ret': 'ret', 'call': 'call', 'j1': 'j2', 'j2': 'j1', 'l1': 'l2', 'l2': 'l1', 'fD': 'fD'}


def build(names):
    """The atoms are shared between the enumerated models on purpose (cheap): any in-place mutation by the implementation is
    reported by the model-immutable oracle on the spot."""
    return {'statements': [ATOMS[n] for n in names]}


def canonical_under_swap(names, alphabet_index):
    """False iff the L1<->L2 renaming of the list is also enumerated and comes earlier (then this list is pruned)."""
    if any(n not in SWAP or SWAP[n] not in alphabet_index for n in names):
        return True
    img = [SWAP[n] for n in names]
    return [alphabet_index[n] for n in names] <= [alphabet_index[n] for n in img]


def enumerate_lists(alphabet, lengths, prune):
    index = {n: i for i, n in enumerate(alphabet)}
    for k in lengths:
        for names in itertools.product(alphabet, repeat=k):
            if prune and not canonical_under_swap(names, index):
                yield names, True
            else:
                yield names, False


# ---------------------------------------------------------------------------------------------------------------------
# running the implementation (light-weight variant of progen.run_impl) and the reference interpreter
# ---------------------------------------------------------------------------------------------------------------------

def _script_function(ref, fn_model, args, unused_options):
    """The reference interpreter's script function.  It is bound with functools.partial and is deliberately NAMED like the
    implementation's, so that progen.value_to_wire shows it as {'f': 'script'} (same rendering, cycles included)."""
    locals_ = {}
    params = fn_model.get('args') or []
    last = len(params) - 1
    for ix, param in enumerate(params):
        if fn_model.get('lastArgArray') and ix == last:
            locals_[param] = list(args[ix:])
        else:
            locals_[param] = args[ix] if ix < len(args) else None
    return ref.run(fn_model['statements'], locals_)


class Hang(BaseException):
    """Raised by the CPU-time watchdog inside a run of the implementation (BaseException: the call wrapper of the runtime
    swallows Exception)."""


HANG_SECONDS = 10
HANGS = [0]


def _on_vtalrm(unused_sig, unused_frame):
    raise Hang()


def guarded(fn):
    """Run fn() under a CPU-time watchdog: a run that the statement budget fails to stop must not hang the check."""
    signal.signal(signal.SIGVTALRM, _on_vtalrm)
    signal.setitimer(signal.ITIMER_VIRTUAL, HANG_SECONDS)
    try:
        return fn()
    finally:
        signal.setitimer(signal.ITIMER_VIRTUAL, 0)


def user_globals(g, wire=None):
    """The user-visible globals (library bindings left out), sorted, in wire form."""
    lib = fw.impl()['library'].SCRIPT_FUNCTIONS
    try:
        pairs = g.items() - lib.items()                # C speed; needs hashable values
    except TypeError:
        pairs = [(k, v) for k, v in g.items() if not (k in lib and v is lib[k])]
    return sorted([[k, progen.value_to_wire(v, lib)] for k, v in pairs if not (k in lib and v is lib[k])], key=lambda kv: kv[0])


def run_impl(model, globals_, max_statements):
    mods = fw.impl()
    runtime, library, parser = mods['runtime'], mods['library'], mods['parser']
    log = []
    g = copy.deepcopy(globals_)
    options = {'globals': g, 'maxStatements': max_statements, 'logFn': log.append}
    out = {}
    try:
        out['result'] = progen.value_to_wire(guarded(lambda: runtime.execute_script(model, options)), library.SCRIPT_FUNCTIONS)
    except runtime.BareScriptRuntimeError as exc:
        out['error'] = str(exc)
    except parser.BareScriptParserError as exc:
        out['error'] = 'ParserError ' + str(exc).split('\n', 1)[0]
    except Hang:
        HANGS[0] += 1
        out['hostexc'] = f'Hang: still running after {HANG_SECONDS} s of CPU time under maxStatements={max_statements}'
    except RecursionError:
        out['hostexc'] = 'RecursionError'
    except Exception as exc:  # pylint: disable=broad-except
        out['hostexc'] = type(exc).__name__ + ': ' + str(exc)[:200]
    out['log'] = log
    out['globals'] = user_globals(g)
    out['count'] = options.get('statementCount')
    return out


class RefStatements:
    """The documented statement semantics, written from the property statement:
    statements run in order; a jump whose optional condition is truthy continues after the FIRST label of that name in the
    SAME statement list, or raises 'Unknown jump label'; return ends the current script or function with its optional value;
    a function statement binds a global function; a function body is its own statement list (jumps never cross).
    One statement counter for everything, budget error when statement max+1 would start (so that looping models compare)."""

    def __init__(self, options, max_statements):
        self.mods = fw.impl()
        self.options = options
        self.max = max_statements
        self.count = 0
        self.error = self.mods['runtime'].BareScriptRuntimeError

    def ev(self, expr, locals_):
        return self.mods['runtime'].evaluate_expression(expr, self.options, locals_, False)

    def run(self, statements, locals_):
        first = {}
        for ix, stmt in enumerate(statements):
            if 'label' in stmt and stmt['label'] not in first:
                first[stmt['label']] = ix
        pc = 0
        while pc < len(statements):
            stmt = statements[pc]
            self.count += 1
            if self.max > 0 and self.count > self.max:
                raise self.error(f'Exceeded maximum script statements ({self.max})')
            (kind, body), = stmt.items()
            if kind == 'expr':
                value = self.ev(body['expr'], locals_)
                if body.get('name') is not None:
                    if locals_ is not None:
                        locals_[body['name']] = value
                    else:
                        self.options['globals'][body['name']] = value
            elif kind == 'jump':
                if 'expr' not in body or self.mods['value'].value_boolean(self.ev(body['expr'], locals_)):
                    if body['label'] not in first:
                        raise self.error(f'Unknown jump label "{body["label"]}"')
                    pc = first[body['label']] + 1
                    continue
            elif kind == 'return':
                return self.ev(body['expr'], locals_) if 'expr' in body else None
            elif kind == 'label':
                pass
            elif kind == 'function':
                self.options['globals'][body['name']] = self.make_function(body)
            else:
                raise NotImplementedError(kind)
            pc += 1
        return None

    def make_function(self, fn_model):
        return functools.partial(_script_function, self, fn_model)


def run_reference(model, globals_, max_statements):
    mods = fw.impl()
    library = mods['library']
    log = []
    g = copy.deepcopy(globals_)
    for name, fn in library.SCRIPT_FUNCTIONS.items():
        if name not in g:
            g[name] = fn
    options = {'globals': g, 'maxStatements': 0, 'logFn': log.append, 'statementCount': 0}
    ref = RefStatements(options, max_statements)
    out = {}
    try:
        out['result'] = progen.value_to_wire(ref.run(model['statements'], None), library.SCRIPT_FUNCTIONS)
    except mods['runtime'].BareScriptRuntimeError as exc:
        out['error'] = str(exc)
    except RecursionError:
        return None
    out['log'] = log
    out['globals'] = user_globals(g)
    out['count'] = ref.count
    return out


def impl_oracles(model, globals_, max_statements, json_copy=False):
    """The property's own oracles on the implementation. -> (impl outcome, [(oracle, expected, actual)])
    json_copy: the model shares statement objects between lists; it must behave exactly like its JSON deep copy."""
    before = json.dumps(model, sort_keys=True)          # exact structural snapshot (ints and floats print differently)
    first = run_impl(model, globals_, max_statements)
    bad = []
    if first.get('hostexc', '').startswith('Hang'):
        return first, [('run-stops-within-budget', f'at most {max_statements} statements start', first['hostexc'])]
    second = run_impl(model, globals_, max_statements)
    after = json.dumps(model, sort_keys=True)
    if after != before:
        bad.append(('model-immutable', json.loads(before), json.loads(after)))
        model = json.loads(before)
    if second != first:
        bad.append(('repeatable', first, second))
    if json_copy:
        plain = run_impl(json.loads(before), globals_, max_statements)
        if plain != first:
            bad.append(('same-as-json-copy', plain, first))
    if 'hostexc' not in first:
        ref = run_reference(model, globals_, max_statements)
        if ref is not None and ref != first:
            bad.append(('documented-statement-semantics', ref, first))
    return first, bad


def has_includes(statements):
    for stmt in statements:
        if 'include' in stmt:
            return True
        if 'function' in stmt and has_includes(stmt['function']['statements']):
            return True
    return False


# ---------------------------------------------------------------------------------------------------------------------
# directed families
#  (A) dup-label: a duplicated label, a second label after the duplicate, a jump to the second label before any jump to the
#      duplicated one (an index of labels that is filled incrementally / last-wins goes wrong only on such lists)
#  (B) shared-objects: hand-built models in which THE SAME jump dict object sits in two statement lists (the global list and a
#      function body, or two function bodies) with the label at different positions, or missing, in the two lists
# ---------------------------------------------------------------------------------------------------------------------

DUP_ATOMS = ['jA', 'jB', 'lA', 'lB', 'ret', 'inc', 'jiA']


def dup_shape(names):
    at_a = [i for i, n in enumerate(names) if n == 'lA']
    if len(at_a) < 2 or not any(n == 'lB' and i > at_a[1] for i, n in enumerate(names)):
        return False
    to_b = [i for i, n in enumerate(names) if n == 'jB']
    to_a = [i for i, n in enumerate(names) if n in ('jA', 'jiA')]
    return bool(to_b) and bool(to_a) and to_b[0] < to_a[0]


def dup_statement(name, pos):
    if name == 'ret':
        return {'return': {'expr': {'number': pos}}}             # which return ran is visible in the result
    return {'jA': ATOMS['j1'], 'jB': ATOMS['j2'], 'lA': ATOMS['l1'], 'lB': ATOMS['l2'], 'inc': ATOMS['inc'], 'jiA': ATOMS['ji1']}[name]


def dup_model(names, in_function):
    stmts = [dup_statement(n, i) for i, n in enumerate(names)]
    if in_function:
        return {'statements': [{'function': {'name': 'f', 'statements': stmts}}, {'return': {'expr': e_call('f')}}]}
    return {'statements': stmts}


def dup_cases(ctx):
    """quick: every shaped list of length 5..7 at top level and of length 5..6 inside a function body;
    thorough: length 5..7 in both scopes + a sample of length 8"""
    rng = ctx.rng('dup-label')
    for k in (5, 6, 7):
        for names in itertools.product(DUP_ATOMS, repeat=k):
            if dup_shape(names):
                yield names, False
                if k < 7 or not ctx.quick:
                    yield names, True
    if not ctx.quick:
        for _ in range(40000):
            names = tuple(rng.choice(DUP_ATOMS) for _ in range(8))
            if dup_shape(names):
                yield names, rng.random() < 0.5


SHARED_TEMPLATES = {
    # J = the shared jump object; logs carry the list name and the position
    'after': ['J', 'log', 'L', 'log'],
    'next': ['J', 'L', 'log'],
    'missing': ['log', 'J', 'log'],
    'loop': ['L', 'inc', 'J', 'log'],
    'end': ['J', 'log', 'log', 'L'],
    'dup': ['L', 'log', 'J', 'L', 'log'],
}


def shared_list(template, jump, tag):
    out = []
    for pos, item in enumerate(SHARED_TEMPLATES[template]):
        if item == 'J':
            out.append(jump)                                      # the SAME object in every list
        elif item == 'L':
            out.append({'label': 'L1'})
        elif item == 'inc':
            out.append({'expr': {'name': 'x', 'expr': X_PLUS_1}})
        else:
            out.append(s_log(f'{tag}{pos}'))
    return out


def build_shared(scope, t_one, t_two, conditional, order):
    """scope 'main-f': lists = global list and body of f; 'f-g': bodies of f and g.  order: which list runs first."""
    jump = {'jump': {'label': 'L1', 'expr': X_LT_2}} if conditional else {'jump': {'label': 'L1'}}
    one, two = shared_list(t_one, jump, 'p'), shared_list(t_two, jump, 'q')
    call_f, call_g = {'expr': {'expr': e_call('f')}}, {'expr': {'expr': e_call('g')}}
    if scope == 'main-f':
        fdef = {'function': {'name': 'f', 'statements': two}}
        if order == 'first':            # the body runs before the global list reaches the shared jump
            return {'statements': [fdef, call_f] + one + [call_f]}
        return {'statements': [fdef] + one + [call_f]}
    fdef = {'function': {'name': 'f', 'statements': one}}
    gdef = {'function': {'name': 'g', 'statements': two}}
    calls = [call_f, call_g, call_f] if order == 'first' else [call_g, call_f, call_g]
    return {'statements': [fdef, gdef] + calls}


def shared_cases():
    for scope in ('main-f', 'f-g'):
        for t_one in SHARED_TEMPLATES:
            for t_two in SHARED_TEMPLATES:
                for conditional in (False, True):
                    for order in ('first', 'second'):
                        yield [scope, t_one, t_two, conditional, order]


# (C) argless calls: the schema makes 'args' optional on a call expression; a call without the member is a call with no arguments
def _argless(expr):
    """deep copy of a model in which every call with an empty argument list has its 'args' member removed"""
    if isinstance(expr, list):
        return [_argless(e) for e in expr]
    if isinstance(expr, dict):
        out = {k: _argless(v) for k, v in expr.items()}
        if set(out) >= {'name', 'args'} and out['args'] == [] and 'statements' not in out:
            del out['args']
        return out
    return expr


def argless_cases():
    """(case, model with args: [] everywhere) - script functions with 0 / 1 / variadic parameters called with no arguments, from
    the top level and from a function, and library functions called with no arguments"""
    log_a = {'expr': {'expr': e_call('systemLog', {'variable': 'a'})}}
    fdefs = {
        'f()': {'function': {'name': 'f', 'statements': [s_log('in f'), {'return': {'expr': {'number': 3}}}]}},
        'f(a)': {'function': {'name': 'f', 'args': ['a'], 'statements': [log_a, s_log('in f'), {'return': {'expr': {'number': 3}}}]}},
        'f(a...)': {'function': {'name': 'f', 'args': ['a'], 'lastArgArray': True,
                                 'statements': [{'expr': {'expr': e_call('systemLog', e_call('arrayLength', {'variable': 'a'}))}},
                                                {'return': {'expr': {'variable': 'a'}}}]}},
        'f(a,b)': {'function': {'name': 'f', 'args': ['a', 'b'], 'statements': [log_a, {'return': {'expr': {'variable': 'b'}}}]}},
    }
    g_def = {'function': {'name': 'g', 'statements': [{'return': {'expr': e_call('f')}}]}}
    for fname, fdef in fdefs.items():
        yield ['argless', fname, 'top'], {'statements': [fdef, {'expr': {'name': 'x', 'expr': e_call('f')}}, s_log('after'), {'return': {'expr': X}}]}
        yield ['argless', fname, 'nested'], {'statements': [fdef, g_def, {'expr': {'name': 'x', 'expr': e_call('g')}}, {'return': {'expr': X}}]}
        yield ['argless', fname, 'jumpif'], {'statements': [fdef, {'jump': {'label': 'L1', 'expr': e_call('f')}}, s_log('not taken'),
                                                            {'label': 'L1'}, {'return': {'expr': X}}]}
    for lib in ('arrayNew', 'objectNew', 'systemLog', 'arrayLength', 'systemType', 'systemBoolean', 'arrayPop', 'systemGlobalGet'):
        yield ['argless', lib, 'lib'], {'statements': [{'expr': {'name': 'x', 'expr': e_call(lib)}},
                                                       {'expr': {'expr': e_call('systemLog', e_call('systemType', X))}},
                                                       {'return': {'expr': X}}]}


# (D) call-arity matrix: a script function with k parameters called with m arguments, for every k, m, lastArgArray spelling,
#     parameter-name class (fresh / named like global variables / named like global functions), globals configuration (none /
#     supplied by the host / assigned by the script) and caller (top level / a function whose own locals carry the same names /
#     a systemPartial value).  The body reports every parameter (type, conditional jump on "is it null", value) and assigns to one.
#     Closed-form oracle from the calling convention: parameter i is argument i, null when there is no argument i, the rest
#     array for the last parameter of a lastArgArray function; metamorphic oracle: what the function sees does not depend on
#     the globals at all.
PARAM_SETS = {'fresh': ['p', 'q', 'r'], 'like-globals': ['a', 'n', 'y'], 'like-functions': ['f', 'g', 'tr']}
ARITY_GLOBALS = {'p': 'Gp', 'q': 101, 'r': [1], 'a': 'Ga', 'n': 102, 'y': {'k': 1}, 'tr': True}
LAA_SPELLINGS = {'laa-absent': None, 'laa-false': False, 'laa-true': True}


def e_str(text):
    return {'string': text}


def e_var(name):
    return {'variable': name}


def e_bin(op, left, right):
    return {'binary': {'op': op, 'left': left, 'right': right}}


def s_assign(name, expr):
    return {'expr': {'name': name, 'expr': expr}}


def s_expr(expr):
    return {'expr': {'expr': expr}}


def arity_model(pset, k, laa, m, gconf, caller):
    params = PARAM_SETS[pset][:k]
    body = []
    for ix, p in enumerate(params):
        body += [s_expr(e_call('systemLog', e_bin('+', e_str(p + ' '), e_call('systemType', e_var(p))))),
                 {'jump': {'label': 'has%d' % ix, 'expr': e_bin('!=', e_var(p), e_var('null'))}},
                 s_expr(e_call('systemLog', e_str(p + ' is null'))),
                 {'label': 'has%d' % ix}]
    body.append(s_assign('res', e_call('arrayNew', *[e_var(p) for p in params])))
    if params:
        body.append(s_assign(params[-1], e_str('assigned in f')))          # local: the global of that name must not change
        body.append(s_expr(e_call('systemLog', e_var(params[-1]))))
    body.append({'return': {'expr': e_var('res')}})
    fdef = {'name': 'f', 'statements': body}
    if k:                                                                # the schema wants a non-empty args member
        fdef['args'] = params
    if LAA_SPELLINGS[laa] is not None:
        fdef['lastArgArray'] = LAA_SPELLINGS[laa]
    stmts = []
    if gconf == 'script':
        stmts += [s_assign(name, e_str('S' + name)) for name in ('p', 'q', 'r', 'a', 'n', 'y')]
    stmts.append({'function': fdef})
    args = [{'number': 11 + ix} for ix in range(m)]
    if caller == 'top':
        stmts.append(s_assign('out', e_call('f', *args)))
    elif caller == 'nested':
        # the caller's own locals have the names of the callee's parameters (all three, non-null) and it passes the first m
        own = PARAM_SETS[pset]
        stmts.append({'function': {'name': 'g', 'args': own + ['extra'], 'statements': [
            s_assign('own', e_str('local of g')),
            {'return': {'expr': e_call('f', *([e_var(v) for v in own] + [e_var('extra')])[:m])}}]}})
        stmts.append(s_assign('out', e_call('g', {'number': 11}, {'number': 12}, {'number': 13}, {'number': 14})))
    else:                                                                # 'partial': the first argument is bound by systemPartial
        stmts.append(s_assign('h', e_call('systemPartial', e_var('f'), args[0])))
        stmts.append(s_assign('out', e_call('h', *args[1:])))
    stmts.append(s_expr(e_call('systemLog', e_bin('+', e_str('after '), e_call('systemType', e_var('out'))))))
    stmts.append({'return': {'expr': e_var('out')}})
    return {'statements': stmts}


def arity_expected(pset, k, laa, m):
    """(result, log) by the calling convention, as Python values"""
    params = PARAM_SETS[pset][:k]
    args = [11 + ix for ix in range(m)]
    bound = []
    for ix in range(k):
        if LAA_SPELLINGS[laa] and ix == k - 1:
            bound.append(args[ix:])
        else:
            bound.append(args[ix] if ix < m else None)
    log = []
    for p, v in zip(params, bound):
        log.append(p + ' ' + ('null' if v is None else 'array' if isinstance(v, list) else 'number'))
        if v is None:
            log.append(p + ' is null')
    if params:
        log.append('assigned in f')
    log.append('after array')
    return bound, log


def arity_cases():
    for pset in PARAM_SETS:
        for k in range(4):
            for laa in LAA_SPELLINGS:
                for m in range(k + 2):
                    for caller in ('top', 'nested', 'partial'):
                        # partial: needs a first argument; like-functions: a caller with a local named f could not call f
                        if (caller == 'partial' and m == 0) or (caller == 'nested' and pset == 'like-functions'):
                            continue
                        for gconf in ('none', 'host', 'script'):
                            yield [pset, k, laa, m, gconf, caller]


def arity_globals(gconf):
    return dict(ARITY_GLOBALS) if gconf == 'host' else {}


def arity_oracles(params, model, max_statements):
    """-> [(oracle, expected, actual, extra witness fields)]"""
    pset, k, laa, m, gconf, caller = params
    got = run_impl(model, arity_globals(gconf), max_statements)
    bad = []
    result, log = arity_expected(pset, k, laa, m)
    expected = {'result': progen.value_to_wire(result), 'log': log}
    actual = {key: got.get(key, got.get('error', got.get('hostexc'))) for key in ('result', 'log')}
    if actual != expected:
        bad.append(('parameter-binding', expected, actual, {'expect': expected}))
    if gconf != 'none':
        base_model = arity_model(pset, k, laa, m, 'none', caller)
        base = run_impl(base_model, {}, max_statements)
        seen_base = {key: base.get(key, base.get('error', base.get('hostexc'))) for key in ('result', 'log')}
        if actual != seen_base:
            bad.append(('callee-sees-only-its-parameters', seen_base, actual, {'base_model': base_model, 'base_globals': {}}))
    return bad


# (E) fresh values: an expression that builds a container is evaluated several times (a loop, a function called twice, a second
#     execution of the model) and the container it returned is modified in place in between.  Every evaluation must yield the
#     same fresh value: a value that aliases a part of the model, of the function model or of an earlier evaluation shows as a
#     changed model, as a different second run or as a different value in the second iteration.
def fresh_producers():
    """name -> (expression, kind of the container that is mutated, expression that reaches it from variable a, definitions)"""
    a = e_var('a')
    rest = {'function': {'name': 'rest', 'args': ['r'], 'lastArgArray': True, 'statements': [{'return': {'expr': e_var('r')}}]}}
    rest2 = {'function': {'name': 'rest2', 'args': ['p', 'r'], 'lastArgArray': True, 'statements': [{'return': {'expr': e_var('r')}}]}}
    mk = {'function': {'name': 'mk', 'statements': [{'return': {'expr': e_call('arrayNew')}}]}}
    mko = {'function': {'name': 'mko', 'statements': [{'return': {'expr': e_call('objectNew')}}]}}
    ident = {'function': {'name': 'ident', 'args': ['v'], 'statements': [{'return': {'expr': e_var('v')}}]}}
    n1, n2 = {'number': 1}, {'number': 2}
    return {
        'arrayNew()': (e_call('arrayNew'), 'array', a, []),
        'arrayNew(1)': (e_call('arrayNew', n1), 'array', a, []),
        'arrayNew(1,2)': (e_call('arrayNew', n1, n2), 'array', a, []),
        'arrayNew(arrayNew())': (e_call('arrayNew', e_call('arrayNew')), 'array', e_call('arrayGet', a, {'number': 0}), []),
        'arrayCopy(arrayNew())': (e_call('arrayCopy', e_call('arrayNew')), 'array', a, []),
        'objectNew()': (e_call('objectNew'), 'object', a, []),
        'objectNew(k,1)': (e_call('objectNew', e_str('k'), n1), 'object', a, []),
        'objectNew(k,arrayNew())': (e_call('objectNew', e_str('k'), e_call('arrayNew')), 'array', e_call('objectGet', a, e_str('k')), []),
        'rest()': (e_call('rest'), 'array', a, [rest]),
        'rest(1,2)': (e_call('rest', n1, n2), 'array', a, [rest]),
        'rest2(1)': (e_call('rest2', n1), 'array', a, [rest2]),
        'mk()': (e_call('mk'), 'array', a, [mk]),
        'mko()': (e_call('mko'), 'object', a, [mko]),
        'ident(arrayNew())': (e_call('ident', e_call('arrayNew')), 'array', a, [ident]),
        'if(true,arrayNew())': (e_call('if', e_var('true'), e_call('arrayNew')), 'array', a, []),
        'null||arrayNew()': (e_bin('||', e_var('null'), e_call('arrayNew')), 'array', a, []),
        '(objectNew())': ({'group': e_call('objectNew')}, 'object', a, []),
    }


def fresh_mutators(kind):
    """name -> (call on the target expression t, modelled by the Lean host?)"""
    seven = {'number': 7}
    if kind == 'array':
        return {
            'arrayPush': (lambda t: e_call('arrayPush', t, seven), True),
            'arrayPush2': (lambda t: e_call('arrayPush', t, seven, e_str('s')), True),
            'arraySet': (lambda t: e_call('arraySet', t, {'number': 0}, seven), True),
            'arrayPop': (lambda t: e_call('arrayPop', t), True),
            'arrayShift': (lambda t: e_call('arrayShift', t), False),
            'arrayExtend': (lambda t: e_call('arrayExtend', t, e_call('arrayNew', seven, {'number': 8})), False),
            'arrayDelete': (lambda t: e_call('arrayDelete', t, {'number': 0}), False),
            'arraySort': (lambda t: e_call('arraySort', e_call('arrayPush', t, {'number': -7})), False),
        }
    return {
        'objectSet': (lambda t: e_call('objectSet', t, e_str('z'), seven), True),
        'objectSet-k': (lambda t: e_call('objectSet', t, e_str('k'), seven), True),
        'objectDelete': (lambda t: e_call('objectDelete', t, e_str('k')), False),
        'objectAssign': (lambda t: e_call('objectAssign', t, e_call('objectNew', e_str('z'), seven)), False),
    }


def fresh_model(producer, mutator, context):
    expr, kind, target, defs = fresh_producers()[producer]
    mutate = fresh_mutators(kind)[mutator][0](target)
    core = [s_assign('a', expr),
            s_expr(e_call('systemLog', e_bin('+', e_str('new '), e_var('a')))),
            s_expr(mutate),
            s_expr(e_call('systemLog', e_bin('+', e_str('mut '), e_var('a'))))]
    stmts = copy.deepcopy(defs)
    if context == 'rerun':                       # straight line: the second evaluation is the second execution of the model
        stmts += core + [{'return': {'expr': e_var('a')}}]
    elif context == 'loop':
        stmts += [{'label': 'top'}] + core + [s_assign('i', e_bin('+', e_var('i'), {'number': 1})),
                                              {'jump': {'label': 'top', 'expr': e_bin('<', e_var('i'), {'number': 3})}},
                                              {'return': {'expr': e_var('a')}}]
    elif context == 'function-twice':
        stmts += [{'function': {'name': 'work', 'statements': core + [{'return': {'expr': e_var('a')}}]}},
                  s_assign('one', e_call('work')), s_assign('two', e_call('work')),
                  {'return': {'expr': e_call('arrayNew', e_var('one'), e_var('two'))}}]
    else:                                        # 'condition': producer and mutation sit in a jump condition evaluated three times
        inline = fresh_mutators(kind)[mutator][0](expr)
        stmts += [{'label': 'top'}, s_assign('i', e_bin('+', e_var('i'), {'number': 1})),
                  {'jump': {'label': 'done', 'expr': e_bin('>', e_var('i'), {'number': 3})}},
                  s_expr(e_call('systemLog', e_bin('+', e_str('new '), expr))),
                  {'jump': {'label': 'top', 'expr': e_bin('||', e_bin('&&', s_assign('a', inline)['expr']['expr'], e_var('null')),
                                                          e_var('true'))}},
                  {'label': 'done'}, {'return': {'expr': e_var('i')}}]
    return {'statements': stmts}


def fresh_cases():
    for producer, (_, kind, target, _) in fresh_producers().items():
        for mutator, (_, modelled) in fresh_mutators(kind).items():
            for context in ('rerun', 'loop', 'function-twice', 'condition'):
                if context == 'condition' and target != e_var('a'):
                    continue
                yield [producer, mutator, context], modelled


def fresh_oracle(out):
    """every evaluation of the producer gave the same value and the same mutation result: -> None or (expected, actual)"""
    new = [line for line in out.get('log', []) if line.startswith('new ')]
    mut = [line for line in out.get('log', []) if line.startswith('mut ')]
    if len(set(new)) > 1 or len(set(mut)) > 1:
        return ({'new': new[:1] * len(new), 'mut': mut[:1] * len(mut)}, {'new': new, 'mut': mut})
    return None


def call_sites(node, out):
    """every call expression dict below a model / statement list / expression"""
    if isinstance(node, list):
        for item in node:
            call_sites(item, out)
    elif isinstance(node, dict):
        if len(node) == 1 and 'function' in node and 'statements' not in node['function']:
            out.append(node)
        for value in node.values():
            call_sites(value, out)
    return out


def poke_model(model):
    """Deep copy of the model in which every assignment `v = E` is followed by an in-place modification of the value, whatever
    built it: if(systemType(v) == 'array', arrayPush(v, 9), if(systemType(v) == 'object', objectSet(v, 'poke', 9))).
    A value that aliases the model, a function model or the value of another evaluation is then modified together with it."""
    def poke(name):
        v = e_var(name)
        kind = e_call('systemType', v)
        return s_expr(e_call('if', e_bin('==', kind, e_str('array')), e_call('arrayPush', v, {'number': 9}),
                             e_call('if', e_bin('==', kind, e_str('object')), e_call('objectSet', v, e_str('poke'), {'number': 9}))))

    def walk(statements):
        out = []
        for stmt in statements:
            if 'function' in stmt:
                stmt = {'function': dict(stmt['function'], statements=walk(stmt['function']['statements']))}
            out.append(stmt)
            if 'expr' in stmt and stmt['expr'].get('name') is not None:
                out.append(poke(stmt['expr']['name']))
        return out
    model = copy.deepcopy(model)
    return {'statements': walk(model['statements'])}


def stream_directed(ctx, driver=True):
    st = ctx.stream('exec-directed',
                    '(A) dup-label: statement lists over {jump L1, jump L2, label L1, label L2, return <position>, x=x+1, jumpif (x<2) L1} '
                    'with a duplicated L1, an L2 after the second L1 and a jump to L2 before any jump to L1 - all of length 5..7 (top '
                    'level; inside a function body: length 5..6 quick, 5..7 thorough) + 40000 sampled of length 8 (thorough); '
                    '(B) shared-objects: 288 hand-built models in which the same jump dict OBJECT sits in the global list and a function '
                    'body, or in two function bodies, with the label after / next / missing / before (loop) / at the end / duplicated; '
                    'same comparison and oracles, (B) additionally: identical to its JSON deep copy; (C) argless: 20 hand-built models '
                    'whose call expressions omit the optional args member (script functions with 0/1/2/variadic parameters called from '
                    'the top level, a function and a jump condition; 8 library functions), additionally: same outcome as with args: []; '
                    '(D) call-arity matrix: a script function with k = 0..3 parameters (named p/q/r, like the global variables a/n/y, or '
                    'like the global functions f/g/tr; lastArgArray absent/false/true) called with m = 0..k+1 arguments from the top '
                    'level, from a function whose own locals have the same names, and through systemPartial, with no globals / '
                    'host-supplied globals / script-assigned globals of the parameter names; the body reports each parameter (type, '
                    'conditional jump on != null), assigns to the last one and returns the array of them; additionally: closed-form '
                    'result and log from the calling convention (parameter-binding) and the same result and log as without any '
                    'globals (callee-sees-only-its-parameters); (E) fresh values: 17 container-building expressions (arrayNew/objectNew '
                    'with 0..2 arguments, nested, through arrayCopy / a variadic script function / a script function / if() / || / a '
                    'group; with args: [] and without the args member) x in-place library functions (arrayPush/Set/Pop, objectSet on the '
                    'Lean host; arrayShift/Extend/Delete/Sort, objectDelete/Assign implementation-only) x re-evaluation by a second '
                    'execution / a three-round loop / a function called twice / a jump condition; additionally: every evaluation logs '
                    'the same new value and the same modified value (fresh-value-each-evaluation); '
                    'non-trivial = all')
    validate = fw.impl()['model'].validate_script
    saved_driver = ctx.driver
    if not driver:
        ctx.driver = None
    try:
        chunk = []
        for names, in_function in dup_cases(ctx):
            chunk.append((('f: ' if in_function else '') + ' '.join(names), dup_model(names, in_function), {'x': 0},
                          ['dup-label', 'in-function' if in_function else 'top-level', 'len%d' % len(names)]))
            if len(chunk) >= 20000:
                run_chunk(ctx, 'exec-directed', st, chunk, MAX_EXH, 400, lambda m, o: True)
                chunk = []
        if chunk:
            run_chunk(ctx, 'exec-directed', st, chunk, MAX_EXH, 400, lambda m, o: True)
        # (B): the driver sees the JSON text (no sharing); the implementation runs the object graph with sharing
        reqs, models = [], []
        for params in shared_cases():
            model = build_shared(*params)
            validate(model)
            models.append((params, model))
            reqs.append({'op': 'exec', 'script': progen.canon_script(model), 'globals': progen.wire_globals({'x': 0}), 'max': MAX_EXH, 'fuel': 400})
        resps = ctx.driver.batch(reqs) if ctx.driver is not None else [None] * len(reqs)
        for (params, model), resp in zip(models, resps):
            impl, bad = impl_oracles(model, {'x': 0}, MAX_EXH, json_copy=True)
            st.case(['shared'] + params, nontrivial=True, tags=['shared-objects', params[0]] + outcome_tags(impl))
            if resp is not None:
                ctx.compare('exec-directed', ['shared'] + params, impl, progen.canon_model_out(resp))
            for name, expected, actual in bad:
                ctx.witness(name, {'shared': params, 'model': json.loads(json.dumps(model)), 'globals': {'x': 0}, 'max': MAX_EXH},
                            expected, actual)
        # (C): the model without the optional 'args' members against the driver, and against the same model with args: []
        chunk = []
        with_args = {}
        for case, model in argless_cases():
            bare = _argless(model)
            assert bare != model
            chunk.append((case, bare, {'x': 0}, ['argless', case[2]]))
            with_args[json.dumps(case)] = model
        run_chunk(ctx, 'exec-directed', st, chunk, MAX_EXH, 400, lambda m, o: True)
        for case, bare, g, _ in chunk:
            full = run_impl(with_args[json.dumps(case)], g, MAX_EXH)
            got = run_impl(bare, g, MAX_EXH)
            if full != got:
                ctx.witness('call-without-args-is-call-with-no-arguments', {'model': bare, 'globals': g, 'max': MAX_EXH, 'history': []},
                            full, got)
        # (D): call-arity matrix
        chunk = []
        for params in arity_cases():
            model = arity_model(*params)
            chunk.append((['arity'] + params, model, arity_globals(params[4]),
                          ['arity', params[0], params[2], 'k%d' % params[1], 'm%d' % params[3], 'globals-' + params[4], 'caller-' + params[5],
                           'omitted' if params[3] < params[1] else 'extra' if params[3] > params[1] else 'exact']))
        run_chunk(ctx, 'exec-directed', st, chunk, MAX_EXH, 400, lambda m, o: True)
        for case, _, g, _ in chunk:
            model = arity_model(*case[1:])                 # a fresh object: an earlier run may have changed the one in the chunk
            for name, expected, actual, extra in arity_oracles(case[1:], model, MAX_EXH):
                ctx.witness(name, dict({'model': arity_model(*case[1:]), 'globals': g, 'max': MAX_EXH, 'history': []}, **extra),
                            expected, actual)
        # (E): fresh values; mutators outside the Lean host's library run the implementation oracles only
        chunks = {True: [], False: []}
        for params, modelled in fresh_cases():
            model = fresh_model(*params)
            tags = ['fresh', params[2], 'lean-host' if modelled else 'impl-only']
            chunks[modelled].append((['fresh'] + params, model, {'i': 0}, tags))
            if call_sites(model, []) and _argless(model) != model:
                chunks[modelled].append((['fresh-argless'] + params, _argless(model), {'i': 0}, tags + ['argless']))
        for modelled, chunk in chunks.items():
            run_chunk(ctx, 'exec-directed', st, chunk, MAX_EXH, 400, lambda m, o: True, use_driver=modelled)
            for case, _, g, _ in chunk:
                def rebuilt(case=case):            # a fresh object: an earlier run may have changed the one in the chunk
                    model = fresh_model(*case[1:])
                    return _argless(model) if case[0] == 'fresh-argless' else model
                found = fresh_oracle(run_impl(rebuilt(), g, MAX_EXH))
                if found is not None:
                    ctx.witness('fresh-value-each-evaluation', {'model': rebuilt(), 'globals': g, 'max': MAX_EXH, 'history': []}, *found)
    finally:
        ctx.driver = saved_driver


# ---------------------------------------------------------------------------------------------------------------------
# random models
# ---------------------------------------------------------------------------------------------------------------------

def all_lists(statements):
    yield statements
    for stmt in statements:
        if 'function' in stmt:
            yield from all_lists(stmt['function']['statements'])


def labels_of(statements):
    return [s['label'] for s in statements if 'label' in s]


def mutate_model(rng, model):
    """Hand-built mutations: duplicate labels, dangling jumps, jumps to labels of another list, stray returns."""
    model = copy.deepcopy(model)
    lists = list(all_lists(model['statements']))
    every_label = sorted({lb for lst in lists for lb in labels_of(lst)}) + ['L1', 'L2', 'nowhere']
    tags = []
    for _ in range(rng.randint(1, 4)):
        lst = rng.choice(lists)
        pos = rng.randint(0, len(lst))
        kind = rng.choice(['dup-label', 'dup-label', 'jump', 'jumpif', 'drop-label', 'return', 'label'])
        own = labels_of(lst)
        if kind == 'dup-label' and own:
            lst.insert(pos, {'label': rng.choice(own)})
        elif kind == 'label':
            lst.insert(pos, {'label': rng.choice(['L1', 'L2'])})
        elif kind == 'jump':
            lst.insert(pos, {'jump': {'label': rng.choice(every_label)}})
        elif kind == 'jumpif':
            cond = rng.choice([{'variable': 'a'}, {'variable': 'true'}, {'variable': 'false'},
                               {'binary': {'op': '<', 'left': {'variable': 'n'}, 'right': {'number': 2}}}])
            lst.insert(pos, {'jump': {'label': rng.choice(every_label), 'expr': cond}})
        elif kind == 'drop-label' and own:
            victim = rng.choice(own)
            ix = next(i for i, s in enumerate(lst) if s.get('label') == victim)
            del lst[ix]
        elif kind == 'return':
            lst.insert(pos, {'return': {'expr': {'variable': rng.choice(progen.VARS)}}} if rng.random() < 0.7 else {'return': {}})
        else:
            continue
        tags.append(kind)
    return model, tags


def random_model(rng):
    gen = progen.Gen(rng, max_depth=rng.choice([2, 3, 4]), allow_raw=True)
    prog = gen.program()
    text = '\n'.join(progen.render(prog))
    model = fw.impl()['parser'].parse_script(text)
    tags = ['parsed']
    if rng.random() < 0.75:
        model, mtags = mutate_model(rng, model)
        tags += mtags
    # calls of script functions with fewer arguments than written (omitted parameters), or with none at all
    if rng.random() < 0.4:
        defined = {s['function']['name'] for lst in all_lists(model['statements']) for s in lst if 'function' in s} - {'tr'}
        sites = [c for c in call_sites(model, []) if c['function']['name'] in defined and c['function'].get('args')]
        for site in rng.sample(sites, min(len(sites), rng.randint(1, 3))):
            if rng.random() < 0.3:
                site['function']['args'] = []
            else:
                del site['function']['args'][-1]
            tags.append('drop-arg')
    # every assigned value is modified in place right after the assignment
    if rng.random() < 0.4:
        model = poke_model(model)
        tags.append('poke')
    # hand-built: keep at most 40 top-level statements (cutting a lowered program leaves dangling jumps: wanted)
    if len(model['statements']) > 40:
        model['statements'] = model['statements'][:40]
        tags.append('cut40')
    return model, tags


def load_corpus():
    cases = []
    if os.path.exists(CORPUS):
        with open(CORPUS, encoding='utf-8') as fh:
            for line in fh:
                line = line.strip()
                if line and not line.startswith('#'):
                    cases.append(json.loads(line))
    return cases


# ---------------------------------------------------------------------------------------------------------------------
# streams
# ---------------------------------------------------------------------------------------------------------------------

def no_neg_zero(out):
    """The rational host of the Lean model has no negative zero; float -0.0 prints as "-0" (number text is C12/C13) - in log
    lines and in every string value built from a number (result, globals)."""
    return progen.canon_neg_zero(out)


NEG_ZERO_SKIPS = [0]


def every_neg_zero(obj):
    """every '-0' in every string -> '0' (used only to recognise a difference that is nothing but the text of negative zero)"""
    if isinstance(obj, str):
        return obj.replace('-0', '0')
    if isinstance(obj, list):
        return [every_neg_zero(x) for x in obj]
    if isinstance(obj, dict):
        return {k: every_neg_zero(v) for k, v in obj.items()}
    return obj


def report(ctx, oracle_bad, input_):
    for name, expected, _ in oracle_bad:
        if name == 'model-immutable':        # the execution changed the model object: the witness is the model as it was before
            input_ = dict(input_, model=expected)
    for name, expected, actual in oracle_bad:
        ctx.witness(name, input_, expected, actual)


def outcome_tags(impl):
    if 'hostexc' in impl:
        return ['hostexc']
    if 'error' in impl:
        err = impl['error']
        return ['error:' + ('unknown-label' if err.startswith('Unknown jump label') else 'budget' if err.startswith('Exceeded')
                            else 'undefined-function' if err.startswith('Undefined function') else 'other')]
    return ['ok']


def run_chunk(ctx, stream, st, chunk, max_statements, fuel, nontrivial_fn, use_driver=True):
    """chunk: [(case-id, model, globals, tags)] -> correspondence + oracles"""
    validate = fw.impl()['model'].validate_script
    reqs = []
    for _, model, g, _ in chunk:
        validate(model)
        reqs.append({'op': 'exec', 'script': progen.canon_script(model), 'globals': progen.wire_globals(g),
                     'max': max_statements, 'fuel': fuel})
    resps = ctx.driver.batch(reqs) if ctx.driver is not None and use_driver else [None] * len(reqs)
    prev = None
    for (case, model, g, tags), resp in zip(chunk, resps):
        if HANGS[0] >= 3:
            ctx.notes.append('stream stopped: the implementation did not stop under maxStatements in 3 runs')
            return
        impl, bad = impl_oracles(model, g, max_statements)
        st.case(case, nontrivial=nontrivial_fn(model, impl), tags=list(tags) + outcome_tags(impl))
        if resp is not None and '<cycle>' not in json.dumps(impl):      # self-containing containers: F18 territory, not compared
            got, want = no_neg_zero(impl), no_neg_zero(progen.canon_model_out(resp))
            if got != want and every_neg_zero(got) == every_neg_zero(want):
                # "-0" glued to a following digit by string concatenation ('y' + -0 + 1): the same documented restriction
                NEG_ZERO_SKIPS[0] += 1
                if NEG_ZERO_SKIPS[0] == 1:
                    ctx.notes.append('a case whose only difference is the text of negative zero inside a concatenated string was not '
                                     'compared with the Lean model (ASSUMPTIONS: negative zero); first: ' + json.dumps(case)[:300])
            else:
                ctx.compare(stream, case, got, want)
        # the model executed just before is part of the witness: a defect that carries state from one execution to the next
        # (the property says executions are independent) only shows with that history
        report(ctx, bad, {'model': model, 'globals': g, 'max': max_statements, 'history': [prev] if prev is not None else []})
        prev = model


def jumps_taken_possible(model, impl):
    """non-trivial: some statement list of the model contains a jump statement and a label statement"""
    return any(any('jump' in s for s in lst) and any('label' in s for s in lst) for lst in all_lists(model['statements']))


def stream_exhaustive(ctx, driver=True):
    quick = ctx.quick
    plan = [(FULL, range(0, 5), False)] if quick else [(FULL, range(0, 5), True), (SMALL, [5], True), (NINE, [6], True)]
    st = ctx.stream('exec-exhaustive',
                    'every statement list over {log, x=x+1, jump L1, jump L2, jumpif (x<2) L1, label L1, label L2, return x, call f(), '
                    'function f with one of 5 two-statement bodies (own label L1 / inner jump / dangling jump L2 / local assignment + '
                    'return / inner loop)} as hand-built validated models, x=0, maxStatements=60: length<=4 over all 14 atoms (quick); + length 5 '
                    'over 10 atoms (one function body: the dangling jump) + length 6 over 9 atoms (those without jump L2) (thorough, L1<->L2 '
                    'renaming pruned); execute_script vs Lean execM (exec op); '
                    'oracles: reference statement interpreter, model unchanged, two runs identical; non-trivial = one list has a jump and a label statement')
    enumerated = pruned = 0
    chunk = []
    saved_driver = ctx.driver
    if not driver:
        ctx.driver = None
    try:
        for alphabet, lengths, prune in plan:
            for names, is_pruned in enumerate_lists(alphabet, lengths, prune):
                enumerated += 1
                if is_pruned:
                    pruned += 1
                    continue
                chunk.append((' '.join(names), build(names), {'x': 0}, ['len%d' % len(names)]))
                if len(chunk) >= 20000:
                    run_chunk(ctx, 'exec-exhaustive', st, chunk, MAX_EXH, 400, jumps_taken_possible)
                    chunk = []
        if chunk:
            run_chunk(ctx, 'exec-exhaustive', st, chunk, MAX_EXH, 400, jumps_taken_possible)
    finally:
        ctx.driver = saved_driver
    st.exhaustive = True
    ctx.notes.append(f'exec-exhaustive: enumerated {enumerated} statement lists, pruned {pruned} by the L1<->L2 renaming symmetry '
                     f'(only lists all of whose atoms have an image under the renaming can be pruned; the alphabet has one variable, '
                     f'so there is no variable symmetry), executed {enumerated - pruned}')


def stream_random(ctx, n, driver=True, name='exec-random'):
    rng = ctx.rng(name)
    st = ctx.stream(name,
                    'corpus + random models <= 40 top-level statements: progen.Gen programs with raw labels/jumps, parsed, then hand-built '
                    'mutations (duplicate labels, labels dropped, dangling jumps, jumps to labels of other lists, stray returns, cut at 40; '
                    '40%: trailing arguments dropped from calls of script functions; 40%: every assignment followed by an in-place '
                    'arrayPush/objectSet on the assigned value), validated; x initial globals of all value kinds; maxStatements=300; same comparison and oracles; non-trivial = one '
                    'list of the model has a jump and a label statement')
    saved_driver = ctx.driver
    if not driver:
        ctx.driver = None
    try:
        chunk = [(f'corpus{ix}', case['model'], case.get('globals', {}), ['corpus']) for ix, case in enumerate(load_corpus())]
        for ix in range(n):
            model, tags = random_model(rng)
            if has_includes(model['statements']):
                continue
            # the case id is the compact JSON text of the model (models are big: never keep many of them alive)
            chunk.append((json.dumps(['random', ix, model], separators=(',', ':')), model, progen.random_globals(rng), tags))
            if len(chunk) >= 400:
                run_chunk(ctx, name, st, chunk, 300, 3000, jumps_taken_possible)
                chunk = []
        if chunk:
            run_chunk(ctx, name, st, chunk, 300, 3000, jumps_taken_possible)
    finally:
        ctx.driver = saved_driver


# ---------------------------------------------------------------------------------------------------------------------
# witnesses: the one that goes into the replay file is small enough to be stored whole and fails again in a fresh process
# ---------------------------------------------------------------------------------------------------------------------

REPLAY_LIMIT = 18000         # fw stores the first witness whole only below 20000 characters


def witness_size(w):
    return len(json.dumps(w, default=str))


def shrink_witness(w, max_replays=400):
    """Greedy statement deletion (any list of the model, the history first) while the same oracle still fails."""
    inp = w['input']
    if 'shared' in inp or 'model' not in inp or w['oracle'] not in ('model-immutable', 'repeatable', 'documented-statement-semantics'):
        return w
    validate = fw.impl()['model'].validate_script

    def still_fails(candidate):
        try:
            validate(candidate['input']['model'])
            return replay(copy.deepcopy(candidate))
        except Exception:  # pylint: disable=broad-except
            return False
    best = copy.deepcopy(w)
    replays = 0
    if best['input'].get('history'):
        trial = copy.deepcopy(best)
        trial['input']['history'] = []
        replays += 1
        if still_fails(trial):
            best = trial
    progress = True
    while progress and replays < max_replays:
        progress = False
        n_lists = len(list(all_lists(best['input']['model']['statements'])))
        for li in range(n_lists):
            ix = len(list(all_lists(best['input']['model']['statements']))[li]) - 1
            while ix >= 0 and replays < max_replays:
                trial = copy.deepcopy(best)
                del list(all_lists(trial['input']['model']['statements']))[li][ix]
                replays += 1
                if still_fails(trial):
                    best = trial
                    progress = True
                    if len(list(all_lists(best['input']['model']['statements']))) != n_lists:
                        break                      # a function definition went away: the lists are renumbered
                ix -= 1
            if len(list(all_lists(best['input']['model']['statements']))) != n_lists:
                break
    if best['input'] != w['input']:
        for earlier in best['input'].get('history', []):
            run_impl(copy.deepcopy(earlier), best['input']['globals'], best['input']['max'])
        _, bad = impl_oracles(copy.deepcopy(best['input']['model']), best['input']['globals'], best['input']['max'])
        for name, expected, actual in bad:
            if name == best['oracle']:
                best['expected'], best['actual'] = expected, actual
        best['shrunk'] = f'statements deleted while the oracle still failed ({witness_size(w)} -> {witness_size(best)} characters)'
    return best


def replays_in_fresh_process(w):
    """python harness/check.py C08 --replay <file> in a new interpreter (same VERIF_REPO): does the witness fail there too?"""
    import subprocess
    import sys
    import tempfile
    harness = os.path.dirname(os.path.dirname(os.path.abspath(__file__)))
    with tempfile.NamedTemporaryFile('w', suffix='.json', delete=False, encoding='utf-8') as fh:
        json.dump({'property': ID, 'kind': 'failing-input', 'witness': w}, fh, default=str)
    try:
        res = subprocess.run([sys.executable, os.path.join(harness, 'check.py'), ID, '--replay', fh.name], cwd=os.path.dirname(harness),
                             capture_output=True, text=True, timeout=120, check=False)
        return res.returncode == 1 and 'VIOLATION' in res.stdout
    except Exception:  # pylint: disable=broad-except
        return False
    finally:
        os.unlink(fh.name)


def order_witnesses(ctx):
    """Only when the property failed: smallest witnesses first; the first one is shrunk below the replay-file limit if needed and
    is one that was seen to fail again in a fresh interpreter (a defect that depends on object addresses or on state left by
    earlier executions may not repeat there), trying the smallest witness of every oracle and then the next smallest ones."""
    if not ctx.witnesses:
        return
    ordered = sorted(ctx.witnesses, key=witness_size)
    candidates, seen = [], set()
    for w in ordered:
        if w['oracle'] not in seen:
            seen.add(w['oracle'])
            candidates.append(w)
    candidates += [w for w in ordered if not any(w is c for c in candidates)][:4]
    for w in candidates[:12]:
        small = shrink_witness(w) if witness_size(w) > REPLAY_LIMIT else w
        if witness_size(small) <= REPLAY_LIMIT and replays_in_fresh_process(small):
            ordered = [small] + [o for o in ordered if o is not w]
            break
    ctx.witnesses[:] = ordered


def streams(ctx):
    try:
        stream_directed(ctx)
        stream_exhaustive(ctx)
        stream_random(ctx, ctx.scale(600, 16000))
    finally:
        order_witnesses(ctx)


def disagreement_known(d, known):
    return False


def search(ctx):
    """Something broke and no witness yet: run the implementation-only oracles with a larger budget."""
    saved = ctx.quick
    try:
        ctx.quick = True
        stream_directed(ctx, driver=False)
        if not ctx.witnesses:
            stream_exhaustive(ctx, driver=False)
        if not ctx.witnesses:
            stream_random(ctx, 6000 if saved else 60000, driver=False, name='search-random')
        order_witnesses(ctx)
    finally:
        ctx.quick = saved


def replay(witness):
    inp = witness['input']
    if 'shared' in inp:                         # rebuild the object graph with the shared jump object (JSON cannot hold it)
        _, bad = impl_oracles(build_shared(*inp['shared']), inp['globals'], inp['max'], json_copy=True)
        return any(name == witness['oracle'] for name, _, _ in bad)
    if witness['oracle'] == 'call-without-args-is-call-with-no-arguments':
        def with_args(e):
            if isinstance(e, list):
                return [with_args(x) for x in e]
            if isinstance(e, dict):
                out = {k: with_args(v) for k, v in e.items()}
                if len(e) == 1 and 'function' in e and 'statements' not in e['function']:
                    out['function'].setdefault('args', [])
                return out
            return e
        return run_impl(with_args(inp['model']), inp['globals'], inp['max']) != run_impl(inp['model'], inp['globals'], inp['max'])
    if witness['oracle'] in ('parameter-binding', 'callee-sees-only-its-parameters'):
        got = run_impl(inp['model'], inp['globals'], inp['max'])
        seen = {key: got.get(key, got.get('error', got.get('hostexc'))) for key in ('result', 'log')}
        if witness['oracle'] == 'parameter-binding':
            return seen != inp['expect']
        base = run_impl(inp['base_model'], inp['base_globals'], inp['max'])
        return seen != {key: base.get(key, base.get('error', base.get('hostexc'))) for key in ('result', 'log')}
    if witness['oracle'] == 'fresh-value-each-evaluation':
        return fresh_oracle(run_impl(inp['model'], inp['globals'], inp['max'])) is not None
    # first with short-lived copies, as in the streams (the earlier model is garbage when the model is built, so that object
    # addresses can be reused), then with all the objects of the witness alive
    if inp.get('history'):
        for earlier in inp['history']:
            transient = json.loads(json.dumps(earlier))
            run_impl(transient, inp['globals'], inp['max'])
            del transient
        _, bad = impl_oracles(json.loads(json.dumps(inp['model'])), inp['globals'], inp['max'])
        if any(name == witness['oracle'] for name, _, _ in bad):
            return True
    for earlier in inp.get('history', []):
        run_impl(earlier, inp['globals'], inp['max'])
    _, bad = impl_oracles(inp['model'], inp['globals'], inp['max'])
    return any(name == witness['oracle'] for name, _, _ in bad)


LEVEL_TEXT = ('Theorems about the Lean mirror of _execute_script_helper/_script_function, for every program, host, state and fuel: the '
              'per-invocation label cache is unobservable (execM with any cache valid for the list being run = the cache-free documented '
              'semantics execM0; callValue, execIncludes and execute likewise); a taken jump finds index i iff statement i is the first '
              '"label l" of the SAME list, and raises Unknown jump label iff the list has none (with duplicates the first wins); one-step '
              'lemmas for every statement kind (order, assignment scope, return ends only the current list and the call evaluates to its '
              'value, function statement binds the global, budget test first); a script-function call runs its own body from index 0 with '
              'labels resolved in that body only - the caller list is not an input of the callee. Tied to the code by differential '
              'correspondence on hand-built validated models: every statement list of length <= 4 over 14 atoms (quick), + length 5 over 10 '
              'atoms and length 6 over 9 atoms (thorough), random models <= 40 statements with duplicate labels, dangling jumps, dropped call '
              'arguments and in-place modification of every assigned value; directed families (duplicate labels, shared statement objects, '
              'calls without args, the call-arity x parameter-name x globals matrix, container-building expressions re-evaluated after an '
              'in-place modification); implementation oracles: independent reference statement interpreter, model dicts unchanged, two '
              'executions identical, closed-form parameter binding, independence of a function from globals named like its parameters, '
              'same fresh value at every evaluation.')
LEVEL_NOTE = ('Trusted: Lean kernel; the correspondence harness, its reference interpreter and generators. The theorems are about the Lean '
              'model; model immutability and repeatability are properties of the Python objects and are checked by sampling only '
              '(exec_deterministic is trivial in Lean). Expressions are evaluated by the implementation in the reference interpreter. '
              'Python recursion limit not modelled.')
