"""C08 - jump-level models execute by the documented statement semantics."""

import copy
import functools
import itertools
import json
import os
import signal

import fw
import progen

ID = 'C08'
LEVEL = 'proof'
LEAN_TARGETS = ['BareProofs.C08']
DRIVER = 'drv_c01'
DRIVER_ROOT = 'Drv.C01'
GEN = []
THEOREMS = [
    'C08.cache_transparent', 'C08.cache_transparent_nil', 'C08.callValue_eq', 'C08.execIncludes_eq', 'C08.execute_eq',
    'C08.cache_stays_valid',
    'C08.unknown_label_iff', 'C08.findLabel_some_iff', 'C08.first_label_wins',
    'C08.step_end', 'C08.step_exceeded', 'C08.step_label', 'C08.step_expr', 'C08.step_assign_global', 'C08.step_assign_local',
    'C08.function_stmt_binds_global', 'C08.step_return_none', 'C08.step_return_some', 'C08.jump_taken', 'C08.jumpif_step',
    'C08.jump_unknown', 'C08.jump_known',
    'C08.jumps_stay_in_scope', 'C08.return_ends_only_current', 'C08.return_in_include_ends_only_include',
    'C08.callee_independent_of_caller_list', 'C08.exec_deterministic',
]
ASSUMPTIONS = [
    'expression evaluation is shared between the reference statement interpreter and the implementation (C08 is about statements; '
    'operators and the library are C03/C15): the reference interpreter calls evaluate_expression for expressions',
    'numbers in generated programs are exactly representable, so the rational arithmetic of the Lean host equals float arithmetic',
    'immutability of the Python model dicts and run-to-run determinism are properties of the implementation only (in Lean a model is '
    'an immutable value and execute is a function): checked by deep-copy/compare and by executing every model twice',
    'negative zero is not modelled by the rational host: "-0" in log lines and in strings built from numbers is compared as "0" (number text is C12/C13); values '
    'that contain themselves (F18) are not compared',
    'Python recursion limit is not modelled: generated models have no unbounded recursion (DESIGN section 6); the session and '
    're-binding families nest at most 51 / 67 script function calls',
    're-use of one options dict by the host, host calls of script functions after a run and host callables (hostApply / hostTry / '
    'hostFail) are not expressible in the Lean model (it executes one model from one state): implementation-side oracles only - every '
    'step must equal the same step on new options and the prediction of the independent statement interpreter RbSim',
    'reading of "statements run in order" for the statements that an ARGUMENT of a call executes (family H): they have run when the '
    'pending call is made, so the call reaches what its name is bound to after its arguments were evaluated, left to right (RbSim and '
    'the Lean evaluator agree on this order); the error reported when the callee is undefined AND an argument fails is the '
    "argument's (sub-cases effect-only / fails pin this order of the implementation, it is not spelt out in the property statement)",
]
TRUSTED = ['reference statement interpreter (first label of that name in the same list, unknown-label error, return, function '
           'binding, per-list label scope) and the model enumerator/mutator in harness/props/C08.py (the property oracle)',
           'RbSim, the statement interpreter with its own expression evaluator for the abstract re-binding / session programs, their '
           'renderer to jump-level models and to include text (the parse of the text is checked against the rendered model)']

MAX_EXH = 60
CORPUS = os.path.join(os.path.dirname(os.path.dirname(os.path.abspath(__file__))), 'corpus', 'C08.jsonl')


# ---------------------------------------------------------------------------------------------------------------------
# hand-built models: the alphabet of the exhaustive stream
# ---------------------------------------------------------------------------------------------------------------------

def e_call(name, *args):
    return {'function': {'name': name, 'args': list(args)}}


def s_log(text):
    return {'expr': {'expr': e_call('systemLog', {'string': text})}}


X = {'variable': 'x'}
X_PLUS_1 = {'binary': {'op': '+', 'left': X, 'right': {'number': 1}}}
X_LT_2 = {'binary': {'op': '<', 'left': X, 'right': {'number': 2}}}


def s_func(body):
    return {'function': {'name': 'f', 'statements': body}}


FUNC_BODIES = {
    # label of the same name as a caller label; returns a constant
    'fA': [{'label': 'L1'}, {'return': {'expr': {'number': 5}}}],
    # jump inside the body to a label of the body
    'fB': [{'jump': {'label': 'L1'}}, {'label': 'L1'}],
    # dangling jump inside the body (L2 may exist in the caller: it must NOT be found)
    'fC': [{'jump': {'label': 'L2'}}, s_log('f')],
    # assignment inside a function is local; return ends only the function
    'fD': [{'expr': {'name': 'x', 'expr': X_PLUS_1}}, {'return': {'expr': X}}],
    # a loop inside the body around its own L1 (runs into the statement budget while the global x < 2)
    'fE': [{'label': 'L1'}, {'jump': {'label': 'L1', 'expr': X_LT_2}}],
}

ATOMS = {
    'log': s_log('a'),
    'inc': {'expr': {'name': 'x', 'expr': X_PLUS_1}},
    'j1': {'jump': {'label': 'L1'}},
    'j2': {'jump': {'label': 'L2'}},
    'ji1': {'jump': {'label': 'L1', 'expr': X_LT_2}},
    'l1': {'label': 'L1'},
    'l2': {'label': 'L2'},
    'ret': {'return': {'expr': X}},
    'call': {'expr': {'expr': e_call('f')}},
}
for _name, _body in FUNC_BODIES.items():
    ATOMS[_name] = s_func(_body)

BASE = ['log', 'inc', 'j1', 'j2', 'ji1', 'l1', 'l2', 'ret', 'call']
FULL = BASE + sorted(FUNC_BODIES)            # 14 atoms
SMALL = BASE + ['fC']                        # 10 atoms (one function variant): length 5
NINE = [n for n in SMALL if n != 'j2']       # 9 atoms (the alphabet of DESIGN section 9 + the call): length 6
# renaming L1 <-> L2: defined on the atoms whose image is again an atom
SWAP = {'log': 'log', 'inc': 'inc', 'ret': 'ret', 'call': 'call', 'j1': 'j2', 'j2': 'j1', 'l1': 'l2', 'l2': 'l1', 'fD': 'fD'}


def build(names):
    """The atoms are shared between the enumerated models on purpose (cheap): any in-place mutation by the implementation is
    reported by the model-immutable oracle on the spot."""
    return {'statements': [ATOMS[n] for n in names]}


def canonical_under_swap(names, alphabet_index):
    """False iff the L1<->L2 renaming of the list is also enumerated and comes earlier (then this list is pruned)."""
    if any(n not in SWAP or SWAP[n] not in alphabet_index for n in names):
        return True
    img = [SWAP[n] for n in names]
    return [alphabet_index[n] for n in names] <= [alphabet_index[n] for n in img]


def enumerate_lists(alphabet, lengths, prune):
    index = {n: i for i, n in enumerate(alphabet)}
    for k in lengths:
        for names in itertools.product(alphabet, repeat=k):
            if prune and not canonical_under_swap(names, index):
                yield names, True
            else:
                yield names, False


# ---------------------------------------------------------------------------------------------------------------------
# running the implementation (light-weight variant of progen.run_impl) and the reference interpreter
# ---------------------------------------------------------------------------------------------------------------------

def _script_function(ref, fn_model, args, unused_options):
    """The reference interpreter's script function.  It is bound with functools.partial and is deliberately NAMED like the
    implementation's, so that progen.value_to_wire shows it as {'f': 'script'} (same rendering, cycles included)."""
    locals_ = {}
    params = fn_model.get('args') or []
    last = len(params) - 1
    for ix, param in enumerate(params):
        if fn_model.get('lastArgArray') and ix == last:
            locals_[param] = list(args[ix:])
        else:
            locals_[param] = args[ix] if ix < len(args) else None
    return ref.run(fn_model['statements'], locals_)


class Hang(BaseException):
    """Raised by the CPU-time watchdog inside a run of the implementation (BaseException: the call wrapper of the runtime
    swallows Exception)."""


HANG_SECONDS = 10
HANGS = [0]


def _on_vtalrm(unused_sig, unused_frame):
    raise Hang()


def guarded(fn):
    """Run fn() under a CPU-time watchdog: a run that the statement budget fails to stop must not hang the check."""
    signal.signal(signal.SIGVTALRM, _on_vtalrm)
    signal.setitimer(signal.ITIMER_VIRTUAL, HANG_SECONDS)
    try:
        return fn()
    finally:
        signal.setitimer(signal.ITIMER_VIRTUAL, 0)


def user_globals(g, wire=None):
    """The user-visible globals (library bindings left out), sorted, in wire form."""
    lib = fw.impl()['library'].SCRIPT_FUNCTIONS
    try:
        pairs = g.items() - lib.items()                # C speed; needs hashable values
    except TypeError:
        pairs = [(k, v) for k, v in g.items() if not (k in lib and v is lib[k])]
    return sorted([[k, progen.value_to_wire(v, lib)] for k, v in pairs if not (k in lib and v is lib[k])], key=lambda kv: kv[0])


def run_impl(model, globals_, max_statements):
    mods = fw.impl()
    runtime, library, parser = mods['runtime'], mods['library'], mods['parser']
    log = []
    g = copy.deepcopy(globals_)
    options = {'globals': g, 'maxStatements': max_statements, 'logFn': log.append}
    out = {}
    try:
        out['result'] = progen.value_to_wire(guarded(lambda: runtime.execute_script(model, options)), library.SCRIPT_FUNCTIONS)
    except runtime.BareScriptRuntimeError as exc:
        out['error'] = str(exc)
    except parser.BareScriptParserError as exc:
        out['error'] = 'ParserError ' + str(exc).split('\n', 1)[0]
    except Hang:
        HANGS[0] += 1
        out['hostexc'] = f'Hang: still running after {HANG_SECONDS} s of CPU time under maxStatements={max_statements}'
    except RecursionError:
        out['hostexc'] = 'RecursionError'
    except Exception as exc:  # pylint: disable=broad-except
        out['hostexc'] = type(exc).__name__ + ': ' + str(exc)[:200]
    out['log'] = log
    out['globals'] = user_globals(g)
    out['count'] = options.get('statementCount')
    return out


class RefStatements:
    """The documented statement semantics, written from the property statement:
    statements run in order; a jump whose optional condition is truthy continues after the FIRST label of that name in the
    SAME statement list, or raises 'Unknown jump label'; return ends the current script or function with its optional value;
    a function statement binds a global function; a function body is its own statement list (jumps never cross).
    One statement counter for everything, budget error when statement max+1 would start (so that looping models compare)."""

    def __init__(self, options, max_statements):
        self.mods = fw.impl()
        self.options = options
        self.max = max_statements
        self.count = 0
        self.error = self.mods['runtime'].BareScriptRuntimeError

    def ev(self, expr, locals_):
        return self.mods['runtime'].evaluate_expression(expr, self.options, locals_, False)

    def run(self, statements, locals_):
        first = {}
        for ix, stmt in enumerate(statements):
            if 'label' in stmt and stmt['label'] not in first:
                first[stmt['label']] = ix
        pc = 0
        while pc < len(statements):
            stmt = statements[pc]
            self.count += 1
            if self.max > 0 and self.count > self.max:
                raise self.error(f'Exceeded maximum script statements ({self.max})')
            (kind, body), = stmt.items()
            if kind == 'expr':
                value = self.ev(body['expr'], locals_)
                if body.get('name') is not None:
                    if locals_ is not None:
                        locals_[body['name']] = value
                    else:
                        self.options['globals'][body['name']] = value
            elif kind == 'jump':
                if 'expr' not in body or self.mods['value'].value_boolean(self.ev(body['expr'], locals_)):
                    if body['label'] not in first:
                        raise self.error(f'Unknown jump label "{body["label"]}"')
                    pc = first[body['label']] + 1
                    continue
            elif kind == 'return':
                return self.ev(body['expr'], locals_) if 'expr' in body else None
            elif kind == 'label':
                pass
            elif kind == 'function':
                self.options['globals'][body['name']] = self.make_function(body)
            else:
                raise NotImplementedError(kind)
            pc += 1
        return None

    def make_function(self, fn_model):
        return functools.partial(_script_function, self, fn_model)


def run_reference(model, globals_, max_statements):
    mods = fw.impl()
    library = mods['library']
    log = []
    g = copy.deepcopy(globals_)
    for name, fn in library.SCRIPT_FUNCTIONS.items():
        if name not in g:
            g[name] = fn
    options = {'globals': g, 'maxStatements': 0, 'logFn': log.append, 'statementCount': 0}
    ref = RefStatements(options, max_statements)
    out = {}
    try:
        out['result'] = progen.value_to_wire(ref.run(model['statements'], None), library.SCRIPT_FUNCTIONS)
    except mods['runtime'].BareScriptRuntimeError as exc:
        out['error'] = str(exc)
    except RecursionError:
        return None
    out['log'] = log
    out['globals'] = user_globals(g)
    out['count'] = ref.count
    return out


def impl_oracles(model, globals_, max_statements, json_copy=False):
    """The property's own oracles on the implementation. -> (impl outcome, [(oracle, expected, actual)])
    json_copy: the model shares statement objects between lists; it must behave exactly like its JSON deep copy."""
    before = json.dumps(model, sort_keys=True)          # exact structural snapshot (ints and floats print differently)
    first = run_impl(model, globals_, max_statements)
    bad = []
    if first.get('hostexc', '').startswith('Hang'):
        return first, [('run-stops-within-budget', f'at most {max_statements} statements start', first['hostexc'])]
    second = run_impl(model, globals_, max_statements)
    after = json.dumps(model, sort_keys=True)
    if after != before:
        bad.append(('model-immutable', json.loads(before), json.loads(after)))
        model = json.loads(before)
    if second != first:
        bad.append(('repeatable', first, second))
    if json_copy:
        plain = run_impl(json.loads(before), globals_, max_statements)
        if plain != first:
            bad.append(('same-as-json-copy', plain, first))
    if 'hostexc' not in first:
        ref = run_reference(model, globals_, max_statements)
        if ref is not None and ref != first:
            bad.append(('documented-statement-semantics', ref, first))
    return first, bad


def has_includes(statements):
    for stmt in statements:
        if 'include' in stmt:
            return True
        if 'function' in stmt and has_includes(stmt['function']['statements']):
            return True
    return False


# ---------------------------------------------------------------------------------------------------------------------
# directed families
#  (A) dup-label: a duplicated label, a second label after the duplicate, a jump to the second label before any jump to the
#      duplicated one (an index of labels that is filled incrementally / last-wins goes wrong only on such lists)
#  (B) shared-objects: hand-built models in which THE SAME jump dict object sits in two statement lists (the global list and a
#      function body, or two function bodies) with the label at different positions, or missing, in the two lists
# ---------------------------------------------------------------------------------------------------------------------

DUP_ATOMS = ['jA', 'jB', 'lA', 'lB', 'ret', 'inc', 'jiA']


def dup_shape(names):
    at_a = [i for i, n in enumerate(names) if n == 'lA']
    if len(at_a) < 2 or not any(n == 'lB' and i > at_a[1] for i, n in enumerate(names)):
        return False
    to_b = [i for i, n in enumerate(names) if n == 'jB']
    to_a = [i for i, n in enumerate(names) if n in ('jA', 'jiA')]
    return bool(to_b) and bool(to_a) and to_b[0] < to_a[0]


def dup_statement(name, pos):
    if name == 'ret':
        return {'return': {'expr': {'number': pos}}}             # which return ran is visible in the result
    return {'jA': ATOMS['j1'], 'jB': ATOMS['j2'], 'lA': ATOMS['l1'], 'lB': ATOMS['l2'], 'inc': ATOMS['inc'], 'jiA': ATOMS['ji1']}[name]


def dup_model(names, in_function):
    stmts = [dup_statement(n, i) for i, n in enumerate(names)]
    if in_function:
        return {'statements': [{'function': {'name': 'f', 'statements': stmts}}, {'return': {'expr': e_call('f')}}]}
    return {'statements': stmts}


def dup_cases(ctx):
    """quick: every shaped list of length 5..7 at top level and of length 5..6 inside a function body;
    thorough: length 5..7 in both scopes + a sample of length 8"""
    rng = ctx.rng('dup-label')
    for k in (5, 6, 7):
        for names in itertools.product(DUP_ATOMS, repeat=k):
            if dup_shape(names):
                yield names, False
                if k < 7 or not ctx.quick:
                    yield names, True
    if not ctx.quick:
        for _ in range(40000):
            names = tuple(rng.choice(DUP_ATOMS) for _ in range(8))
            if dup_shape(names):
                yield names, rng.random() < 0.5


SHARED_TEMPLATES = {
    # J = the shared jump object; logs carry the list name and the position
    'after': ['J', 'log', 'L', 'log'],
    'next': ['J', 'L', 'log'],
    'missing': ['log', 'J', 'log'],
    'loop': ['L', 'inc', 'J', 'log'],
    'end': ['J', 'log', 'log', 'L'],
    'dup': ['L', 'log', 'J', 'L', 'log'],
}


def shared_list(template, jump, tag):
    out = []
    for pos, item in enumerate(SHARED_TEMPLATES[template]):
        if item == 'J':
            out.append(jump)                                      # the SAME object in every list
        elif item == 'L':
            out.append({'label': 'L1'})
        elif item == 'inc':
            out.append({'expr': {'name': 'x', 'expr': X_PLUS_1}})
        else:
            out.append(s_log(f'{tag}{pos}'))
    return out


def build_shared(scope, t_one, t_two, conditional, order):
    """scope 'main-f': lists = global list and body of f; 'f-g': bodies of f and g.  order: which list runs first."""
    jump = {'jump': {'label': 'L1', 'expr': X_LT_2}} if conditional else {'jump': {'label': 'L1'}}
    one, two = shared_list(t_one, jump, 'p'), shared_list(t_two, jump, 'q')
    call_f, call_g = {'expr': {'expr': e_call('f')}}, {'expr': {'expr': e_call('g')}}
    if scope == 'main-f':
        fdef = {'function': {'name': 'f', 'statements': two}}
        if order == 'first':            # the body runs before the global list reaches the shared jump
            return {'statements': [fdef, call_f] + one + [call_f]}
        return {'statements': [fdef] + one + [call_f]}
    fdef = {'function': {'name': 'f', 'statements': one}}
    gdef = {'function': {'name': 'g', 'statements': two}}
    calls = [call_f, call_g, call_f] if order == 'first' else [call_g, call_f, call_g]
    return {'statements': [fdef, gdef] + calls}


def shared_cases():
    for scope in ('main-f', 'f-g'):
        for t_one in SHARED_TEMPLATES:
            for t_two in SHARED_TEMPLATES:
                for conditional in (False, True):
                    for order in ('first', 'second'):
                        yield [scope, t_one, t_two, conditional, order]


# (C) argless calls: the schema makes 'args' optional on a call expression; a call without the member is a call with no arguments
def _argless(expr):
    """deep copy of a model in which every call with an empty argument list has its 'args' member removed"""
    if isinstance(expr, list):
        return [_argless(e) for e in expr]
    if isinstance(expr, dict):
        out = {k: _argless(v) for k, v in expr.items()}
        if set(out) >= {'name', 'args'} and out['args'] == [] and 'statements' not in out:
            del out['args']
        return out
    return expr


def argless_cases():
    """(case, model with args: [] everywhere) - script functions with 0 / 1 / variadic parameters called with no arguments, from
    the top level and from a function, and library functions called with no arguments"""
    log_a = {'expr': {'expr': e_call('systemLog', {'variable': 'a'})}}
    fdefs = {
        'f()': {'function': {'name': 'f', 'statements': [s_log('in f'), {'return': {'expr': {'number': 3}}}]}},
        'f(a)': {'function': {'name': 'f', 'args': ['a'], 'statements': [log_a, s_log('in f'), {'return': {'expr': {'number': 3}}}]}},
        'f(a...)': {'function': {'name': 'f', 'args': ['a'], 'lastArgArray': True,
                                 'statements': [{'expr': {'expr': e_call('systemLog', e_call('arrayLength', {'variable': 'a'}))}},
                                                {'return': {'expr': {'variable': 'a'}}}]}},
        'f(a,b)': {'function': {'name': 'f', 'args': ['a', 'b'], 'statements': [log_a, {'return': {'expr': {'variable': 'b'}}}]}},
    }
    g_def = {'function': {'name': 'g', 'statements': [{'return': {'expr': e_call('f')}}]}}
    for fname, fdef in fdefs.items():
        yield ['argless', fname, 'top'], {'statements': [fdef, {'expr': {'name': 'x', 'expr': e_call('f')}}, s_log('after'), {'return': {'expr': X}}]}
        yield ['argless', fname, 'nested'], {'statements': [fdef, g_def, {'expr': {'name': 'x', 'expr': e_call('g')}}, {'return': {'expr': X}}]}
        yield ['argless', fname, 'jumpif'], {'statements': [fdef, {'jump': {'label': 'L1', 'expr': e_call('f')}}, s_log('not taken'),
                                                            {'label': 'L1'}, {'return': {'expr': X}}]}
    for lib in ('arrayNew', 'objectNew', 'systemLog', 'arrayLength', 'systemType', 'systemBoolean', 'arrayPop', 'systemGlobalGet'):
        yield ['argless', lib, 'lib'], {'statements': [{'expr': {'name': 'x', 'expr': e_call(lib)}},
                                                       {'expr': {'expr': e_call('systemLog', e_call('systemType', X))}},
                                                       {'return': {'expr': X}}]}


# (D) call-arity matrix: a script function with k parameters called with m arguments, for every k, m, lastArgArray spelling,
#     parameter-name class (fresh / named like global variables / named like global functions), globals configuration (none /
#     supplied by the host / assigned by the script) and caller (top level / a function whose own locals carry the same names /
#     a systemPartial value).  The body reports every parameter (type, conditional jump on "is it null", value) and assigns to one.
#     Closed-form oracle from the calling convention: parameter i is argument i, null when there is no argument i, the rest
#     array for the last parameter of a lastArgArray function; metamorphic oracle: what the function sees does not depend on
#     the globals at all.
PARAM_SETS = {'fresh': ['p', 'q', 'r'], 'like-globals': ['a', 'n', 'y'], 'like-functions': ['f', 'g', 'tr']}
ARITY_GLOBALS = {'p': 'Gp', 'q': 101, 'r': [1], 'a': 'Ga', 'n': 102, 'y': {'k': 1}, 'tr': True}
LAA_SPELLINGS = {'laa-absent': None, 'laa-false': False, 'laa-true': True}


def e_str(text):
    return {'string': text}


def e_var(name):
    return {'variable': name}


def e_bin(op, left, right):
    return {'binary': {'op': op, 'left': left, 'right': right}}


def s_assign(name, expr):
    return {'expr': {'name': name, 'expr': expr}}


def s_expr(expr):
    return {'expr': {'expr': expr}}


def arity_model(pset, k, laa, m, gconf, caller):
    params = PARAM_SETS[pset][:k]
    body = []
    for ix, p in enumerate(params):
        body += [s_expr(e_call('systemLog', e_bin('+', e_str(p + ' '), e_call('systemType', e_var(p))))),
                 {'jump': {'label': 'has%d' % ix, 'expr': e_bin('!=', e_var(p), e_var('null'))}},
                 s_expr(e_call('systemLog', e_str(p + ' is null'))),
                 {'label': 'has%d' % ix}]
    body.append(s_assign('res', e_call('arrayNew', *[e_var(p) for p in params])))
    if params:
        body.append(s_assign(params[-1], e_str('assigned in f')))          # local: the global of that name must not change
        body.append(s_expr(e_call('systemLog', e_var(params[-1]))))
    body.append({'return': {'expr': e_var('res')}})
    fdef = {'name': 'f', 'statements': body}
    if k:                                                                # the schema wants a non-empty args member
        fdef['args'] = params
    if LAA_SPELLINGS[laa] is not None:
        fdef['lastArgArray'] = LAA_SPELLINGS[laa]
    stmts = []
    if gconf == 'script':
        stmts += [s_assign(name, e_str('S' + name)) for name in ('p', 'q', 'r', 'a', 'n', 'y')]
    stmts.append({'function': fdef})
    args = [{'number': 11 + ix} for ix in range(m)]
    if caller == 'top':
        stmts.append(s_assign('out', e_call('f', *args)))
    elif caller == 'nested':
        # the caller's own locals have the names of the callee's parameters (all three, non-null) and it passes the first m
        own = PARAM_SETS[pset]
        stmts.append({'function': {'name': 'g', 'args': own + ['extra'], 'statements': [
            s_assign('own', e_str('local of g')),
            {'return': {'expr': e_call('f', *([e_var(v) for v in own] + [e_var('extra')])[:m])}}]}})
        stmts.append(s_assign('out', e_call('g', {'number': 11}, {'number': 12}, {'number': 13}, {'number': 14})))
    else:                                                                # 'partial': the first argument is bound by systemPartial
        stmts.append(s_assign('h', e_call('systemPartial', e_var('f'), args[0])))
        stmts.append(s_assign('out', e_call('h', *args[1:])))
    stmts.append(s_expr(e_call('systemLog', e_bin('+', e_str('after '), e_call('systemType', e_var('out'))))))
    stmts.append({'return': {'expr': e_var('out')}})
    return {'statements': stmts}


def arity_expected(pset, k, laa, m):
    """(result, log) by the calling convention, as Python values"""
    params = PARAM_SETS[pset][:k]
    args = [11 + ix for ix in range(m)]
    bound = []
    for ix in range(k):
        if LAA_SPELLINGS[laa] and ix == k - 1:
            bound.append(args[ix:])
        else:
            bound.append(args[ix] if ix < m else None)
    log = []
    for p, v in zip(params, bound):
        log.append(p + ' ' + ('null' if v is None else 'array' if isinstance(v, list) else 'number'))
        if v is None:
            log.append(p + ' is null')
    if params:
        log.append('assigned in f')
    log.append('after array')
    return bound, log


def arity_cases():
    for pset in PARAM_SETS:
        for k in range(4):
            for laa in LAA_SPELLINGS:
                for m in range(k + 2):
                    for caller in ('top', 'nested', 'partial'):
                        # partial: needs a first argument; like-functions: a caller with a local named f could not call f
                        if (caller == 'partial' and m == 0) or (caller == 'nested' and pset == 'like-functions'):
                            continue
                        for gconf in ('none', 'host', 'script'):
                            yield [pset, k, laa, m, gconf, caller]


def arity_globals(gconf):
    return dict(ARITY_GLOBALS) if gconf == 'host' else {}


def arity_oracles(params, model, max_statements):
    """-> [(oracle, expected, actual, extra witness fields)]"""
    pset, k, laa, m, gconf, caller = params
    got = run_impl(model, arity_globals(gconf), max_statements)
    bad = []
    result, log = arity_expected(pset, k, laa, m)
    expected = {'result': progen.value_to_wire(result), 'log': log}
    actual = {key: got.get(key, got.get('error', got.get('hostexc'))) for key in ('result', 'log')}
    if actual != expected:
        bad.append(('parameter-binding', expected, actual, {'expect': expected}))
    if gconf != 'none':
        base_model = arity_model(pset, k, laa, m, 'none', caller)
        base = run_impl(base_model, {}, max_statements)
        seen_base = {key: base.get(key, base.get('error', base.get('hostexc'))) for key in ('result', 'log')}
        if actual != seen_base:
            bad.append(('callee-sees-only-its-parameters', seen_base, actual, {'base_model': base_model, 'base_globals': {}}))
    return bad


# (D2) call histories of ONE binding: the same function value (by name from the top level, by name from the body of another
#     function, through one systemPartial value) is called two or three times with DIFFERENT argument counts; every call reports
#     its parameters and a local, pushes to its rest array in place and finally assigns to every parameter and to the local.
#     Closed form from the calling convention, call by call: what a call sees depends on its own arguments only - an omitted
#     parameter is null (not what an earlier call got or assigned), an empty rest array is empty, a local starts undefined.
def hist_text(v):
    if v is None:
        return 'null'
    if isinstance(v, list):
        return '[' + ','.join(hist_text(x) for x in v) + ']'
    return str(v)


def hist_type(v):
    return 'null' if v is None else 'array' if isinstance(v, list) else 'number'


def hist_args(i, m, caller):
    args = [11 + 10 * i + ix for ix in range(m)]
    if caller == 'partial' and args:
        args[0] = 7                                                        # the argument bound by systemPartial
    return args


def history_model(k, laa, ms, caller):
    params = PARAM_SETS['fresh'][:k]
    body = [s_expr(e_call('systemLog', e_bin('+', e_bin('+', e_bin('+', e_str(p + ' '), e_call('systemType', e_var(p))), e_str(' ')), e_var(p))))
            for p in params]
    if params and LAA_SPELLINGS[laa]:
        body += [s_expr(e_call('arrayPush', e_var(params[-1]), {'number': 99})),
                 s_expr(e_call('systemLog', e_bin('+', e_str('pushed '), e_var(params[-1]))))]
    body += [s_assign('res', e_call('arrayNew', *[e_var(p) for p in params])),
             s_expr(e_call('systemLog', e_bin('+', e_str('loc '), e_var('loc')))),
             s_assign('loc', e_str('set'))]
    body += [s_assign(p, e_str('dirty')) for p in params]
    body.append({'return': {'expr': e_var('res')}})
    fdef = {'name': 'f', 'statements': body}
    if k:
        fdef['args'] = params
    if LAA_SPELLINGS[laa] is not None:
        fdef['lastArgArray'] = LAA_SPELLINGS[laa]
    stmts = [{'function': fdef}]
    if caller == 'partial':
        stmts.append(s_assign('h', e_call('systemPartial', e_var('f'), {'number': 7})))
    calls = []
    for i, m in enumerate(ms):
        args = [{'number': a} for a in hist_args(i, m, caller)]
        calls.append(s_assign('out%d' % i, e_call('h', *args[1:]) if caller == 'partial' else e_call('f', *args)))
    outs = {'return': {'expr': e_call('arrayNew', *[e_var('out%d' % i) for i in range(len(ms))])}}
    if caller == 'nested':
        stmts += [{'function': {'name': 'g', 'statements': calls + [outs]}}, {'return': {'expr': e_call('g')}}]
    else:
        stmts += calls + [outs]
    return {'statements': stmts}


def history_expected(k, laa, ms, caller):
    params = PARAM_SETS['fresh'][:k]
    results, log = [], []
    for i, m in enumerate(ms):
        args = hist_args(i, m, caller)
        bound = []
        for ix in range(k):
            if LAA_SPELLINGS[laa] and ix == k - 1:
                bound.append(args[ix:])
            else:
                bound.append(args[ix] if ix < m else None)
        for p, v in zip(params, bound):
            log.append(p + ' ' + hist_type(v) + ' ' + hist_text(v))
        if params and LAA_SPELLINGS[laa]:
            bound[-1] = bound[-1] + [99]
            log.append('pushed ' + hist_text(bound[-1]))
        log.append('loc null')
        results.append(bound)
    return {'result': progen.value_to_wire(results), 'log': log}


def history_cases():
    for k in range(4):
        for laa in LAA_SPELLINGS:
            for caller in ('top', 'nested', 'partial'):
                counts = range(1 if caller == 'partial' else 0, k + 2)
                seqs = [[a, b] for a in counts for b in counts] + [[k + 1, counts[0], k + 1], [k, counts[0], counts[0]], [counts[0], k, counts[0]]]
                for ms in seqs:
                    yield [k, laa, ms, caller]


# (E) fresh values: an expression that builds a container is evaluated several times (a loop, a function called twice, a second
#     execution of the model) and the container it returned is modified in place in between.  Every evaluation must yield the
#     same fresh value: a value that aliases a part of the model, of the function model or of an earlier evaluation shows as a
#     changed model, as a different second run or as a different value in the second iteration.
def fresh_producers():
    """name -> (expression, kind of the container that is mutated, expression that reaches it from variable a, definitions)"""
    a = e_var('a')
    rest = {'function': {'name': 'rest', 'args': ['r'], 'lastArgArray': True, 'statements': [{'return': {'expr': e_var('r')}}]}}
    rest2 = {'function': {'name': 'rest2', 'args': ['p', 'r'], 'lastArgArray': True, 'statements': [{'return': {'expr': e_var('r')}}]}}
    mk = {'function': {'name': 'mk', 'statements': [{'return': {'expr': e_call('arrayNew')}}]}}
    mko = {'function': {'name': 'mko', 'statements': [{'return': {'expr': e_call('objectNew')}}]}}
    ident = {'function': {'name': 'ident', 'args': ['v'], 'statements': [{'return': {'expr': e_var('v')}}]}}
    n1, n2 = {'number': 1}, {'number': 2}
    return {
        'arrayNew()': (e_call('arrayNew'), 'array', a, []),
        'arrayNew(1)': (e_call('arrayNew', n1), 'array', a, []),
        'arrayNew(1,2)': (e_call('arrayNew', n1, n2), 'array', a, []),
        'arrayNew(arrayNew())': (e_call('arrayNew', e_call('arrayNew')), 'array', e_call('arrayGet', a, {'number': 0}), []),
        'arrayCopy(arrayNew())': (e_call('arrayCopy', e_call('arrayNew')), 'array', a, []),
        'objectNew()': (e_call('objectNew'), 'object', a, []),
        'objectNew(k,1)': (e_call('objectNew', e_str('k'), n1), 'object', a, []),
        'objectNew(k,arrayNew())': (e_call('objectNew', e_str('k'), e_call('arrayNew')), 'array', e_call('objectGet', a, e_str('k')), []),
        'rest()': (e_call('rest'), 'array', a, [rest]),
        'rest(1,2)': (e_call('rest', n1, n2), 'array', a, [rest]),
        'rest2(1)': (e_call('rest2', n1), 'array', a, [rest2]),
        'mk()': (e_call('mk'), 'array', a, [mk]),
        'mko()': (e_call('mko'), 'object', a, [mko]),
        'ident(arrayNew())': (e_call('ident', e_call('arrayNew')), 'array', a, [ident]),
        'if(true,arrayNew())': (e_call('if', e_var('true'), e_call('arrayNew')), 'array', a, []),
        'null||arrayNew()': (e_bin('||', e_var('null'), e_call('arrayNew')), 'array', a, []),
        '(objectNew())': ({'group': e_call('objectNew')}, 'object', a, []),
    }


def fresh_mutators(kind):
    """name -> (call on the target expression t, modelled by the Lean host?)"""
    seven = {'number': 7}
    if kind == 'array':
        return {
            'arrayPush': (lambda t: e_call('arrayPush', t, seven), True),
            'arrayPush2': (lambda t: e_call('arrayPush', t, seven, e_str('s')), True),
            'arraySet': (lambda t: e_call('arraySet', t, {'number': 0}, seven), True),
            'arrayPop': (lambda t: e_call('arrayPop', t), True),
            'arrayShift': (lambda t: e_call('arrayShift', t), False),
            'arrayExtend': (lambda t: e_call('arrayExtend', t, e_call('arrayNew', seven, {'number': 8})), False),
            'arrayDelete': (lambda t: e_call('arrayDelete', t, {'number': 0}), False),
            'arraySort': (lambda t: e_call('arraySort', e_call('arrayPush', t, {'number': -7})), False),
        }
    return {
        'objectSet': (lambda t: e_call('objectSet', t, e_str('z'), seven), True),
        'objectSet-k': (lambda t: e_call('objectSet', t, e_str('k'), seven), True),
        'objectDelete': (lambda t: e_call('objectDelete', t, e_str('k')), False),
        'objectAssign': (lambda t: e_call('objectAssign', t, e_call('objectNew', e_str('z'), seven)), False),
    }


def fresh_model(producer, mutator, context):
    expr, kind, target, defs = fresh_producers()[producer]
    mutate = fresh_mutators(kind)[mutator][0](target)
    core = [s_assign('a', expr),
            s_expr(e_call('systemLog', e_bin('+', e_str('new '), e_var('a')))),
            s_expr(mutate),
            s_expr(e_call('systemLog', e_bin('+', e_str('mut '), e_var('a'))))]
    stmts = copy.deepcopy(defs)
    if context == 'rerun':                       # straight line: the second evaluation is the second execution of the model
        stmts += core + [{'return': {'expr': e_var('a')}}]
    elif context == 'loop':
        stmts += [{'label': 'top'}] + core + [s_assign('i', e_bin('+', e_var('i'), {'number': 1})),
                                              {'jump': {'label': 'top', 'expr': e_bin('<', e_var('i'), {'number': 3})}},
                                              {'return': {'expr': e_var('a')}}]
    elif context == 'function-twice':
        stmts += [{'function': {'name': 'work', 'statements': core + [{'return': {'expr': e_var('a')}}]}},
                  s_assign('one', e_call('work')), s_assign('two', e_call('work')),
                  {'return': {'expr': e_call('arrayNew', e_var('one'), e_var('two'))}}]
    else:                                        # 'condition': producer and mutation sit in a jump condition evaluated three times
        inline = fresh_mutators(kind)[mutator][0](expr)
        stmts += [{'label': 'top'}, s_assign('i', e_bin('+', e_var('i'), {'number': 1})),
                  {'jump': {'label': 'done', 'expr': e_bin('>', e_var('i'), {'number': 3})}},
                  s_expr(e_call('systemLog', e_bin('+', e_str('new '), expr))),
                  {'jump': {'label': 'top', 'expr': e_bin('||', e_bin('&&', s_assign('a', inline)['expr']['expr'], e_var('null')),
                                                          e_var('true'))}},
                  {'label': 'done'}, {'return': {'expr': e_var('i')}}]
    return {'statements': stmts}


def fresh_cases():
    for producer, (_, kind, target, _) in fresh_producers().items():
        for mutator, (_, modelled) in fresh_mutators(kind).items():
            for context in ('rerun', 'loop', 'function-twice', 'condition'):
                if context == 'condition' and target != e_var('a'):
                    continue
                yield [producer, mutator, context], modelled


def fresh_oracle(out):
    """every evaluation of the producer gave the same value and the same mutation result: -> None or (expected, actual)"""
    new = [line for line in out.get('log', []) if line.startswith('new ')]
    mut = [line for line in out.get('log', []) if line.startswith('mut ')]
    if len(set(new)) > 1 or len(set(mut)) > 1:
        return ({'new': new[:1] * len(new), 'mut': mut[:1] * len(mut)}, {'new': new, 'mut': mut})
    return None


def call_sites(node, out):
    """every call expression dict below a model / statement list / expression"""
    if isinstance(node, list):
        for item in node:
            call_sites(item, out)
    elif isinstance(node, dict):
        if len(node) == 1 and 'function' in node and 'statements' not in node['function']:
            out.append(node)
        for value in node.values():
            call_sites(value, out)
    return out


def poke_model(model):
    """Deep copy of the model in which every assignment `v = E` is followed by an in-place modification of the value, whatever
    built it: if(systemType(v) == 'array', arrayPush(v, 9), if(systemType(v) == 'object', objectSet(v, 'poke', 9))).
    A value that aliases the model, a function model or the value of another evaluation is then modified together with it."""
    def poke(name):
        v = e_var(name)
        kind = e_call('systemType', v)
        return s_expr(e_call('if', e_bin('==', kind, e_str('array')), e_call('arrayPush', v, {'number': 9}),
                             e_call('if', e_bin('==', kind, e_str('object')), e_call('objectSet', v, e_str('poke'), {'number': 9}))))

    def walk(statements):
        out = []
        for stmt in statements:
            if 'function' in stmt:
                stmt = {'function': dict(stmt['function'], statements=walk(stmt['function']['statements']))}
            out.append(stmt)
            if 'expr' in stmt and stmt['expr'].get('name') is not None:
                out.append(poke(stmt['expr']['name']))
        return out
    model = copy.deepcopy(model)
    return {'statements': walk(model['statements'])}


def stream_directed(ctx, driver=True):
    st = ctx.stream('exec-directed',
                    '(A) dup-label: statement lists over {jump L1, jump L2, label L1, label L2, return <position>, x=x+1, jumpif (x<2) L1} '
                    'with a duplicated L1, an L2 after the second L1 and a jump to L2 before any jump to L1 - all of length 5..7 (top '
                    'level; inside a function body: length 5..6 quick, 5..7 thorough) + 40000 sampled of length 8 (thorough); '
                    '(B) shared-objects: 288 hand-built models in which the same jump dict OBJECT sits in the global list and a function '
                    'body, or in two function bodies, with the label after / next / missing / before (loop) / at the end / duplicated; '
                    'same comparison and oracles, (B) additionally: identical to its JSON deep copy; (C) argless: 20 hand-built models '
                    'whose call expressions omit the optional args member (script functions with 0/1/2/variadic parameters called from '
                    'the top level, a function and a jump condition; 8 library functions), additionally: same outcome as with args: []; '
                    '(D) call-arity matrix: a script function with k = 0..3 parameters (named p/q/r, like the global variables a/n/y, or '
                    'like the global functions f/g/tr; lastArgArray absent/false/true) called with m = 0..k+1 arguments from the top '
                    'level, from a function whose own locals have the same names, and through systemPartial, with no globals / '
                    'host-supplied globals / script-assigned globals of the parameter names; the body reports each parameter (type, '
                    'conditional jump on != null), assigns to the last one and returns the array of them; additionally: closed-form '
                    'result and log from the calling convention (parameter-binding) and the same result and log as without any '
                    'globals (callee-sees-only-its-parameters); (D2) call histories of one binding: a function with k = 0..3 parameters '
                    '(lastArgArray absent/false/true) called two or three times with every pair of argument counts 0..k+1 (and three '
                    'triples) by name from the top level, by name from another function body, and through ONE systemPartial value; each '
                    'call reports its parameters and a local, pushes to its rest array in place, then assigns to every parameter and the '
                    'local; closed form call by call (parameter-binding): a call sees its own arguments only; (E) fresh values: 17 container-building expressions (arrayNew/objectNew '
                    'with 0..2 arguments, nested, through arrayCopy / a variadic script function / a script function / if() / || / a '
                    'group; with args: [] and without the args member) x in-place library functions (arrayPush/Set/Pop, objectSet on the '
                    'Lean host; arrayShift/Extend/Delete/Sort, objectDelete/Assign implementation-only) x re-evaluation by a second '
                    'execution / a three-round loop / a function called twice / a jump condition; additionally: every evaluation logs '
                    'the same new value and the same modified value (fresh-value-each-evaluation); '
                    'non-trivial = all')
    validate = fw.impl()['model'].validate_script
    saved_driver = ctx.driver
    if not driver:
        ctx.driver = None
    try:
        chunk = []
        for names, in_function in dup_cases(ctx):
            chunk.append((('f: ' if in_function else '') + ' '.join(names), dup_model(names, in_function), {'x': 0},
                          ['dup-label', 'in-function' if in_function else 'top-level', 'len%d' % len(names)]))
            if len(chunk) >= 20000:
                run_chunk(ctx, 'exec-directed', st, chunk, MAX_EXH, 400, lambda m, o: True)
                chunk = []
        if chunk:
            run_chunk(ctx, 'exec-directed', st, chunk, MAX_EXH, 400, lambda m, o: True)
        # (B): the driver sees the JSON text (no sharing); the implementation runs the object graph with sharing
        reqs, models = [], []
        for params in shared_cases():
            model = build_shared(*params)
            validate(model)
            models.append((params, model))
            reqs.append({'op': 'exec', 'script': progen.canon_script(model), 'globals': progen.wire_globals({'x': 0}), 'max': MAX_EXH, 'fuel': 400})
        resps = ctx.driver.batch(reqs) if ctx.driver is not None else [None] * len(reqs)
        for (params, model), resp in zip(models, resps):
            impl, bad = impl_oracles(model, {'x': 0}, MAX_EXH, json_copy=True)
            st.case(['shared'] + params, nontrivial=True, tags=['shared-objects', params[0]] + outcome_tags(impl))
            if resp is not None:
                ctx.compare('exec-directed', ['shared'] + params, impl, progen.canon_model_out(resp))
            for name, expected, actual in bad:
                ctx.witness(name, {'shared': params, 'model': json.loads(json.dumps(model)), 'globals': {'x': 0}, 'max': MAX_EXH},
                            expected, actual)
        # (C): the model without the optional 'args' members against the driver, and against the same model with args: []
        chunk = []
        with_args = {}
        for case, model in argless_cases():
            bare = _argless(model)
            assert bare != model
            chunk.append((case, bare, {'x': 0}, ['argless', case[2]]))
            with_args[json.dumps(case)] = model
        run_chunk(ctx, 'exec-directed', st, chunk, MAX_EXH, 400, lambda m, o: True)
        for case, bare, g, _ in chunk:
            full = run_impl(with_args[json.dumps(case)], g, MAX_EXH)
            got = run_impl(bare, g, MAX_EXH)
            if full != got:
                ctx.witness('call-without-args-is-call-with-no-arguments', {'model': bare, 'globals': g, 'max': MAX_EXH, 'history': []},
                            full, got)
        # (D): call-arity matrix
        chunk = []
        for params in arity_cases():
            model = arity_model(*params)
            chunk.append((['arity'] + params, model, arity_globals(params[4]),
                          ['arity', params[0], params[2], 'k%d' % params[1], 'm%d' % params[3], 'globals-' + params[4], 'caller-' + params[5],
                           'omitted' if params[3] < params[1] else 'extra' if params[3] > params[1] else 'exact']))
        run_chunk(ctx, 'exec-directed', st, chunk, MAX_EXH, 400, lambda m, o: True)
        for case, _, g, _ in chunk:
            model = arity_model(*case[1:])                 # a fresh object: an earlier run may have changed the one in the chunk
            for name, expected, actual, extra in arity_oracles(case[1:], model, MAX_EXH):
                ctx.witness(name, dict({'model': arity_model(*case[1:]), 'globals': g, 'max': MAX_EXH, 'history': []}, **extra),
                            expected, actual)
        # (D2): call histories of one binding
        chunk = []
        for params in history_cases():
            chunk.append((['call-history'] + params, history_model(*params), {},
                          ['call-history', params[1], 'k%d' % params[0], 'calls%d' % len(params[2]), 'caller-' + params[3],
                           'fewer-than-before' if any(b < a for a, b in zip(params[2], params[2][1:])) else 'not-fewer']))
        run_chunk(ctx, 'exec-directed', st, chunk, MAX_EXH, 400, lambda m, o: True)
        for case, _, g, _ in chunk:
            got = run_impl(history_model(*case[1:]), g, MAX_EXH)
            expected = history_expected(*case[1:])
            actual = {key: got.get(key, got.get('error', got.get('hostexc'))) for key in ('result', 'log')}
            if actual != expected:
                ctx.witness('parameter-binding', {'model': history_model(*case[1:]), 'globals': g, 'max': MAX_EXH, 'history': [], 'expect': expected},
                            expected, actual)
        # (E): fresh values; mutators outside the Lean host's library run the implementation oracles only
        chunks = {True: [], False: []}
        for params, modelled in fresh_cases():
            model = fresh_model(*params)
            tags = ['fresh', params[2], 'lean-host' if modelled else 'impl-only']
            chunks[modelled].append((['fresh'] + params, model, {'i': 0}, tags))
            if call_sites(model, []) and _argless(model) != model:
                chunks[modelled].append((['fresh-argless'] + params, _argless(model), {'i': 0}, tags + ['argless']))
        for modelled, chunk in chunks.items():
            run_chunk(ctx, 'exec-directed', st, chunk, MAX_EXH, 400, lambda m, o: True, use_driver=modelled)
            for case, _, g, _ in chunk:
                def rebuilt(case=case):            # a fresh object: an earlier run may have changed the one in the chunk
                    model = fresh_model(*case[1:])
                    return _argless(model) if case[0] == 'fresh-argless' else model
                found = fresh_oracle(run_impl(rebuilt(), g, MAX_EXH))
                if found is not None:
                    ctx.witness('fresh-value-each-evaluation', {'model': rebuilt(), 'globals': g, 'max': MAX_EXH, 'history': []}, *found)
    finally:
        ctx.driver = saved_driver


# ---------------------------------------------------------------------------------------------------------------------
# random models
# ---------------------------------------------------------------------------------------------------------------------

def all_lists(statements):
    yield statements
    for stmt in statements:
        if 'function' in stmt:
            yield from all_lists(stmt['function']['statements'])


def labels_of(statements):
    return [s['label'] for s in statements if 'label' in s]


def mutate_model(rng, model):
    """Hand-built mutations: duplicate labels, dangling jumps, jumps to labels of another list, stray returns."""
    model = copy.deepcopy(model)
    lists = list(all_lists(model['statements']))
    every_label = sorted({lb for lst in lists for lb in labels_of(lst)}) + ['L1', 'L2', 'nowhere']
    tags = []
    for _ in range(rng.randint(1, 4)):
        lst = rng.choice(lists)
        pos = rng.randint(0, len(lst))
        kind = rng.choice(['dup-label', 'dup-label', 'jump', 'jumpif', 'drop-label', 'return', 'label'])
        own = labels_of(lst)
        if kind == 'dup-label' and own:
            lst.insert(pos, {'label': rng.choice(own)})
        elif kind == 'label':
            lst.insert(pos, {'label': rng.choice(['L1', 'L2'])})
        elif kind == 'jump':
            lst.insert(pos, {'jump': {'label': rng.choice(every_label)}})
        elif kind == 'jumpif':
            cond = rng.choice([{'variable': 'a'}, {'variable': 'true'}, {'variable': 'false'},
                               {'binary': {'op': '<', 'left': {'variable': 'n'}, 'right': {'number': 2}}}])
            lst.insert(pos, {'jump': {'label': rng.choice(every_label), 'expr': cond}})
        elif kind == 'drop-label' and own:
            victim = rng.choice(own)
            ix = next(i for i, s in enumerate(lst) if s.get('label') == victim)
            del lst[ix]
        elif kind == 'return':
            lst.insert(pos, {'return': {'expr': {'variable': rng.choice(progen.VARS)}}} if rng.random() < 0.7 else {'return': {}})
        else:
            continue
        tags.append(kind)
    return model, tags


def random_model(rng):
    gen = progen.Gen(rng, max_depth=rng.choice([2, 3, 4]), allow_raw=True)
    prog = gen.program()
    text = '\n'.join(progen.render(prog))
    model = fw.impl()['parser'].parse_script(text)
    tags = ['parsed']
    if rng.random() < 0.75:
        model, mtags = mutate_model(rng, model)
        tags += mtags
    # calls of script functions with fewer arguments than written (omitted parameters), or with none at all
    if rng.random() < 0.4:
        defined = {s['function']['name'] for lst in all_lists(model['statements']) for s in lst if 'function' in s} - {'tr'}
        sites = [c for c in call_sites(model, []) if c['function']['name'] in defined and c['function'].get('args')]
        for site in rng.sample(sites, min(len(sites), rng.randint(1, 3))):
            if rng.random() < 0.3:
                site['function']['args'] = []
            else:
                del site['function']['args'][-1]
            tags.append('drop-arg')
    # every assigned value is modified in place right after the assignment
    if rng.random() < 0.4:
        model = poke_model(model)
        tags.append('poke')
    # hand-built: keep at most 40 top-level statements (cutting a lowered program leaves dangling jumps: wanted)
    if len(model['statements']) > 40:
        model['statements'] = model['statements'][:40]
        tags.append('cut40')
    return model, tags


def load_corpus():
    cases = []
    if os.path.exists(CORPUS):
        with open(CORPUS, encoding='utf-8') as fh:
            for line in fh:
                line = line.strip()
                if line and not line.startswith('#'):
                    cases.append(json.loads(line))
    return cases


# ---------------------------------------------------------------------------------------------------------------------
# streams
# ---------------------------------------------------------------------------------------------------------------------

def no_neg_zero(out):
    """The rational host of the Lean model has no negative zero; float -0.0 prints as "-0" (number text is C12/C13) - in log
    lines and in every string value built from a number (result, globals)."""
    return progen.canon_neg_zero(out)


NEG_ZERO_SKIPS = [0]


def every_neg_zero(obj):
    """every '-0' in every string -> '0' (used only to recognise a difference that is nothing but the text of negative zero)"""
    if isinstance(obj, str):
        return obj.replace('-0', '0')
    if isinstance(obj, list):
        return [every_neg_zero(x) for x in obj]
    if isinstance(obj, dict):
        return {k: every_neg_zero(v) for k, v in obj.items()}
    return obj


def report(ctx, oracle_bad, input_):
    for name, expected, _ in oracle_bad:
        if name == 'model-immutable':        # the execution changed the model object: the witness is the model as it was before
            input_ = dict(input_, model=expected)
    for name, expected, actual in oracle_bad:
        ctx.witness(name, input_, expected, actual)


def outcome_tags(impl):
    if 'hostexc' in impl:
        return ['hostexc']
    if 'error' in impl:
        err = impl['error']
        return ['error:' + ('unknown-label' if err.startswith('Unknown jump label') else 'budget' if err.startswith('Exceeded')
                            else 'undefined-function' if err.startswith('Undefined function') else 'other')]
    return ['ok']


def run_chunk(ctx, stream, st, chunk, max_statements, fuel, nontrivial_fn, use_driver=True):
    """chunk: [(case-id, model, globals, tags)] -> correspondence + oracles"""
    validate = fw.impl()['model'].validate_script
    reqs = []
    for _, model, g, _ in chunk:
        validate(model)
        reqs.append({'op': 'exec', 'script': progen.canon_script(model), 'globals': progen.wire_globals(g),
                     'max': max_statements, 'fuel': fuel})
    resps = ctx.driver.batch(reqs) if ctx.driver is not None and use_driver else [None] * len(reqs)
    prev = None
    for (case, model, g, tags), resp in zip(chunk, resps):
        if HANGS[0] >= 3:
            ctx.notes.append('stream stopped: the implementation did not stop under maxStatements in 3 runs')
            return
        impl, bad = impl_oracles(model, g, max_statements)
        st.case(case, nontrivial=nontrivial_fn(model, impl), tags=list(tags) + outcome_tags(impl))
        if resp is not None and '<cycle>' not in json.dumps(impl):      # self-containing containers: F18 territory, not compared
            got, want = no_neg_zero(impl), no_neg_zero(progen.canon_model_out(resp))
            if got != want and every_neg_zero(got) == every_neg_zero(want):
                # "-0" glued to a following digit by string concatenation ('y' + -0 + 1): the same documented restriction
                NEG_ZERO_SKIPS[0] += 1
                if NEG_ZERO_SKIPS[0] == 1:
                    ctx.notes.append('a case whose only difference is the text of negative zero inside a concatenated string was not '
                                     'compared with the Lean model (ASSUMPTIONS: negative zero); first: ' + json.dumps(case)[:300])
            else:
                ctx.compare(stream, case, got, want)
        # the model executed just before is part of the witness: a defect that carries state from one execution to the next
        # (the property says executions are independent) only shows with that history
        report(ctx, bad, {'model': model, 'globals': g, 'max': max_statements, 'history': [prev] if prev is not None else []})
        prev = model


def jumps_taken_possible(model, impl):
    """non-trivial: some statement list of the model contains a jump statement and a label statement"""
    return any(any('jump' in s for s in lst) and any('label' in s for s in lst) for lst in all_lists(model['statements']))


def stream_exhaustive(ctx, driver=True):
    quick = ctx.quick
    plan = [(FULL, range(0, 5), False)] if quick else [(FULL, range(0, 5), True), (SMALL, [5], True), (NINE, [6], True)]
    st = ctx.stream('exec-exhaustive',
                    'every statement list over {log, x=x+1, jump L1, jump L2, jumpif (x<2) L1, label L1, label L2, return x, call f(), '
                    'function f with one of 5 two-statement bodies (own label L1 / inner jump / dangling jump L2 / local assignment + '
                    'return / inner loop)} as hand-built validated models, x=0, maxStatements=60: length<=4 over all 14 atoms (quick); + length 5 '
                    'over 10 atoms (one function body: the dangling jump) + length 6 over 9 atoms (those without jump L2) (thorough, L1<->L2 '
                    'renaming pruned); execute_script vs Lean execM (exec op); '
                    'oracles: reference statement interpreter, model unchanged, two runs identical; non-trivial = one list has a jump and a label statement')
    enumerated = pruned = 0
    chunk = []
    saved_driver = ctx.driver
    if not driver:
        ctx.driver = None
    try:
        for alphabet, lengths, prune in plan:
            for names, is_pruned in enumerate_lists(alphabet, lengths, prune):
                enumerated += 1
                if is_pruned:
                    pruned += 1
                    continue
                chunk.append((' '.join(names), build(names), {'x': 0}, ['len%d' % len(names)]))
                if len(chunk) >= 20000:
                    run_chunk(ctx, 'exec-exhaustive', st, chunk, MAX_EXH, 400, jumps_taken_possible)
                    chunk = []
        if chunk:
            run_chunk(ctx, 'exec-exhaustive', st, chunk, MAX_EXH, 400, jumps_taken_possible)
    finally:
        ctx.driver = saved_driver
    st.exhaustive = True
    ctx.notes.append(f'exec-exhaustive: enumerated {enumerated} statement lists, pruned {pruned} by the L1<->L2 renaming symmetry '
                     f'(only lists all of whose atoms have an image under the renaming can be pruned; the alphabet has one variable, '
                     f'so there is no variable symmetry), executed {enumerated - pruned}')


def stream_random(ctx, n, driver=True, name='exec-random'):
    rng = ctx.rng(name)
    st = ctx.stream(name,
                    'corpus + random models <= 40 top-level statements: progen.Gen programs with raw labels/jumps, parsed, then hand-built '
                    'mutations (duplicate labels, labels dropped, dangling jumps, jumps to labels of other lists, stray returns, cut at 40; '
                    '40%: trailing arguments dropped from calls of script functions; 40%: every assignment followed by an in-place '
                    'arrayPush/objectSet on the assigned value), validated; x initial globals of all value kinds; maxStatements=300; same comparison and oracles; non-trivial = one '
                    'list of the model has a jump and a label statement')
    saved_driver = ctx.driver
    if not driver:
        ctx.driver = None
    try:
        chunk = [(f'corpus{ix}', case['model'], case.get('globals', {}), ['corpus']) for ix, case in enumerate(load_corpus())]
        for ix in range(n):
            model, tags = random_model(rng)
            if has_includes(model['statements']):
                continue
            # the case id is the compact JSON text of the model (models are big: never keep many of them alive)
            chunk.append((json.dumps(['random', ix, model], separators=(',', ':')), model, progen.random_globals(rng), tags))
            if len(chunk) >= 400:
                run_chunk(ctx, name, st, chunk, 300, 3000, jumps_taken_possible)
                chunk = []
        if chunk:
            run_chunk(ctx, name, st, chunk, 300, 3000, jumps_taken_possible)
    finally:
        ctx.driver = saved_driver


# ---------------------------------------------------------------------------------------------------------------------
# (F) re-binding programs and (G) sessions on one options object
#
# Both families are generated in a small ABSTRACT language (JSON lists), rendered statement by statement to a jump-level
# model, and interpreted by RbSim, a reference written from the property statement with its OWN expression evaluator (the
# reference interpreter above shares evaluate_expression with the implementation; RbSim shares nothing with it).
#
#   expressions  ['num', i]  ['null']  ['var', v]  ['nm1', c] = n - c   ['call', callee, [args]]   ['add', a, b]
#                ['ifpos', a, b] = if(n > 0, a, b)   ['partial', f, a] = systemPartial(f, a)   ['gset', name, e] =
#                systemGlobalSet('name', e)   ['arr', [e...]] = arrayNew(e...)
#   statements   ['def', name, tag, body] (parameters n, cb)   ['set', v, e]   ['do', e]   ['logn', tag]   ['logv', tag, e]
#                ['jle0', label] = jumpif (n <= 0) label   ['jump', label]   ['label', label]   ['ret', e]   ['ret0']
#                ['include', url]   ['jnz', label, e] = jumpif (e) label (e a number or null)
#
# What the implementation does with a call of a number, a systemPartial of a non-function or arithmetic on a function value is
# not the subject of C08: RbSim raises RbUnmodelled there and the generators drop such programs.
# ---------------------------------------------------------------------------------------------------------------------

RB_NAMES = ['fa', 'fb', 'fc']
RB_VARS = ['k1', 'k2']
RB_PARAMS = ['n', 'cb']
RB_MAX = 200                 # statement budget of a single re-binding program (>= 3 statements per nesting level: depth <= 67)
SESSION_MAX = 2000           # statement budget of every step of a session
RB_FUEL = 60000


def rb_expr(e):
    kind = e[0]
    if kind == 'num':
        return {'number': e[1]}
    if kind == 'null':
        return e_var('null')
    if kind == 'var':
        return e_var(e[1])
    if kind == 'nm1':
        return e_bin('-', e_var('n'), {'number': e[1]})
    if kind == 'call':
        return e_call(e[1], *[rb_expr(a) for a in e[2]])
    if kind == 'add':
        return e_bin('+', rb_expr(e[1]), rb_expr(e[2]))
    if kind == 'ifpos':
        return e_call('if', e_bin('>', e_var('n'), {'number': 0}), rb_expr(e[1]), rb_expr(e[2]))
    if kind == 'partial':
        return e_call('systemPartial', rb_expr(e[1]), rb_expr(e[2]))
    if kind == 'gset':
        return e_call('systemGlobalSet', e_str(e[1]), rb_expr(e[2]))
    if kind == 'arr':
        return e_call('arrayNew', *[rb_expr(a) for a in e[1]])
    raise ValueError(kind)


def rb_stmt(s):
    kind = s[0]
    if kind == 'def':
        return {'function': {'name': s[1], 'args': list(RB_PARAMS), 'statements': [rb_stmt(x) for x in s[3]]}}
    if kind == 'set':
        return s_assign(s[1], rb_expr(s[2]))
    if kind == 'do':
        return s_expr(rb_expr(s[1]))
    if kind == 'logn':
        return s_expr(e_call('systemLog', e_bin('+', e_str(s[1] + ' '), e_var('n'))))
    if kind == 'logv':
        return s_expr(e_call('systemLog', e_bin('+', e_str(s[1] + ' '), rb_expr(s[2]))))
    if kind == 'jle0':
        return {'jump': {'label': s[1], 'expr': e_bin('<=', e_var('n'), {'number': 0})}}
    if kind == 'jnz':
        return {'jump': {'label': s[1], 'expr': rb_expr(s[2])}}
    if kind == 'jump':
        return {'jump': {'label': s[1]}}
    if kind == 'label':
        return {'label': s[1]}
    if kind == 'ret':
        return {'return': {'expr': rb_expr(s[1])}}
    if kind == 'ret0':
        return {'return': {}}
    if kind == 'include':
        return {'include': {'includes': [{'url': s[1]}]}}
    raise ValueError(kind)


def rb_model(stmts):
    return {'statements': [rb_stmt(s) for s in stmts]}


def rb_expr_text(e):
    kind = e[0]
    if kind == 'num':
        return str(e[1])
    if kind == 'null':
        return 'null'
    if kind == 'var':
        return e[1]
    if kind == 'nm1':
        return 'n - %d' % e[1]
    if kind == 'call':
        return e[1] + '(' + ', '.join(rb_expr_text(a) for a in e[2]) + ')'
    if kind == 'add':
        return rb_expr_text(e[1]) + ' + ' + rb_expr_text(e[2])
    if kind == 'ifpos':
        return 'if(n > 0, ' + rb_expr_text(e[1]) + ', ' + rb_expr_text(e[2]) + ')'
    if kind == 'partial':
        return 'systemPartial(' + rb_expr_text(e[1]) + ', ' + rb_expr_text(e[2]) + ')'
    if kind == 'gset':
        return "systemGlobalSet('" + e[1] + "', " + rb_expr_text(e[2]) + ')'
    if kind == 'arr':
        return 'arrayNew(' + ', '.join(rb_expr_text(a) for a in e[1]) + ')'
    raise ValueError(kind)


def rb_text(stmts, indent=''):
    """source text of an include file (its parse is checked against the rendered model by rb_files_text)"""
    out = []
    for s in stmts:
        kind = s[0]
        if kind == 'def':
            out.append(indent + 'function ' + s[1] + '(' + ', '.join(RB_PARAMS) + '):')
            out += rb_text(s[3], indent + '    ')
            out.append(indent + 'endfunction')
        elif kind == 'set':
            out.append(indent + s[1] + ' = ' + rb_expr_text(s[2]))
        elif kind == 'do':
            out.append(indent + rb_expr_text(s[1]))
        elif kind == 'logn':
            out.append(indent + "systemLog('" + s[1] + " ' + n)")
        elif kind == 'logv':
            out.append(indent + "systemLog('" + s[1] + " ' + " + rb_expr_text(s[2]) + ')')
        elif kind == 'jle0':
            out.append(indent + 'jumpif (n <= 0) ' + s[1])
        elif kind == 'jnz':
            out.append(indent + 'jumpif (' + rb_expr_text(s[2]) + ') ' + s[1])
        elif kind == 'jump':
            out.append(indent + 'jump ' + s[1])
        elif kind == 'label':
            out.append(indent + s[1] + ':')
        elif kind == 'ret':
            out.append(indent + 'return ' + rb_expr_text(s[1]))
        elif kind == 'ret0':
            out.append(indent + 'return')
        else:
            raise ValueError(kind)
    return out


_FILES_TEXT = {}


def rb_files_text(files):
    """abstract include files -> {url: text} for fetchFn ('broken' -> a text with a syntax error; missing urls are absent)"""
    key = json.dumps(files or {}, sort_keys=True)
    if key not in _FILES_TEXT:
        if len(_FILES_TEXT) > 2000:
            _FILES_TEXT.clear()
        _FILES_TEXT[key] = _rb_files_text(files)
    return dict(_FILES_TEXT[key])


def _rb_files_text(files):
    out = {}
    for url, content in (files or {}).items():
        if content == 'broken':
            out[url] = 'x = ('
        else:
            text = '\n'.join(rb_text(content)) + '\n'
            if fw.impl()['parser'].parse_script(text) != rb_model(content):
                raise AssertionError('include text does not parse to the rendered model: ' + text)
            out[url] = text
    return out


class RbUnmodelled(Exception):
    """the program does something whose outcome C08 does not state"""


class RbError(Exception):
    """a script runtime error"""


class RbFn:
    def __init__(self, node):
        self.node = node


class RbPartial:
    def __init__(self, fn, bound):
        self.fn, self.bound = fn, bound


class RbHost:
    def __init__(self, kind):
        self.kind = kind


# Host callables supplied as globals (spelt {'host': kind} in a session so that a witness stays JSON):
#   hostApply(fn, n) calls fn([n, null], options) - the host sits in the middle of a chain of script function calls;
#   hostTry(fn, n) does the same, catches BareScriptRuntimeError and returns -1 - the run goes on after a failure inside nested calls
#   hostFail() raises BareScriptRuntimeError('host failure')
HOST_GLOBALS = {'hostApply': {'host': 'apply'}, 'hostTry': {'host': 'try'}, 'hostFail': {'host': 'fail'}}


def _host_fail(unused_args, unused_options):
    raise fw.impl()['runtime'].BareScriptRuntimeError('host failure')


def _host_apply(args, options):
    return args[0]([args[1] if len(args) > 1 else None, None], options)


def _host_try(args, options):
    try:
        return _host_apply(args, options)
    except fw.impl()['runtime'].BareScriptRuntimeError:
        return -1


def is_host_spec(v):
    return isinstance(v, dict) and set(v) == {'host'}


def session_globals(spec):
    """the globals of an exec step as Python values: a fresh deep copy, {'host': kind} -> the host callable"""
    return {k: ({'apply': _host_apply, 'try': _host_try, 'fail': _host_fail}[v['host']] if is_host_spec(v) else copy.deepcopy(v)) for k, v in spec.items()}


def uses_host(spec):
    return any(is_host_spec(v) for v in spec.values())


def rb_is_num(v):
    return isinstance(v, (int, float)) and not isinstance(v, bool)


def rb_wire(v):
    if v is None:
        return None
    if rb_is_num(v):
        return progen.value_to_wire(v)
    if isinstance(v, RbFn):
        return {'f': 'script'}
    if isinstance(v, (RbPartial, RbHost)):
        return {'f': 'other'}
    if isinstance(v, list):
        return [rb_wire(x) for x in v]
    raise RbUnmodelled('value')


class RbSim:
    """The documented statement semantics on abstract programs: statements in order; a taken jump continues after the FIRST label
    of that name in the SAME list or raises Unknown jump label; return ends the current list with its optional value; a function
    statement binds the GLOBAL name to the new function (whoever calls the name afterwards, from wherever, gets the new one; a
    value read from the name before keeps the old one); a call runs the callee's own list with its own locals; an include runs
    the file's list in the global scope.  One statement counter, budget error when statement max+1 would start."""

    def __init__(self, host_globals, files, max_statements):
        self.g = {k: (RbHost(v['host']) if is_host_spec(v) else v) for k, v in host_globals.items()}
        self.files = files or {}
        self.max = max_statements
        self.count = 0
        self.log = []

    def var(self, name, locals_):
        if locals_ is not None and name in locals_:
            return locals_[name]
        return self.g.get(name)

    @staticmethod
    def text(v):
        if v is None:
            return 'null'
        if rb_is_num(v) and v == int(v):
            return str(int(v))
        raise RbUnmodelled('text of ' + type(v).__name__)

    def ev(self, e, locals_):
        kind = e[0]
        if kind == 'num':
            return e[1]
        if kind == 'null':
            return None
        if kind == 'var':
            return self.var(e[1], locals_)
        if kind == 'nm1':
            n = self.var('n', locals_)
            if n is None:
                return None
            if not rb_is_num(n):
                raise RbUnmodelled('n - 1')
            return n - e[1]
        if kind == 'add':
            a, b = self.ev(e[1], locals_), self.ev(e[2], locals_)
            if a is None or b is None:
                return None
            if not (rb_is_num(a) and rb_is_num(b)):
                raise RbUnmodelled('+')
            return a + b
        if kind == 'ifpos':
            n = self.var('n', locals_)
            if n is not None and not rb_is_num(n):
                raise RbUnmodelled('n > 0')
            return self.ev(e[1] if (n is not None and n > 0) else e[2], locals_)
        if kind == 'partial':
            fn, bound = self.ev(e[1], locals_), self.ev(e[2], locals_)
            if not isinstance(fn, (RbFn, RbPartial, RbHost)):
                raise RbUnmodelled('systemPartial of a non-function')
            return RbPartial(fn, [bound])
        if kind == 'gset':
            value = self.ev(e[2], locals_)
            self.g[e[1]] = value
            return value
        if kind == 'arr':
            return [self.ev(a, locals_) for a in e[1]]
        if kind == 'call':
            args = [self.ev(a, locals_) for a in e[2]]
            if locals_ is not None and e[1] in locals_:
                fn = locals_[e[1]]
            else:
                fn = self.g.get(e[1])
            if fn is None:
                raise RbError(f'Undefined function "{e[1]}"')
            return self.call_value(fn, args)
        raise ValueError(kind)

    def call_value(self, fn, args):
        while isinstance(fn, RbPartial):
            fn, args = fn.fn, fn.bound + list(args)
        if isinstance(fn, RbHost):
            if fn.kind == 'fail':
                raise RbError('host failure')
            target = args[0] if args else None
            if not isinstance(target, (RbFn, RbPartial, RbHost)):
                raise RbUnmodelled('host call of a non-function')
            inner = [args[1] if len(args) > 1 else None, None]
            if fn.kind == 'apply':
                return self.call_value(target, inner)
            try:
                return self.call_value(target, inner)
            except RbError as exc:
                if str(exc) == 'ParserError':          # not a BareScriptRuntimeError: hostTry does not catch it
                    raise
                return -1
        if not isinstance(fn, RbFn):
            raise RbUnmodelled('call of a non-function')
        return self.run(fn.node[3], {p: (args[ix] if ix < len(args) else None) for ix, p in enumerate(RB_PARAMS)})

    def run(self, stmts, locals_):
        first = {}
        for ix, s in enumerate(stmts):
            if s[0] == 'label' and s[1] not in first:
                first[s[1]] = ix
        pc = 0
        while pc < len(stmts):
            s = stmts[pc]
            self.count += 1
            if self.max > 0 and self.count > self.max:
                raise RbError(f'Exceeded maximum script statements ({self.max})')
            kind = s[0]
            if kind == 'def':
                self.g[s[1]] = RbFn(s)
            elif kind == 'set':
                value = self.ev(s[2], locals_)
                if locals_ is not None:
                    locals_[s[1]] = value
                else:
                    self.g[s[1]] = value
            elif kind == 'do':
                self.ev(s[1], locals_)
            elif kind == 'logn':
                self.log.append(s[1] + ' ' + self.text(self.var('n', locals_)))
            elif kind == 'logv':
                self.log.append(s[1] + ' ' + self.text(self.ev(s[2], locals_)))
            elif kind in ('jle0', 'jump', 'jnz'):
                taken = True
                if kind == 'jle0':
                    n = self.var('n', locals_)
                    if n is not None and not rb_is_num(n):
                        raise RbUnmodelled('n <= 0')
                    taken = n is None or n <= 0             # null is less than every number
                elif kind == 'jnz':
                    cond = self.ev(s[2], locals_)
                    if cond is not None and not rb_is_num(cond):
                        raise RbUnmodelled('truth value')
                    taken = cond is not None and cond != 0   # null and 0 are false, every other number is true
                if taken:
                    if s[1] not in first:
                        raise RbError(f'Unknown jump label "{s[1]}"')
                    pc = first[s[1]] + 1
                    continue
            elif kind == 'label':
                pass
            elif kind == 'ret':
                return self.ev(s[1], locals_)
            elif kind == 'ret0':
                return None
            elif kind == 'include':
                content = self.files.get(s[1])
                if content is None:
                    raise RbError(f'Include of "{s[1]}" failed')
                if content == 'broken':
                    raise RbError('ParserError')
                self.run(content, None)
            else:
                raise ValueError(kind)
            pc += 1
        return None

    def outcome(self, fn):
        out = {}
        try:
            out['result'] = rb_wire(fn())
        except RbError as exc:
            out['error'] = str(exc)
        return out

    def state(self, out, log_from):
        out['log'] = self.log[log_from:]
        out['globals'] = sorted([[k, rb_wire(v)] for k, v in self.g.items()], key=lambda kv: kv[0])
        out['count'] = self.count
        return out


def rb_canon(out):
    """outcome of the implementation / of the Lean model in the vocabulary of RbSim (a parser error of an include by its class)"""
    if isinstance(out, dict) and str(out.get('error', '')).startswith('ParserError'):
        out = dict(out, error='ParserError')
    return out


def rb_impl_outcome(fn):
    mods = fw.impl()
    runtime, library, parser = mods['runtime'], mods['library'], mods['parser']
    out = {}
    try:
        out['result'] = progen.value_to_wire(guarded(fn), library.SCRIPT_FUNCTIONS)
    except runtime.BareScriptRuntimeError as exc:
        out['error'] = str(exc)
    except parser.BareScriptParserError:
        out['error'] = 'ParserError'
    except Hang:
        HANGS[0] += 1
        out['hostexc'] = f'Hang: still running after {HANG_SECONDS} s of CPU time'
    except RecursionError:
        out['hostexc'] = 'RecursionError'
    except Exception as exc:  # pylint: disable=broad-except
        out['hostexc'] = type(exc).__name__ + ': ' + str(exc)[:200]
    return out


def step_max(session, step):
    """the statement budget of an exec step: its own (4th member) or the session's"""
    return step[3] if len(step) > 3 else session['max']


def session_arg(spec, lookup):
    """argument of a host call: a number / null, or {'global': name} = the current value of that global"""
    return lookup(spec['global']) if isinstance(spec, dict) else spec


def run_session_impl(session, models, file_texts, reuse):
    """The steps of a session on the implementation.
    ['exec', i, globals(, max)]: execute_script(models[i], options) with options['globals'] = a fresh copy of globals (and
    options['maxStatements'] = max);
    ['call', name, [args]]: the host calls the value of the global `name` left by the steps before, as fn(args, options);
    ['eval', expr, builtins]: evaluate_expression(expr, options, None, builtins) on the globals left by the steps before.
    reuse=True: ONE options dict for the whole session (the embedding application's options object, as it is after every step);
    reuse=False: a new options dict for every exec step."""
    runtime = fw.impl()['runtime']
    log = []
    options = None
    outs = []

    def fetch(req):
        return file_texts.get(req['url'])
    for step in session['steps']:
        start = len(log)
        if step[0] == 'exec':
            if options is None or not reuse:
                options = {'logFn': log.append, 'fetchFn': fetch}
            options['maxStatements'] = step_max(session, step)
            options['globals'] = session_globals(step[2])
            model = models[step[1]]
            out = rb_impl_outcome(lambda m=model, o=options: runtime.execute_script(m, o))
        elif options is None:
            outs.append({'skipped': True})
            continue
        elif step[0] == 'call':
            fn = options['globals'].get(step[1])
            if not callable(fn):
                outs.append({'skipped': True})
                continue
            args = [session_arg(a, options['globals'].get) for a in step[2]]
            out = rb_impl_outcome(lambda f=fn, a=args, o=options: f(a, o))
        else:
            out = rb_impl_outcome(lambda e=rb_expr(step[1]), o=options, b=step[2]: runtime.evaluate_expression(e, o, None, b))
        out['log'] = log[start:]
        out['globals'] = user_globals(options['globals'])
        out['count'] = options.get('statementCount')
        outs.append(out)
    return outs


def run_session_sim(session):
    """the same steps on RbSim (a new RbSim per exec step: executions are independent) -> outcomes, or None if unmodelled"""
    sim = None
    outs = []
    try:
        for step in session['steps']:
            if step[0] == 'exec':
                sim = RbSim(step[2], session.get('files'), step_max(session, step))
                prog = session['progs'][step[1]]
                outs.append(sim.state(sim.outcome(lambda s=sim, p=prog: s.run(p, None)), 0))
                continue
            if sim is None:
                outs.append({'skipped': True})
                continue
            start = len(sim.log)
            if step[0] == 'call':
                fn = sim.g.get(step[1])
                if not isinstance(fn, (RbFn, RbPartial, RbHost)):
                    if fn is not None:
                        raise RbUnmodelled('host call of a non-function')
                    outs.append({'skipped': True})
                    continue
                args = [session_arg(a, sim.g.get) for a in step[2]]
                outs.append(sim.state(sim.outcome(lambda s=sim, f=fn, a=args: s.call_value(f, a)), start))
            else:
                outs.append(sim.state(sim.outcome(lambda s=sim, e=step[1]: s.ev(e, None)), start))
    except (RbUnmodelled, RecursionError):
        return None
    return outs


def session_failures(session, want=None):
    """-> [(oracle, step index, expected, actual)] for one session on the implementation
    session-reused-options: every step gives the same outcome on one re-used options object as with new options per execution;
    session-closed-form: every step gives the outcome of RbSim; session-model-immutable: the model objects are unchanged."""
    models = [rb_model(p) for p in session['progs']]
    texts = rb_files_text(session.get('files'))
    before = json.dumps(models, sort_keys=True)
    fresh = [rb_canon(o) for o in run_session_impl(session, models, texts, False)]
    reused = [rb_canon(o) for o in run_session_impl(session, models, texts, True)]
    bad = []
    if json.dumps(models, sort_keys=True) != before:
        bad.append(('session-model-immutable', None, json.loads(before), json.loads(json.dumps(models))))
    for ix, (one, two) in enumerate(zip(fresh, reused)):
        if one != two:
            bad.append(('session-reused-options', ix, one, two))
            break
    sim = run_session_sim(session)
    if sim is not None:
        for ix, (one, two) in enumerate(zip(sim, fresh)):
            if 'hostexc' not in two and one != two:
                bad.append(('session-closed-form', ix, one, two))
                break
    for ix, out in enumerate(fresh + reused):
        if out.get('hostexc', '').startswith('Hang'):
            bad.append(('run-stops-within-budget', ix % len(fresh), f'at most {session["max"]} statements start', out['hostexc']))
            break
    if want is not None:
        bad = [b for b in bad if b[0] == want]
    return bad, fresh, sim


def session_trim(session, oracle, step):
    """the session cut after the failing step, then steps deleted greedily while the same oracle still fails; unused programs
    and files dropped"""
    def fails(candidate):
        try:
            return bool(session_failures(candidate, oracle)[0])
        except Exception:  # pylint: disable=broad-except
            return False
    best = dict(session, steps=session['steps'][:step + 1] if step is not None else list(session['steps']))
    if not fails(best):
        best = dict(session)
    replays = 0
    ix = len(best['steps']) - 2
    while ix >= 0 and replays < 250:
        trial = dict(best, steps=best['steps'][:ix] + best['steps'][ix + 1:])
        replays += 1
        if fails(trial):
            best = trial
        ix -= 1
    used = sorted({s[1] for s in best['steps'] if s[0] == 'exec'})
    trial = dict(best, progs=[best['progs'][i] for i in used],
                 steps=[['exec', used.index(s[1])] + s[2:] if s[0] == 'exec' else s for s in best['steps']])
    if fails(trial):
        best = trial
    urls = set()
    for prog in best['progs']:
        rb_include_urls(prog, urls)
    trial = dict(best, files={url: content for url, content in (best.get('files') or {}).items() if url in urls})
    if fails(trial):
        best = trial
    return best


def rb_include_urls(stmts, out):
    for s in stmts:
        if s[0] == 'include':
            out.add(s[1])
        elif s[0] == 'def':
            rb_include_urls(s[3], out)


def session_report(ctx, session, whole_too=False):
    """oracles of one session -> witnesses; returns (outcomes with new options per execution, RbSim outcomes).
    whole_too: the session is built to fail on its own history; it is also reported untrimmed (only cut after the failing step):
    when the failure comes from state of the PROCESS left by earlier sessions, step deletion keeps a session that fails in this
    process only, and the untrimmed one is the candidate that fails again in a fresh interpreter (order_witnesses)."""
    bad, fresh, sim = session_failures(session)
    for oracle, step, expected, actual in bad:
        if whole_too and step is not None and ctx.__dict__.setdefault('c08_whole', {}).get(oracle, 0) < 6:
            ctx.c08_whole[oracle] = ctx.c08_whole.get(oracle, 0) + 1
            whole = dict(session, steps=session['steps'][:step + 1])
            ctx.witness(oracle, {'session': whole, 'step': step, 'models': [rb_model(p) for p in whole['progs']],
                                 'file_texts': rb_files_text(whole.get('files'))}, expected, actual, whole_session=True)
        small = session
        trimmed = ctx.__dict__.setdefault('c08_trimmed', {})
        if trimmed.get(oracle, 0) < 4:                 # step deletion re-runs the session many times: the first few witnesses only
            trimmed[oracle] = trimmed.get(oracle, 0) + 1
            small = session_trim(session, oracle, step)
        elif step is not None:
            small = dict(session, steps=session['steps'][:step + 1])
        again = session_failures(small, oracle)[0]
        if again:
            _, step, expected, actual = again[0]
        else:
            small = session
        # 'models' is for the reader (the jump-level models of the programs); replay() renders them again from 'session'
        ctx.witness(oracle, {'session': small, 'step': step, 'models': [rb_model(p) for p in small['progs']],
                             'file_texts': rb_files_text(small.get('files'))}, expected, actual)
    return fresh, sim


def rb_has_include(stmts):
    return any(s[0] == 'include' or (s[0] == 'def' and rb_has_include(s[3])) for s in stmts)


def session_exec_requests(session, models, seen):
    """the distinct (program, globals, files, budget) executions of a session -> [(step index, driver request or None)]"""
    parse = fw.impl()['parser'].parse_script
    texts = rb_files_text(session.get('files'))
    reqs = []
    for ix, step in enumerate(session['steps']):
        if step[0] != 'exec':
            continue
        key = json.dumps([session['progs'][step[1]], step[2], session.get('files'), step_max(session, step)], sort_keys=True)
        if key in seen:
            continue
        seen.add(key)
        if uses_host(step[2]):                             # host callables: not expressible in the Lean host
            reqs.append((ix, None))
            continue
        counter = [0]
        req = {'op': 'exec', 'script': progen.canon_script(models[step[1]], counter), 'globals': progen.wire_globals(step[2]),
               'max': step_max(session, step), 'fuel': RB_FUEL}
        files = []
        for url, content in sorted((session.get('files') or {}).items()):
            files.append([url, 'broken'] if content == 'broken' else [url, progen.canon_script(parse(texts[url]), counter)])
        if files:
            req['files'] = files
        reqs.append((ix, req))
    return reqs


def run_sessions(ctx, stream, st, cases, use_driver=True):
    """cases: [(case id, session, tags)]: the session oracles on the implementation; every distinct execution of a session also
    against the Lean model (exec op, with the include files) and, without includes, against the reference statement interpreter"""
    seen = set()
    pending = []
    for case, session, tags in cases:
        if HANGS[0] >= 3:
            ctx.notes.append('stream stopped: the implementation did not stop under maxStatements in 3 runs')
            return
        fresh, sim = session_report(ctx, session, whole_too='directed' in tags)
        models = [rb_model(p) for p in session['progs']]
        kinds = sorted({t for o in fresh for t in outcome_tags(o)} - {'ok'}) if fresh else []
        st.case(case, nontrivial=sim is not None and len(fresh) > 0,
                tags=list(tags) + ['faulted' if kinds else 'error-free'] + (['sim-unmodelled'] if sim is None else []))
        for ix, req in session_exec_requests(session, models, seen):
            if req is not None:
                pending.append((case, ix, req, fresh[ix]))
            step = session['steps'][ix]
            if not rb_has_include(session['progs'][step[1]]) and 'hostexc' not in fresh[ix]:
                ref = run_reference(models[step[1]], session_globals(step[2]), step_max(session, step))
                got = run_impl(models[step[1]], session_globals(step[2]), step_max(session, step))
                if ref is not None and ref != got:
                    ctx.witness('documented-statement-semantics', {'model': models[step[1]], 'globals': step[2], 'host_globals': True,
                                                                   'max': step_max(session, step), 'history': []}, ref, got)
    if ctx.driver is None or not use_driver:
        return
    resps = ctx.driver.batch([req for _, _, req, _ in pending])
    for (case, ix, _, impl), resp in zip(pending, resps):
        if resp.get('oof') or 'hostexc' in impl:
            continue
        ctx.compare(stream, [case, ix], impl, rb_canon(progen.canon_model_out(resp)))


# --- generators ---

def rb_call(callee, n_expr, cb_expr):
    return ['call', callee, [n_expr, cb_expr]]


def rb_simple_body(tag, value):
    return [['logn', tag], ['ret', ['num', value]]]


REBIND_KEEPS = ['alias', 'partial', 'callback', 'local-alias', 'executing', 'called-before']
REBIND_HOWS = ['def', 'nested-def', 'gset-fn', 'gset-null', 'assign', 'include']
REBIND_FORMS = ['tail', 'add1', 'via-var', 'ifpos', 'tail-through-other']


def rb_recursive_step(form, callee, cb_expr=None):
    call = rb_call(callee, ['nm1', 1], cb_expr or ['var', 'cb'])
    if form == 'tail':
        return [['ret', call]]
    if form == 'add1':
        return [['ret', ['add', ['num', 1], call]]]
    if form == 'via-var':
        return [['set', 'r', call], ['ret', ['var', 'r']]]
    if form == 'ifpos':
        return [['ret', ['ifpos', call, ['num', 7]]]]
    if form == 'two':
        return [['ret', ['add', call, rb_call(callee, ['nm1', 2], ['null'])]]]
    if form == 'do':
        return [['do', call]]
    if form in ('via-host', 'via-try'):          # the host calls the current value of the name: hostApply(callee, n - 1)
        return [['ret', ['call', 'hostApply' if form == 'via-host' else 'hostTry', [['var', callee], ['nm1', 1]]]]]
    raise ValueError(form)


def rebind_directed(keep, how, form, where):
    """One history: `fa` is bound to a function whose body calls `fa` again (in return position / inside an addition / through a
    variable / through if() / through fb); the function value is kept (alias variable, systemPartial, callback argument, local
    alias of another function, or it is simply still running); the global `fa` is re-bound (second function statement, function
    statement in the body of another function, systemGlobalSet to another function / to null, assignment, include) at the top
    level or from inside the running body; then the kept value is called.  -> (statements, files)"""
    files = {}
    new_body = rb_simple_body('fa2', 20)
    if how == 'def':
        rebind = [['def', 'fa', 'fa2', new_body]]
    elif how == 'nested-def':
        rebind = [['def', 'rb', 'rb1', [['def', 'fa', 'fa2', new_body], ['ret', ['num', 0]]]], ['do', rb_call('rb', ['num', 0], ['null'])]]
    elif how == 'gset-fn':
        rebind = [['def', 'fc', 'fa2', new_body], ['do', ['gset', 'fa', ['var', 'fc']]]]
    elif how == 'gset-null':
        rebind = [['do', ['gset', 'fa', ['null']]]]
    elif how == 'assign':               # at the top level: re-binds the global; inside a body: a LOCAL named fa shadows the global
        rebind = [['def', 'fc', 'fa2', new_body], ['set', 'fa', ['var', 'fc']]]
    else:
        files['lib.bare'] = [['def', 'fa', 'fa2', new_body]]
        rebind = [['include', 'lib.bare']]
    if form == 'tail-through-other':
        step = rb_recursive_step('tail', 'fb')
    else:
        step = rb_recursive_step(form, 'fa')
    inside = rebind if where == 'in-body' and keep != 'called-before' else []
    old_body = [['logn', 'fa1']] + inside + [['jle0', 'done']] + step + [['label', 'done'], ['ret', ['num', 10]]]
    stmts = [['def', 'fa', 'fa1', old_body],
             ['def', 'fb', 'fb1', [['logn', 'fb1'], ['jle0', 'done'], ['ret', rb_call('fa', ['nm1', 1], ['var', 'cb'])], ['label', 'done'],
                                   ['ret', ['num', 30]]]]]
    kept = 'k1'
    if keep == 'alias':
        stmts.append(['set', 'k1', ['var', 'fa']])
    elif keep == 'partial':
        stmts.append(['set', 'k1', ['partial', ['var', 'fa'], ['num', 3]]])
    elif keep == 'callback':            # ap(n, cb) calls cb(n - 1, null) - the callee is a local variable of ap
        stmts.append(['def', 'ap', 'ap1', [['logn', 'ap1'], ['ret', rb_call('cb', ['nm1', 1], ['null'])]]])
        stmts.append(['set', 'k1', ['var', 'fa']])
    elif keep in ('local-alias', 'called-before'):  # hold(n, cb): local k = fa, the re-binding happens while hold runs, then k(n - 1)
        kept = None
    else:
        kept = 'fa' if where == 'in-body' else 'k1'
        if where != 'in-body':
            stmts.append(['set', 'k1', ['var', 'fa']])
    stmts += [['set', 'r0', rb_call('fa', ['num', 1], ['null'])], ['logv', 'r0', ['var', 'r0']]]
    if keep == 'called-before':         # one invocation calls fa by name, re-binds it (itself / through rbx), calls fa by name again
        if where == 'top':
            stmts.append(['def', 'rbx', 'rbx1', rebind + [['ret', ['num', 0]]]])
        inner = rebind if where == 'in-body' else [['do', rb_call('rbx', ['num', 0], ['null'])]]
        stmts.append(['def', 'hold', 'hold1', [['logn', 'hold1'], ['set', 'a', rb_call('fa', ['nm1', 1], ['null'])]] + inner +
                      [['set', 'b', rb_call('fa', ['nm1', 1], ['null'])], ['ret', ['add', ['var', 'a'], ['var', 'b']]]]])
        stmts += [['set', 'r2', rb_call('hold', ['num', 3], ['null'])], ['logv', 'r2', ['var', 'r2']],
                  ['set', 'r1', rb_call('fa', ['num', 2], ['null'])], ['logv', 'r1', ['var', 'r1']]]
    elif keep == 'local-alias':
        stmts.append(['def', 'hold', 'hold1', [['logn', 'hold1'], ['set', 'kk', ['var', 'fa']]] + (rebind if where == 'top' else []) +
                      [['set', 'r', rb_call('kk', ['nm1', 1], ['null'])], ['ret', ['var', 'r']]]])
        stmts += [['set', 'r2', rb_call('hold', ['num', 4], ['null'])], ['logv', 'r2', ['var', 'r2']]]
    else:
        if where == 'top':
            stmts += rebind
        stmts += [['set', 'r1', rb_call('fa', ['num', 2], ['null'])], ['logv', 'r1', ['var', 'r1']]]
        if keep == 'callback':
            stmts += [['set', 'r2', rb_call('ap', ['num', 4], ['var', 'k1'])], ['logv', 'r2', ['var', 'r2']]]
        else:
            stmts += [['set', 'r2', rb_call(kept, ['num', 3], ['null'])], ['logv', 'r2', ['var', 'r2']]]
    stmts.append(['ret', ['arr', [['var', 'r0'], ['var', 'r1'], ['var', 'r2']]]])
    return stmts, files


def rebind_directed_cases():
    for keep in REBIND_KEEPS:
        for how in REBIND_HOWS:
            for form in REBIND_FORMS:
                for where in ('top', 'in-body'):
                    yield [keep, how, form, where]


# (H) binding changed while the arguments of a pending call are evaluated.  Statements run in order and a function statement binds
#     its global when it is executed - also when the body that holds it runs because an ARGUMENT of a call calls it.  The call
#     `fa(rbx(0, null), null)` therefore calls whatever `fa` names once its arguments have been evaluated: the function
#     bound by the function statement that rbx executed (nested, two calls deep, in an included file), the value stored by
#     systemGlobalSet / by a top-level assignment of an included file, or nothing ('Undefined function' after systemGlobalSet to
#     null, although a function was bound when the evaluation of the call began); and a name that is bound for the first time
#     by the argument is defined.  'effect-only' / 'fails': the argument's function runs (its log lines, its global, its
#     statements in the count, its own error) before the call of an undefined name is reported.
ARG_INITIALS = ['bound', 'unbound']
ARG_HOWS = ['nested-def', 'deep-def', 'gset-fn', 'gset-null', 'include', 'include-assign', 'effect-only', 'fails']
ARG_FORMS = ['first', 'second', 'in-add', 'via-ident', 'both']
ARG_SITES = ['set', 'ret', 'jump', 'logv', 'operand']
ARG_SCOPES = ['top', 'in-body', 'in-include']


def argbind_directed(initial, how, form, site, scope, hoist=False):
    """-> (statements, files).  old fa logs 'fa1 n' and returns 0, the new one logs 'fa2 n' and returns 20, fc (the value that
    systemGlobalSet / the included assignment store) logs 'fc1 n' and returns 30: which function the pending call reached is
    visible in the log, in the result and in the direction of the conditional jump.
    hoist: the argument calls of rbx are statements of their own (t = rbx(0, null), t2 = rbx(1, null)) right before the statement
    that holds the pending call, which then reads t / t2 - statements run in order, so that is the same computation."""
    files = {}
    stmts = []
    new_body = rb_simple_body('fa2', 20)
    if initial == 'bound':
        stmts.append(['def', 'fa', 'fa1', rb_simple_body('fa1', 0)])
    stmts.append(['def', 'fc', 'fc1', rb_simple_body('fc1', 30)])
    stmts.append(['def', 'fid', 'fid1', [['ret', ['var', 'n']]]])
    if how == 'nested-def':
        effect = [['def', 'fa', 'fa2', new_body]]
    elif how == 'deep-def':
        stmts.append(['def', 'rby', 'rby1', [['def', 'fa', 'fa2', new_body], ['ret0']]])
        effect = [['do', rb_call('rby', ['num', 0], ['null'])]]
    elif how == 'gset-fn':
        effect = [['do', ['gset', 'fa', ['var', 'fc']]]]
    elif how == 'gset-null':
        effect = [['do', ['gset', 'fa', ['null']]]]
    elif how == 'include':
        files['lib.bare'] = [['def', 'fa', 'fa2', new_body]]
        effect = [['include', 'lib.bare']]
    elif how == 'include-assign':           # an include runs in the global scope, also when a function body includes it
        files['lib.bare'] = [['set', 'fa', ['var', 'fc']]]
        effect = [['include', 'lib.bare']]
    elif how == 'effect-only':
        effect = [['do', ['gset', 'k2', ['num', 7]]]]
    else:
        effect = [['jump', 'nowhere']]
    stmts.append(['def', 'rbx', 'rbx1', [['logn', 'rbx1']] + effect + [['logn', 'rbx2'], ['ret', ['num', 1]]]])
    if initial == 'bound':                  # the name has been called before: whatever is remembered about it is warm
        stmts += [['set', 'r0', rb_call('fa', ['num', 1], ['null'])], ['logv', 'r0', ['var', 'r0']]]
    inner = rb_call('rbx', ['num', 0], ['null'])
    inner2 = rb_call('rbx', ['num', 1], ['null'])
    before = []
    if hoist:
        before = [['set', 't', inner]] + ([['set', 't2', inner2]] if form == 'both' else [])
        inner, inner2 = ['var', 't'], ['var', 't2']
    if form == 'first':
        pending = rb_call('fa', inner, ['null'])
    elif form == 'second':
        pending = rb_call('fa', ['num', 1], inner)
    elif form == 'in-add':
        pending = rb_call('fa', ['add', ['num', 1], inner], ['null'])
    elif form == 'via-ident':
        pending = rb_call('fa', rb_call('fid', inner, ['null']), ['null'])
    else:                                   # both arguments run rbx: left to right
        pending = rb_call('fa', inner, inner2)
    if site == 'set':
        at = [['set', 'r', pending], ['logv', 'r', ['var', 'r']]]
    elif site == 'ret':
        at = [['ret', pending]]
    elif site == 'jump':
        at = [['jnz', 'taken', pending], ['logv', 'nottaken', ['num', 0]], ['label', 'taken']]
    elif site == 'logv':
        at = [['logv', 'v', pending]]
    elif form in ('second', 'via-ident'):   # operands run left to right: a call of fa in the LEFT operand still reaches the old one
        at = [['set', 'r', ['add', rb_call('fa', ['num', 5], ['null']), pending]], ['logv', 'r', ['var', 'r']]]
    else:
        at = [['set', 'r', ['add', pending, rb_call('fa', ['num', 5], ['null'])]], ['logv', 'r', ['var', 'r']]]
    at = before + at
    if scope == 'top':
        stmts += at
    elif scope == 'in-body':
        stmts.append(['def', 'site', 'site1', [['logn', 'site1']] + at + [['ret', ['num', 9]]]])
        stmts += [['set', 's', rb_call('site', ['num', 3], ['null'])], ['logv', 's', ['var', 's']]]
    else:
        files['site.bare'] = at
        stmts.append(['include', 'site.bare'])
    stmts += [['set', 'r1', rb_call('fa', ['num', 2], ['null'])], ['logv', 'r1', ['var', 'r1']], ['ret', ['arr', [['var', 'r1']]]]]
    return stmts, files


def argbind_directed_cases():
    for initial in ARG_INITIALS:
        for how in ARG_HOWS:
            for form in ARG_FORMS:
                for site in ARG_SITES:
                    for scope in ARG_SCOPES:
                        yield [initial, how, form, site, scope]


def argbind_session(params, hoist=False):
    stmts, files = argbind_directed(*params, hoist=hoist)
    return {'progs': [stmts], 'files': files, 'steps': [['exec', 0, {}], ['exec', 0, {}], ['call', 'fa', [2, None]]], 'max': RB_MAX}


def argbind_hoistable(params):
    """not when a call in the LEFT operand runs before the arguments of the pending call (hoisting would move rbx before it)"""
    return not (params[3] == 'operand' and params[2] in ('second', 'via-ident'))


def argbind_seen(session):
    """what an observer of one execution sees, without the temporaries of the hoisted spelling and without the statement count"""
    models = [rb_model(p) for p in session['progs']]
    out = rb_canon(run_session_impl(dict(session, steps=session['steps'][:1]), models, rb_files_text(session.get('files')), False)[0])
    out = {k: v for k, v in out.items() if k != 'count'}
    out['globals'] = [kv for kv in out['globals'] if kv[0] not in ('t', 't2')]
    return out


def argbind_hoist_oracle(params):
    """argument-as-own-statement, a relation on the implementation alone: `r = fa(rbx(0, null), null)` and `t = rbx(0, null)`
    followed by `r = fa(t, null)` give the same result / error, log and globals.  -> None or (expected, actual)"""
    if not argbind_hoistable(params):
        return None
    expected, actual = argbind_seen(argbind_session(params, hoist=True)), argbind_seen(argbind_session(params))
    return None if expected == actual else (expected, actual)


# (I) a function statement binds its global WHEN IT IS EXECUTED, in whatever statement list it stands: a call placed before it does
#     not see it, a function statement after a return / behind a taken jump / after a failing statement binds nothing (the name
#     keeps what it had: nothing, an older script function, a host callable), two function statements of one name take effect in
#     order.  The exhaustive stream has these shapes in the script's own list; here they stand in a function body, in an included
#     file and in a file included from a function body as well.
ORDER_SHAPES = ['call-before-def', 'def-after-return', 'def-jumped-over', 'def-not-jumped-over', 'def-after-failure',
                'def-after-undefined-call', 'two-defs']
ORDER_PLACES = ['top', 'body', 'include', 'include-in-body']
ORDER_INITIALS = ['unbound', 'bound', 'host']


def order_directed(shape, place, initial):
    """-> (statements, files, globals of the execution)"""
    new = ['def', 'fa', 'fa2', rb_simple_body('fa2', 20)]
    first_call = [['set', 'r', rb_call('fa', ['num', 1], ['null'])], ['logv', 'r', ['var', 'r']]]
    at = {
        'call-before-def': first_call + [new],
        'def-after-return': [['ret', ['num', 5]], new],
        'def-jumped-over': [['jump', 'end'], new, ['label', 'end']],
        'def-not-jumped-over': [['jnz', 'end', ['num', 0]], new, ['label', 'end']],
        'def-after-failure': [['jump', 'nowhere'], new],
        'def-after-undefined-call': [['do', rb_call('nosuch', ['num', 0], ['null'])], new],
        'two-defs': [new] + first_call + [['def', 'fa', 'fa3', rb_simple_body('fa3', 30)], ['set', 'q', rb_call('fa', ['num', 1], ['null'])],
                                         ['logv', 'q', ['var', 'q']]],
    }[shape]
    files = {}
    stmts = []
    if initial == 'bound':
        stmts += [['def', 'fa', 'fa1', rb_simple_body('fa1', 0)], ['set', 'r0', rb_call('fa', ['num', 1], ['null'])], ['logv', 'r0', ['var', 'r0']]]
    if place in ('include', 'include-in-body'):
        files['lib.bare'] = at
        at = [['include', 'lib.bare']]
    if place in ('body', 'include-in-body'):
        stmts.append(['def', 'site', 'site1', [['logn', 'site1']] + at + [['ret', ['num', 9]]]])
        at = [['set', 's', rb_call('site', ['num', 3], ['null'])], ['logv', 's', ['var', 's']]]
    stmts += at
    stmts += [['set', 'r1', rb_call('fa', ['num', 2], ['null'])], ['logv', 'r1', ['var', 'r1']], ['ret', ['arr', [['var', 'r1']]]]]
    return stmts, files, ({'fa': {'host': 'fail'}} if initial == 'host' else {})


def order_directed_cases():
    for shape in ORDER_SHAPES:
        for place in ORDER_PLACES:
            for initial in ORDER_INITIALS:
                yield [shape, place, initial]


def order_session(params):
    stmts, files, g = order_directed(*params)
    return {'progs': [stmts], 'files': files, 'steps': [['exec', 0, g], ['exec', 0, g], ['call', 'fa', [2, None]]], 'max': RB_MAX}


class RbGen:
    """random re-binding programs: several function statements per name, aliases, systemPartial values, callbacks,
    systemGlobalSet, assignments to function names, nested function statements, includes; bodies that call by name in return
    position, inside an addition, through a variable, through if(), twice; labels named alike in callers and callees"""

    def __init__(self, rng, host=False):
        self.rng = rng
        self.host = host              # the host supplies hostApply / hostTry
        self.tags = 0
        self.files = {}
        self.bound = set()            # global names that (probably) hold a function when the statement being generated runs

    def tag(self, name):
        self.tags += 1
        return f'{name}{self.tags}'

    def some_function(self):
        """mostly a name that holds a function, sometimes any name (undefined function / null callee)"""
        rng = self.rng
        if self.bound and rng.random() < 0.92:
            return rng.choice(sorted(self.bound))
        return rng.choice(RB_NAMES + RB_VARS)

    def callee(self, own=None, in_body=False):
        rng = self.rng
        if own is not None and rng.random() < 0.45:
            return own
        if in_body and rng.random() < 0.12:
            return 'cb'
        return self.some_function()

    def cb_expr(self, in_body):
        rng = self.rng
        if in_body and rng.random() < 0.6:
            return ['var', 'cb']
        return ['var', self.some_function()] if rng.random() < 0.6 else ['null']

    def fn_source(self):
        return ['var', self.some_function()]

    def bind(self, name, source=None):
        if source is None or source[1] in self.bound:
            self.bound.add(name)
        else:
            self.bound.discard(name)

    def action(self, depth, in_body):
        """statements that alias or re-bind"""
        rng = self.rng
        kind = rng.choice(['def', 'def', 'def', 'gset', 'gset', 'gset-null', 'alias', 'alias', 'alias', 'assign', 'assign', 'partial',
                           'partial', 'include', 'include'])
        if kind == 'def':
            name = rng.choice(RB_NAMES)
            self.bind(name)
            if depth >= 2 or rng.random() < 0.5:
                return [['def', name, self.tag(name), rb_simple_body('s' + str(self.tags), 10 * self.tags)]]
            return [self.funcdef(name, depth + 1)]
        if kind == 'gset':
            name, source = rng.choice(RB_NAMES + RB_VARS), self.fn_source()
            self.bind(name, source)
            return [['do', ['gset', name, source]]]
        if kind == 'gset-null':
            name = rng.choice(RB_NAMES)
            self.bound.discard(name)
            return [['do', ['gset', name, ['null']]]]
        if kind in ('alias', 'assign'):
            name, source = rng.choice(RB_VARS if kind == 'alias' else RB_NAMES), self.fn_source()
            if not in_body:                                # inside a body the assignment makes a local
                self.bind(name, source)
            return [['set', name, source]]
        if kind == 'partial':
            name, source = rng.choice(RB_VARS), self.fn_source()
            if not in_body:
                self.bind(name, source)
            return [['set', name, ['partial', source, ['num', rng.randint(0, 3)]]]]
        url = f'lib{len(self.files)}.bare'
        if rng.random() < 0.1:
            if rng.random() < 0.5:
                self.files[url] = 'broken'
            return [['include', url]]                      # broken, or missing
        content = []
        for _ in range(rng.randint(1, 2)):
            name = rng.choice(RB_NAMES)
            self.bind(name)
            content.append(self.funcdef(name, 2) if rng.random() < 0.5 else
                           ['def', name, self.tag(name), rb_simple_body('i' + str(self.tags), 10 * self.tags)])
        if rng.random() < 0.3:
            name, source = rng.choice(RB_VARS), self.fn_source()
            self.bind(name, source)
            content.append(['set', name, source])
        self.files[url] = content
        return [['include', url]]

    def funcdef(self, name, depth):
        rng = self.rng
        tag = self.tag(name)
        body = [['logn', tag]]
        nested_ok = depth < 2
        if rng.random() < 0.3:
            body += self.body_action(depth, nested_ok)
        label = 'done' if rng.random() < 0.93 else 'gone'      # 'gone': never a label of a body (the caller may have one)
        body.append(['jle0', label])
        if rng.random() < 0.25:
            body += self.body_action(depth, nested_ok)
        form = rng.choice(['tail', 'tail', 'tail', 'add1', 'via-var', 'ifpos', 'two', 'do'] + (['via-host', 'via-host', 'via-try', 'via-try'] if self.host else []))
        body += rb_recursive_step(form, self.callee(name, True), self.cb_expr(True))
        body.append(['label', 'done'])
        body += rng.choice([[['ret', ['num', 10 * self.tags]]], [['ret', ['num', 10 * self.tags]]], [['ret', ['var', 'n']]], [], [['ret0']]])
        return ['def', name, tag, body]

    def body_action(self, depth, nested_ok):
        for _ in range(8):
            act = self.action(depth, True)
            # included text cannot hold a nested function statement; hand-built bodies can
            if nested_ok or not any(s[0] in ('def', 'include') for s in act):
                return act
        return []

    def program(self):
        rng = self.rng
        first = rng.sample(RB_NAMES, rng.randint(1, 3))
        self.bound.update(first)                       # a body may call a function that is defined after it
        stmts = [self.funcdef(name, 0) for name in first]
        results = []
        def call(callee, n_expr=None):
            var = f'r{len(results)}'
            results.append(var)
            if n_expr is None and self.host and rng.random() < 0.35:
                return [['set', var, ['call', rng.choice(['hostApply', 'hostTry', 'hostTry']), [['var', callee], ['num', rng.randint(0, 4)]]]],
                        ['logv', var, ['var', var]]]
            if n_expr is None:
                n_expr = ['num', rng.randint(0, 4)]
                if rng.random() < 0.15:                    # an argument that runs script functions itself
                    n_expr = rb_call(self.callee(), n_expr, self.cb_expr(False))
            return [['set', var, rb_call(callee, n_expr, self.cb_expr(False))], ['logv', var, ['var', var]]]
        for _ in range(rng.randint(3, 9)):
            kind = rng.choice(['action', 'action', 'call', 'call', 'call', 'label', 'history', 'arg-history'])
            if kind == 'action':
                stmts += self.action(0, False)
            elif kind == 'arg-history':
                # the name is re-bound by a function that runs while the ARGUMENTS of a call of that name are evaluated
                name = rng.choice(sorted(self.bound & set(RB_NAMES)) or RB_NAMES)
                how = rng.choice(['def', 'def', 'deep', 'gset', 'gset-null', 'include', 'nothing'])
                if how == 'def':
                    effect = [self.funcdef(name, 2) if rng.random() < 0.4 else ['def', name, self.tag(name), rb_simple_body('s' + str(self.tags), 10 * self.tags)]]
                elif how == 'deep':
                    stmts.append(['def', 'rbd', self.tag('rbd'), [['def', name, self.tag(name), rb_simple_body('s' + str(self.tags), 10 * self.tags)]]])
                    effect = [['do', rb_call('rbd', ['num', 0], ['null'])]]
                elif how == 'gset':
                    effect = [['do', ['gset', name, ['var', rng.choice(sorted(self.bound - {name}) or RB_NAMES)]]]]
                elif how == 'gset-null':
                    effect = [['do', ['gset', name, ['null']]]]
                elif how == 'include':
                    url = f'lib{len(self.files)}.bare'
                    self.files[url] = [['def', name, self.tag(name), rb_simple_body('i' + str(self.tags), 10 * self.tags)]]
                    effect = [['include', url]]
                else:
                    effect = []
                tag = self.tag('rb')
                stmts.append(['def', 'rb', tag, [['logn', tag]] + effect + [['ret', ['num', rng.randint(0, 3)]]]])
                inner = rb_call('rb', ['num', 0], ['null'])
                stmts += call(name, rng.choice([inner, inner, ['add', ['num', 1], inner], rb_call('rb', inner, ['null'])]))
                if how == 'gset-null':
                    self.bound.discard(name)
                else:
                    self.bind(name)
            elif kind == 'history':
                # keep the value of a function name, re-bind the name, call the kept value (and the name)
                name, var = rng.choice(sorted(self.bound & set(RB_NAMES)) or RB_NAMES), rng.choice(RB_VARS)
                keep = ['var', name] if rng.random() < 0.75 else ['partial', ['var', name], ['num', rng.randint(1, 3)]]
                stmts.append(['set', var, keep])
                self.bind(var, ['var', name])
                how = rng.choice(['def', 'def', 'gset', 'gset-null', 'assign', 'include', 'nested-def'])
                if how == 'def':
                    stmts.append(self.funcdef(name, 1) if rng.random() < 0.5 else ['def', name, self.tag(name), rb_simple_body('s' + str(self.tags), 10 * self.tags)])
                elif how == 'gset':
                    stmts.append(['do', ['gset', name, ['var', rng.choice(sorted(self.bound - {name, var}) or RB_NAMES)]]])
                elif how == 'gset-null':
                    stmts.append(['do', ['gset', name, ['null']]])
                    self.bound.discard(name)
                elif how == 'assign':
                    stmts.append(['set', name, ['var', rng.choice(sorted(self.bound - {name, var}) or RB_NAMES)]])
                elif how == 'include':
                    url = f'lib{len(self.files)}.bare'
                    self.files[url] = [['def', name, self.tag(name), rb_simple_body('i' + str(self.tags), 10 * self.tags)]]
                    stmts.append(['include', url])
                else:
                    stmts.append(['def', 'rb', self.tag('rb'), [['def', name, self.tag(name), rb_simple_body('s' + str(self.tags), 10 * self.tags)]]])
                    stmts.append(['do', rb_call('rb', ['num', 0], ['null'])])
                stmts += call(var)
                if rng.random() < 0.5:
                    stmts += call(name)
            elif kind == 'label':
                stmts.append(['label', rng.choice(['done', 'gone'])])
            else:
                stmts += call(self.callee())
        stmts.append(['ret', ['arr', [['var', v] for v in results]]])
        return stmts, self.files


def rb_modelled(session):
    return run_session_sim(session) is not None


def rebind_random(rng, host=False):
    """-> (statements, files) of a program RbSim models (up to 6 attempts), or None; host: it uses hostApply / hostTry"""
    for _ in range(6):
        gen = RbGen(rng, host)
        stmts, files = gen.program()
        if rb_modelled({'progs': [stmts], 'files': files, 'steps': [['exec', 0, dict(HOST_GLOBALS) if host else {}]], 'max': RB_MAX}):
            return stmts, files
    return None


DIVE_FAULTS = ['none', 'none', 'label', 'label', 'undefined', 'null-callee', 'budget', 'include-missing', 'include-broken', 'partial-label',
               'top-label', 'top-undefined']
DIVE_CAUGHT = ['host-fail', 'caught-label', 'caught-undefined', 'caught-budget', 'caught-include-missing', 'caught-host-fail']
DIVE_SHAPES = ['tail', 'add1', 'via-var', 'mutual', 'ifpos', 'via-host']
DIVE_FILES = {'broken.bare': 'broken', 'ok.bare': [['def', 'fc', 'fc9', rb_simple_body('fc9', 90)]]}


def dive_program(fault, shape):
    """fa(N, null) nests N + 1 script function calls (directly, inside an addition, through a variable, through fb, through
    if(), through the host callable hostApply); the innermost one ends normally (fault 'none') or with a runtime error raised at that depth: a jump to a label that
    only the top level has, an undefined function, a host callable that raises BareScriptRuntimeError, a null callee, the statement budget, a missing / broken include, an unknown
    label inside a function reached through systemPartial; 'top-label' / 'top-undefined': the calls end normally and then the
    top level jumps to a label that only the body of fa has / calls an undefined function (a failure at nesting depth 0).
    The top level itself jumps forward over a statement to a label that the bodies have too.
    'caught-<fault>': the top level calls hostTry(fa, N) three times - the host catches the error raised at depth N + 1 and the
    run goes on - and then fh(N), a copy of fa that ends normally (mutual: as tail)."""
    caught = fault.startswith('caught-')
    if caught:
        fault = fault[len('caught-'):]
        shape = 'tail' if shape == 'mutual' else shape
    bottom = {
        'none': [['ret', ['num', 5]]],
        'top-label': [['ret', ['num', 5]]],
        'top-undefined': [['ret', ['num', 5]]],
        'label': [['jump', 'nowhere']],
        'undefined': [['do', ['call', 'nosuch', []]], ['ret', ['num', 5]]],
        'host-fail': [['do', ['call', 'hostFail', []]], ['ret', ['num', 5]]],
        'null-callee': [['do', rb_call('cb', ['num', 0], ['null'])], ['ret', ['num', 5]]],
        'budget': [['label', 'spin'], ['jump', 'spin']],
        'include-missing': [['include', 'missing.bare'], ['ret', ['num', 5]]],
        'include-broken': [['include', 'broken.bare'], ['ret', ['num', 5]]],
        'partial-label': [['set', 'p', ['partial', ['var', 'fb'], ['num', 0]]], ['ret', rb_call('p', ['null'], ['null'])]],
    }[fault]
    callee = 'fb' if shape == 'mutual' else 'fa'
    step = rb_recursive_step('tail' if shape == 'mutual' else shape, callee)
    stmts = [['def', 'fa', 'fa1', [['jle0', 'bottom']] + step + [['label', 'inner'], ['label', 'bottom']] + bottom]]
    if shape == 'mutual':
        stmts.append(['def', 'fb', 'fb1', [['jle0', 'bottom'], ['ret', rb_call('fa', ['nm1', 1], ['var', 'cb'])], ['label', 'bottom'],
                                           ['ret', rb_call('fa', ['num', 0], ['var', 'cb'])]]])
    elif fault == 'partial-label':
        stmts.append(['def', 'fb', 'fb1', [['jump', 'nowhere']]])
    stmts += [['label', 'nowhere'], ['jump', 'bottom'], ['logv', 'skipped', ['num', 0]], ['label', 'bottom']]
    if caught:
        stmts.append(['def', 'fh', 'fh1', [['jle0', 'bottom']] + rb_recursive_step(shape, 'fh') + [['label', 'bottom'], ['ret', ['num', 5]]]])
        for _ in range(3):
            stmts += [['set', 'c', ['call', 'hostTry', [['var', 'fa'], ['var', 'N']]]], ['logv', 'c', ['var', 'c']]]
    stmts += [['set', 'out', rb_call('fh' if caught else 'fa', ['var', 'N'], ['null'])], ['logv', 'out', ['var', 'out']]]
    if fault == 'top-label':
        stmts.append(['jump', 'inner'])
    elif fault == 'top-undefined':
        stmts.append(['do', ['call', 'nosuch', []]])
    stmts.append(['ret', ['var', 'out']])
    return stmts


SESSION_DEPTHS = [0, 1, 2, 3, 5, 10, 20, 30, 40, 50]


def session_random(rng):
    """A pool of 2..4 programs (dive programs with and without a fault, random re-binding programs) executed 2..6 / 8..20 / 60..150
    times in random order on one options object, with nesting depth 0..50 at the point of failure (<= 2 in the long sessions);
    a quarter of the executions with their own statement budget (40 / 300 / 2000 instead of 2000);
    after 30% of the executions the host calls script functions of the finished run directly or through evaluate_expression."""
    for _ in range(6):
        progs, files = [], dict(DIVE_FILES)
        host = rng.random() < 0.35                         # the host supplies hostApply / hostTry in every execution
        for _ in range(rng.randint(2, 4)):
            if rng.random() < 0.7:
                fault = rng.choice(DIVE_FAULTS + (DIVE_CAUGHT * 2 if host else []))
                shape = rng.choice(DIVE_SHAPES if host else DIVE_SHAPES[:-1])
                if fault == 'partial-label' and shape == 'mutual':
                    fault = 'label'
                progs.append(dive_program(fault, shape))
            else:
                found = rebind_random(rng, host)
                if found is None:
                    continue
                stmts, more = found
                renamed = {url: f'p{len(progs)}{url}' for url in more}
                stmts = json.loads(json.dumps(stmts))
                rb_rename_includes(stmts, renamed)
                files.update({renamed[url]: content for url, content in more.items()})
                progs.append(stmts)
        if not progs:
            continue
        profile = rng.choice(['short', 'short', 'medium', 'medium', 'long'])
        length = {'short': rng.randint(2, 6), 'medium': rng.randint(8, 20), 'long': rng.randint(60, 150)}[profile]
        depths = SESSION_DEPTHS if profile != 'long' else [0, 1, 2]
        steps = []
        for _ in range(length):
            steps.append(['exec', rng.randrange(len(progs)), dict(HOST_GLOBALS if host else {}, N=rng.choice(depths))] + ([rng.choice([40, 300, 2000])] if rng.random() < 0.25 else []))
            if rng.random() < 0.3:
                for _ in range(rng.randint(1, 3)):
                    name = rng.choice(RB_NAMES + RB_VARS + ['nosuch'])
                    n_arg = rng.choice([0, 1, 2, 3, rng.choice(depths)])
                    if rng.random() < 0.6:
                        steps.append(['call', name, [n_arg, rng.choice([None, None, {'global': rng.choice(RB_NAMES + RB_VARS)}])]])
                    else:
                        steps.append(['eval', rb_call(name, ['num', n_arg], rng.choice([['null'], ['var', rng.choice(RB_NAMES)]])), rng.random() < 0.5])
        session = {'progs': progs, 'files': files, 'steps': steps, 'max': SESSION_MAX}
        if rb_modelled(session):
            return session, profile + ('-host' if host else '')
    return None


def rb_rename_includes(stmts, renamed):
    for s in stmts:
        if s[0] == 'include' and s[1] in renamed:
            s[1] = renamed[s[1]]
        elif s[0] == 'def':
            rb_rename_includes(s[3], renamed)


def session_directed_cases(depths=(1, 40, 50)):
    """every fault x shape at depth 1, (40,) 50, executed [healthy, faulty] x 3 on one options object, and 120 x the faulty program
    at depth 0 followed by the healthy one"""
    for fault in sorted(set(DIVE_FAULTS) - {'none'}) + DIVE_CAUGHT:
        for shape in DIVE_SHAPES:
            if (fault == 'partial-label' and shape == 'mutual') or (fault in DIVE_CAUGHT and shape == 'mutual'):
                continue
            host = dict(HOST_GLOBALS) if fault in DIVE_CAUGHT or shape == 'via-host' else {}
            progs = [dive_program('none', shape), dive_program(fault, shape)]
            for depth in depths:
                steps = []
                for _ in range(3):
                    steps += [['exec', 0, dict(host, N=12)], ['exec', 1, dict(host, N=depth)]]
                steps.append(['call', 'fa', [3, None]])
                yield ['alternate', fault, shape, depth], {'progs': progs, 'files': dict(DIVE_FILES), 'steps': steps, 'max': SESSION_MAX}
        host = dict(HOST_GLOBALS) if fault in DIVE_CAUGHT else {}
        progs = [dive_program('none', 'tail'), dive_program(fault, 'tail')]
        steps = [['exec', 1, dict(host, N=0)] for _ in range(120)] + [['exec', 0, dict(host, N=3)], ['exec', 1, dict(host, N=0)]]
        yield ['many-shallow', fault], {'progs': progs, 'files': dict(DIVE_FILES), 'steps': steps, 'max': 300}


def stream_rebind(ctx, n_random, driver=True, name='exec-rebind'):
    rng = ctx.rng(name)
    st = ctx.stream(name,
                    '(F) re-binding histories, generated in an abstract language, rendered to hand-built jump-level models and predicted by '
                    'RbSim (a statement interpreter with its own expression evaluator, written from the property statement): directed = '
                    'fa is bound to a function that calls fa again (return position / inside an addition / through a variable / through '
                    'if() / through fb) x the old function value is kept (alias variable, systemPartial, callback argument, local alias '
                    'of a running function, still executing, called by name earlier in the same invocation) x the global fa is re-bound (second function statement, function statement '
                    'in another body, systemGlobalSet to a function / to null, assignment = a local shadow inside a body, include) x at '
                    'the top level (called-before: in a function called by the body) / from inside the running body - all 360; '
                    '(H) binding changed while the ARGUMENTS of a pending call are evaluated: fa(rbx(0, null), null) where the body of rbx '
                    'executes a function statement named fa (nested / two calls deep / in an included file), systemGlobalSet of fa to '
                    'another function / to null, an included top-level assignment to fa, only logs and sets another global, or fails '
                    'itself x fa bound (and called) before / not bound at all x the argument call as first / second argument, inside an '
                    'addition, through an identity function, in both arguments x the pending call in an assignment, a return, the '
                    'condition of a jump, a log line, an operand of + next to another call of fa x at the top level / in a function body / '
                    'in an included file - all 1200; the pending call reaches what the name is bound to AFTER its arguments ran '
                    '(session-closed-form by RbSim) and gives the same result, log and globals as with the argument call written as a '
                    'statement of its own before it (argument-as-own-statement, implementation only); '
                    '(I) a function statement takes effect when it is executed: a call before the function statement, a function statement '
                    'after a return / behind a taken jump / behind a jump that is not taken / after a statement that fails (unknown label, '
                    'undefined function), two function statements of one name with calls in between x in the script list / a function '
                    'body / an included file / a file included from a function body x the name not bound / bound to an older script '
                    'function / a host callable before - all 84, then the host calls the name; '
                    'random = 1..3 names with several function statements each (and names re-bound from inside the arguments of their own call), '
                    'aliases, systemPartial, systemGlobalSet, assignments to function names, nested function statements, includes '
                    '(present / missing / broken), bodies calling by name, by alias and by callback in every return form, labels named '
                    'alike in callers and callees; a quarter of the random programs also call through the host callables hostApply(fn, n) '
                    '(the host calls fn) and hostTry(fn, n) (the host calls fn and catches BareScriptRuntimeError) - these are '
                    'host-only, no Lean comparison; every program is one session [exec, exec, host call of fa]; execute_script vs Lean '
                    'execM (exec op with the include files) vs RbSim (session-closed-form) vs the reference statement interpreter; '
                    'non-trivial = RbSim models the program')
    saved_driver = ctx.driver
    if not driver:
        ctx.driver = None
    try:
        cases = []
        for params in rebind_directed_cases():
            stmts, files = rebind_directed(*params)
            session = {'progs': [stmts], 'files': files, 'steps': [['exec', 0, {}], ['exec', 0, {}], ['call', 'fa', [2, None]]], 'max': RB_MAX}
            cases.append((['rebind'] + params, session, ['directed', 'keep-' + params[0], 'rebind-' + params[1], 'form-' + params[2], params[3]]))
        for params in argbind_directed_cases():
            cases.append((['argbind'] + params, argbind_session(params),
                          ['directed', 'argbind', 'initially-' + params[0], 'argument-' + params[1], 'argform-' + params[2], 'site-' + params[3],
                           'scope-' + params[4]]))
            found = argbind_hoist_oracle(params)
            if found is not None:
                hoisted, plain = argbind_session(params, hoist=True), argbind_session(params)
                ctx.witness('argument-as-own-statement',
                            {'argbind': params, 'model': rb_model(plain['progs'][0]), 'hoisted_model': rb_model(hoisted['progs'][0]),
                             'file_texts': rb_files_text(plain['files']), 'hoisted_file_texts': rb_files_text(hoisted['files']),
                             'globals': {}, 'max': RB_MAX}, *found)
        for params in order_directed_cases():
            cases.append((['order'] + params, order_session(params), ['directed', 'order', 'shape-' + params[0], 'place-' + params[1], 'initially-' + params[2]]))
        for ix in range(n_random):
            host = rng.random() < 0.25
            found = rebind_random(rng, host)
            if found is None:
                continue
            stmts, files = found
            g = dict(HOST_GLOBALS) if host else {}
            session = {'progs': [stmts], 'files': files, 'max': RB_MAX,
                       'steps': [['exec', 0, g], ['exec', 0, g], ['call', rng.choice(RB_NAMES), [rng.randint(0, 3), None]]]}
            cases.append((json.dumps(['rebind-random', ix, host, stmts, files], separators=(',', ':')), session,
                          ['random', 'with-include' if rb_has_include(stmts) else 'no-include', 'host-callables' if host else 'lean-host']))
        run_sessions(ctx, name, st, cases)
    finally:
        ctx.driver = saved_driver


def stream_sessions(ctx, n_random, driver=True, name='exec-sessions'):
    rng = ctx.rng(name)
    st = ctx.stream(name,
                    '(G) sessions: sequences of executions (and host calls of the script functions they leave behind, directly and through '
                    'evaluate_expression) on ONE options dict whose globals member is replaced by a fresh copy before every execution - '
                    'what an embedding application does; programs = fa(N) nesting N+1 calls (tail / in an addition / through a variable / '
                    'mutual / through if()) whose innermost call ends normally or with a runtime error raised at that depth (unknown label '
                    'that only the caller has, undefined function, null callee, statement budget, missing include, broken include, '
                    'unknown label behind systemPartial; the same failures caught by the host callable hostTry three times in one run, '
                    'after which the run goes on) + random re-binding programs; directed = every fault x shape alternating with '
                    'the healthy program at depth 1 / 50 (thorough: + 40) three times + 120 shallow faults then the healthy program; random = pools '
                    'of 2..4 programs, 2..150 steps, depth 0..50, a quarter of the executions with their own maxStatements (40/300/2000); failures '
                    'at the top level too (unknown label that only a body has, undefined function); oracles: every step has the same outcome (result/error, log, globals, '
                    'statement count) as with new options per execution (session-reused-options), the outcome RbSim predicts '
                    '(session-closed-form), models unchanged; every distinct execution also vs Lean execM and vs the reference statement '
                    'interpreter; host calls and options re-use are host-only (the Lean model executes one model from one state): '
                    'implementation-side oracles; non-trivial = RbSim models the session')
    saved_driver = ctx.driver
    if not driver:
        ctx.driver = None
    try:
        cases = [(case, session, ['directed', case[0], 'fault-' + case[1]]) for case, session in session_directed_cases((1, 50) if ctx.quick else (1, 40, 50))]
        for ix in range(n_random):
            found = session_random(rng)
            if found is None:
                continue
            session, profile = found
            cases.append((json.dumps(['session-random', ix, session], separators=(',', ':')), session, ['random', profile]))
        run_sessions(ctx, name, st, cases)
    finally:
        ctx.driver = saved_driver


# ---------------------------------------------------------------------------------------------------------------------
# witnesses: the one that goes into the replay file is small enough to be stored whole and fails again in a fresh process
# ---------------------------------------------------------------------------------------------------------------------

REPLAY_LIMIT = 18000         # fw stores the first witness whole only below 20000 characters


def witness_size(w):
    return len(json.dumps(w, default=str))


def shrink_witness(w, max_replays=400):
    """Greedy statement deletion (any list of the model, the history first) while the same oracle still fails."""
    inp = w['input']
    if 'shared' in inp or 'model' not in inp or inp.get('host_globals') or w['oracle'] not in ('model-immutable', 'repeatable', 'documented-statement-semantics'):
        return w
    validate = fw.impl()['model'].validate_script

    def still_fails(candidate):
        try:
            validate(candidate['input']['model'])
            return replay(copy.deepcopy(candidate))
        except Exception:  # pylint: disable=broad-except
            return False
    best = copy.deepcopy(w)
    replays = 0
    if best['input'].get('history'):
        trial = copy.deepcopy(best)
        trial['input']['history'] = []
        replays += 1
        if still_fails(trial):
            best = trial
    progress = True
    while progress and replays < max_replays:
        progress = False
        n_lists = len(list(all_lists(best['input']['model']['statements'])))
        for li in range(n_lists):
            ix = len(list(all_lists(best['input']['model']['statements']))[li]) - 1
            while ix >= 0 and replays < max_replays:
                trial = copy.deepcopy(best)
                del list(all_lists(trial['input']['model']['statements']))[li][ix]
                replays += 1
                if still_fails(trial):
                    best = trial
                    progress = True
                    if len(list(all_lists(best['input']['model']['statements']))) != n_lists:
                        break                      # a function definition went away: the lists are renumbered
                ix -= 1
            if len(list(all_lists(best['input']['model']['statements']))) != n_lists:
                break
    if best['input'] != w['input']:
        for earlier in best['input'].get('history', []):
            run_impl(copy.deepcopy(earlier), best['input']['globals'], best['input']['max'])
        _, bad = impl_oracles(copy.deepcopy(best['input']['model']), best['input']['globals'], best['input']['max'])
        for name, expected, actual in bad:
            if name == best['oracle']:
                best['expected'], best['actual'] = expected, actual
        best['shrunk'] = f'statements deleted while the oracle still failed ({witness_size(w)} -> {witness_size(best)} characters)'
    return best


def replays_in_fresh_process(w):
    """python harness/check.py C08 --replay <file> in a new interpreter (same VERIF_REPO): does the witness fail there too?"""
    import subprocess
    import sys
    import tempfile
    harness = os.path.dirname(os.path.dirname(os.path.abspath(__file__)))
    with tempfile.NamedTemporaryFile('w', suffix='.json', delete=False, encoding='utf-8') as fh:
        json.dump({'property': ID, 'kind': 'failing-input', 'witness': w}, fh, default=str)
    try:
        res = subprocess.run([sys.executable, os.path.join(harness, 'check.py'), ID, '--replay', fh.name], cwd=os.path.dirname(harness),
                             capture_output=True, text=True, timeout=120, check=False)
        return res.returncode == 1 and 'VIOLATION' in res.stdout
    except Exception:  # pylint: disable=broad-except
        return False
    finally:
        os.unlink(fh.name)


def order_witnesses(ctx):
    """Only when the property failed: smallest witnesses first; the first one is shrunk below the replay-file limit if needed and
    is one that was seen to fail again in a fresh interpreter (a defect that depends on object addresses or on state left by
    earlier executions may not repeat there), trying the smallest witness of every oracle and then the next smallest ones."""
    if not ctx.witnesses:
        return
    ordered = sorted(ctx.witnesses, key=witness_size)
    candidates, seen = [], set()
    for w in ordered:
        if w['oracle'] not in seen:
            seen.add(w['oracle'])
            candidates.append(w)
    candidates += [w for w in ordered if not any(w is c for c in candidates)][:4]
    # sessions reported whole: they fail on their own history, also when the process carries state from earlier cases
    candidates += [w for w in ordered if w.get('whole_session') and not any(w is c for c in candidates)][:3]
    for w in candidates[:15]:
        small = shrink_witness(w) if witness_size(w) > REPLAY_LIMIT else w
        if witness_size(small) <= REPLAY_LIMIT and replays_in_fresh_process(small):
            ordered = [small] + [o for o in ordered if o is not w]
            break
    ctx.witnesses[:] = ordered


def streams(ctx):
    try:
        # the sessions first: the process is still as a fresh interpreter leaves it, and the witness list is empty (it is capped)
        stream_sessions(ctx, ctx.scale(120, 1500))
        stream_rebind(ctx, ctx.scale(400, 6000))
        stream_directed(ctx)
        stream_exhaustive(ctx)
        stream_random(ctx, ctx.scale(600, 16000))
    finally:
        order_witnesses(ctx)


def disagreement_known(d, known):
    return False


def search(ctx):
    """Something broke and no witness yet: run the implementation-only oracles with a larger budget."""
    saved = ctx.quick
    try:
        ctx.quick = True
        stream_directed(ctx, driver=False)
        if not ctx.witnesses:
            stream_rebind(ctx, 3000 if saved else 30000, driver=False, name='search-rebind')
        if not ctx.witnesses:
            stream_sessions(ctx, 1000 if saved else 10000, driver=False, name='search-sessions')
        if not ctx.witnesses:
            stream_exhaustive(ctx, driver=False)
        if not ctx.witnesses:
            stream_random(ctx, 6000 if saved else 60000, driver=False, name='search-random')
        order_witnesses(ctx)
    finally:
        ctx.quick = saved


def replay(witness):
    inp = witness['input']
    if inp.get('host_globals'):                 # {'host': kind} -> the host callable
        inp = dict(inp, globals=session_globals(inp['globals']))
    if 'argbind' in inp:                        # (H): the program and its hoisted spelling are rebuilt from the parameters
        return argbind_hoist_oracle(inp['argbind']) is not None
    if 'session' in inp:                        # (F), (G): the whole session again, the oracle of the witness on any step
        return bool(session_failures(inp['session'], witness['oracle'])[0])
    if 'shared' in inp:                         # rebuild the object graph with the shared jump object (JSON cannot hold it)
        _, bad = impl_oracles(build_shared(*inp['shared']), inp['globals'], inp['max'], json_copy=True)
        return any(name == witness['oracle'] for name, _, _ in bad)
    if witness['oracle'] == 'call-without-args-is-call-with-no-arguments':
        def with_args(e):
            if isinstance(e, list):
                return [with_args(x) for x in e]
            if isinstance(e, dict):
                out = {k: with_args(v) for k, v in e.items()}
                if len(e) == 1 and 'function' in e and 'statements' not in e['function']:
                    out['function'].setdefault('args', [])
                return out
            return e
        return run_impl(with_args(inp['model']), inp['globals'], inp['max']) != run_impl(inp['model'], inp['globals'], inp['max'])
    if witness['oracle'] in ('parameter-binding', 'callee-sees-only-its-parameters'):
        got = run_impl(inp['model'], inp['globals'], inp['max'])
        seen = {key: got.get(key, got.get('error', got.get('hostexc'))) for key in ('result', 'log')}
        if witness['oracle'] == 'parameter-binding':
            return seen != inp['expect']
        base = run_impl(inp['base_model'], inp['base_globals'], inp['max'])
        return seen != {key: base.get(key, base.get('error', base.get('hostexc'))) for key in ('result', 'log')}
    if witness['oracle'] == 'fresh-value-each-evaluation':
        return fresh_oracle(run_impl(inp['model'], inp['globals'], inp['max'])) is not None
    # first with short-lived copies, as in the streams (the earlier model is garbage when the model is built, so that object
    # addresses can be reused), then with all the objects of the witness alive
    if inp.get('history'):
        for earlier in inp['history']:
            transient = json.loads(json.dumps(earlier))
            run_impl(transient, inp['globals'], inp['max'])
            del transient
        _, bad = impl_oracles(json.loads(json.dumps(inp['model'])), inp['globals'], inp['max'])
        if any(name == witness['oracle'] for name, _, _ in bad):
            return True
    for earlier in inp.get('history', []):
        run_impl(earlier, inp['globals'], inp['max'])
    _, bad = impl_oracles(inp['model'], inp['globals'], inp['max'])
    return any(name == witness['oracle'] for name, _, _ in bad)


LEVEL_TEXT = ('Theorems about the Lean mirror of _execute_script_helper/_script_function, for every program, host, state and fuel: the '
              'per-invocation label cache is unobservable (execM with any cache valid for the list being run = the cache-free documented '
              'semantics execM0; callValue, execIncludes and execute likewise); a taken jump finds index i iff statement i is the first '
              '"label l" of the SAME list, and raises Unknown jump label iff the list has none (with duplicates the first wins); one-step '
              'lemmas for every statement kind (order, assignment scope, return ends only the current list and the call evaluates to its '
              'value, function statement binds the global, budget test first); a script-function call runs its own body from index 0 with '
              'labels resolved in that body only - the caller list is not an input of the callee. Tied to the code by differential '
              'correspondence on hand-built validated models: every statement list of length <= 4 over 14 atoms (quick), + length 5 over 10 '
              'atoms and length 6 over 9 atoms (thorough), random models <= 40 statements with duplicate labels, dangling jumps, dropped call '
              'arguments and in-place modification of every assigned value; re-binding histories (a function name re-bound by a function statement / '
              'systemGlobalSet / assignment / include while the old function value is kept by an alias, systemPartial, a callback or is still '
              'running: 360 directed + random programs; the name re-bound, unbound or bound for the first time by a function that runs while the '
              'arguments of a pending call of that name are evaluated: 1200 directed); sessions of 2..150 executions and host calls on one options dict with runtime errors '
              'raised at nesting depth 0..51 (implementation-side: same outcome as on new options, as predicted by RbSim); '
              'directed families (duplicate labels, shared statement objects, '
              'calls without args, the call-arity x parameter-name x globals matrix, container-building expressions re-evaluated after an '
              'in-place modification); implementation oracles: independent reference statement interpreter, model dicts unchanged, two '
              'executions identical, closed-form parameter binding, independence of a function from globals named like its parameters, '
              'an argument call written as a statement of its own, '
              'same fresh value at every evaluation.')
LEVEL_NOTE = ('Trusted: Lean kernel; the correspondence harness, its reference interpreter and generators. The theorems are about the Lean '
              'model; model immutability and repeatability are properties of the Python objects and are checked by sampling only '
              '(exec_deterministic is trivial in Lean). Expressions are evaluated by the implementation in the reference interpreter. '
              'Python recursion limit not modelled.')
