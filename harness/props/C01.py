"""C01 - structured control flow runs with its source-level meaning."""

import fw
import progen

ID = 'C01'
LEVEL = 'proof'
LEAN_TARGETS = ['BareProofs.C01', 'BareProofs.C01Erase']
DRIVER = 'drv_c01'
DRIVER_ROOT = 'Drv.C01'
GEN = ['Consts']
THEOREMS = [
    'C01.parseLines_render', 'C01.parse_rejects_ill_nested', 'C01.wellNested_of_parse_ok',
    'C01.lower_exact', 'C01.lower_exact_body', 'C01.run_lowered_eq_runT', 'C01.execute₀_lowered',
    'C01.parse_then_run', 'C01.while_retests_after_body', 'C01.while_continue_actual',
    'C01.ticked_erasure', 'C01.ticked_erasure_forward', 'C01.ticked_erasure_converse', 'C01.termination_iff',
    'C01.ticked_erasure_budget', 'C01.parse_exec_structured', 'C01.parse_exec_structured_budget',
    'C01.Tiny.while_continue_counterexample',
]
ASSUMPTIONS = [
    'expression evaluation is shared between the reference reading and the implementation (C01 is about control flow; operators are C03)',
    'numbers in generated programs are exactly representable, so the rational arithmetic of the model equals float arithmetic',
]
LEVEL_TEXT = ('Theorems, for structured programs of any depth and size and any host: (T1) the line-at-a-time stack/counter algorithm of '
              'parse_script computes exactly the recursive lowering and rejects exactly the ill-nested programs; (T2) the jump machine on the '
              'lowered code equals the ticked structured big-step semantics as a function of fuel, counter, locals and state (return value, '
              'every effect, statement count, divergence, budget exhaustion preserved), globally and for function bodies; composed as '
              'parse_then_run; (T3) ticks and hidden loop variables erase to the plain source-level big-step reading execS in both '
              'directions (termination included); (T4) parse_exec_structured composes T1, C08.cache_transparent, T2 and T3 for '
              'Machine.execute. The Lean lowering (spec and mirror), machine and structured semantics are tied to parser.py/runtime.py by '
              'differential correspondence on grammar-generated programs; an independent Python big-step reading of the source is the '
              'oracle run against the implementation. Known finding F7 (continue inside while skips the condition test) is what the model '
              'encodes (while_continue_actual) and what the oracle reports.')
LEVEL_NOTE = ('Trusted: Lean kernel; harness (progen.py generator/renderer/reference interpreter, fw.py). Expression evaluation is shared by '
              'both sides of the theorems (abstract host) and by oracle and implementation (C03 covers operators). T3/T4 (ticked_erasure, '
              'parse_exec_structured) relate the machine run of the parsed program to the plain source-level reading execS (no ticks, no '
              'hidden for-variables, conditions re-tested before every iteration) under the decidable hypotheses ProgOK (well nested, no '
              'raw jumps/includes, no reserved identifiers, no continue-in-while = F7) and host laws TruthyBool, HostNoReserved. '
              'Python recursion limit and memory are outside the model; the rational number model has no negative zero.')


def known_f7(w):
    # exactly F7: the implementation agrees with the reading in which `continue` inside `while` skips the condition test
    return bool(w.get('explained_by_f7'))


FINDING_MATCHERS = {'F7': known_f7}


F7_PROGRAM = [
    {'k': 'expr', 'name': 'i', 'e': progen.num(0)},
    {'k': 'while', 'c': progen.wf_binary('<', progen.var('i'), progen.num(3)), 'b': [
        {'k': 'expr', 'name': 'i', 'e': progen.wf_binary('+', progen.var('i'), progen.num(1))},
        {'k': 'if', 'c': progen.wf_binary('==', progen.var('i'), progen.num(3)), 't': [{'k': 'continue'}], 'else': None},
        {'k': 'expr', 'name': None, 'e': progen.call('systemLog', progen.wf_binary('+', progen.string('i='), progen.var('i')))},
    ]},
    {'k': 'ret', 'e': progen.var('i')},
]


def gen_cases(ctx, n, stream):
    rng = ctx.rng(stream)
    yield progen.assign_fids([dict(s) for s in F7_PROGRAM]), {}, {'while': 1, 'continue': 1, 'if': 1, 'corpus-F7': 1}
    for i in range(n):
        gen = progen.Gen(rng, max_depth=rng.choice([2, 3, 4, 5]))
        prog = gen.program()
        yield prog, progen.random_globals(rng), gen.stats


def streams(ctx):
    parser = fw.impl()['parser']
    n = ctx.scale(400, 12000)
    cases = list(gen_cases(ctx, n, 'programs'))

    # --- stream lower: text -> statement list (implementation) vs recursive lowering (spec) vs line-at-a-time mirror
    st = ctx.stream('lower', 'grammar-directed structured programs (depth<=5, <=3 functions + prelude): parse_script(text) vs Lean '
                             'lowerProgram (spec) and parseLines∘render (mirror); non-trivial = contains a loop or an if chain')
    resps = ctx.driver.batch([{'op': 'lower', 'prog': prog} for prog, _, _ in cases])
    models = []
    for (prog, _, stats), resp in zip(cases, resps):
        text = '\n'.join(progen.render(prog))
        model = parser.parse_script(text)
        models.append(model)
        impl = progen.canon_script(model, with_fid=False)
        st.case(text, nontrivial=any(k in stats for k in ('if', 'while', 'for')), tags=sorted(stats))
        ctx.compare('lower', text, impl, progen.round_script_numbers(resp.get('spec')))
        ctx.compare('lower-mirror', text, impl, progen.round_script_numbers(resp.get('mirror')))

    # --- stream exec: run
    st = ctx.stream('exec', 'the same programs x initial globals of all value kinds, maxStatements=400: execute_script(parse_script) vs '
                            'Lean jump machine on the lowered code vs Lean ticked structured semantics; oracle: independent Python '
                            'big-step reading of the source; non-trivial = terminates without error and runs a loop')
    impls = [progen.run_impl(model, g, max_statements=400) for (prog, g, _), model in zip(cases, models)]
    reqs = []
    slot = []
    for (prog, g, _), model, impl in zip(cases, models, impls):
        wg = progen.wire_globals(g)
        base = len(reqs)
        reqs.append({'op': 'exec', 'script': progen.canon_script(model), 'globals': wg, 'max': 400, 'fuel': 5000})
        reqs.append({'op': 'execT', 'prog': prog, 'globals': wg, 'max': 400, 'fuel': 5000})
        # the pure reading has no statement budget: only ask for it when the implementation run completed (<= 400 statements)
        pure = 'error' not in impl and 'hostexc' not in impl and not progen.has_while_continue(prog)
        if pure:
            reqs.append({'op': 'execS', 'prog': prog, 'globals': wg, 'fuel': 1200})
        slot.append((base, pure))
    resps = ctx.driver.batch(reqs)
    for ix, ((prog, g, stats), model) in enumerate(zip(cases, models)):
        text = '\n'.join(progen.render(prog))
        impl = impls[ix]
        base, pure = slot[ix]
        m_exec = progen.canon_model_out(resps[base])
        m_t = progen.canon_model_out(resps[base + 1])
        m_s = progen.canon_model_out(resps[base + 2]) if pure else None
        tags = ['error' if 'error' in impl else 'ok']
        if 'hostexc' in impl:
            tags.append('hostexc')
        st.case([text, g], nontrivial=('error' not in impl and any(k in stats for k in ('while', 'for'))), tags=tags)
        ctx.compare('exec', [text, g], impl, m_exec)
        ctx.compare('execT', [text, g], impl, m_t)
        # the plain source-level reading of the Lean model (T3/T4): same result, log and user-visible globals whenever the
        # implementation run is not cut by the budget and the program has no `continue` inside `while` (F7)
        if m_s is not None and 'oof' not in m_s:
            ctx.compare('execS', [text, g], progen.strip_hidden(impl), progen.strip_hidden(m_s))
        # the property's own oracle: structured reading vs implementation
        if 'error' not in impl and 'hostexc' not in impl:
            ref = progen.run_reference(prog, g)
            if ref is not None and ref != progen.strip_hidden(impl):
                ref7 = progen.run_reference(prog, g, f7_quirk=True) if progen.has_while_continue(prog) else None
                ctx.witness('structured-reading', {'text': text, 'globals': g, 'prog': prog}, ref, progen.strip_hidden(impl),
                            explained_by_f7=(ref7 is not None and ref7 == progen.strip_hidden(impl)))
    del models
    stream_history(ctx, parser, cases, impls)


def stream_history(ctx, parser, cases, impls):
    """The outcome of parse+execute must not depend on what the process did before: re-run every program in sequence WITHOUT keeping
    earlier models alive (a cache keyed by object identity, or any state kept between calls, shows up only in such a history)."""
    st = ctx.stream('history', 'the same programs parsed, executed and dropped one after another in one process; outcome compared with '
                               'the first run (models kept alive); non-trivial = program takes at least one jump (has a loop or if)')
    for (prog, g, stats), first in zip(cases, impls):
        text = '\n'.join(progen.render(prog))
        again = progen.run_impl(parser.parse_script(text), g, max_statements=400)
        st.case(text, nontrivial=any(k in stats for k in ('if', 'while', 'for')), tags=['ok' if 'error' not in again else 'error'])
        if again != first:
            ctx.witness('history-independence', {'text': text, 'globals': g}, first, again, explained_by_f7=False)
            return


def disagreement_known(d, known):
    return False


def search(ctx):
    """A proof obligation / table / correspondence stream broke and the streams produced no witness: spend a larger budget on the
    property's own oracle (independent structured reading vs the implementation), deeper programs, more seeds."""
    parser = fw.impl()['parser']
    rng = ctx.rng('search')
    for _ in range(ctx.scale(2500, 20000)):
        gen = progen.Gen(rng, max_depth=rng.choice([3, 4, 5, 6]))
        prog = gen.program()
        g = progen.random_globals(rng)
        text = '\n'.join(progen.render(prog))
        try:
            model = parser.parse_script(text)
        except Exception as exc:  # pylint: disable=broad-except
            ctx.witness('generated-program-parses', {'text': text, 'globals': g}, 'a model', f'{type(exc).__name__}: {exc}')
            return
        impl = progen.run_impl(model, g, max_statements=600)
        if 'error' in impl or 'hostexc' in impl:
            continue
        ref = progen.run_reference(prog, g)
        if ref is not None and ref != progen.strip_hidden(impl):
            ref7 = progen.run_reference(prog, g, f7_quirk=True) if progen.has_while_continue(prog) else None
            if ref7 is None or ref7 != progen.strip_hidden(impl):
                ctx.witness('structured-reading', {'text': text, 'globals': g, 'prog': prog}, ref, progen.strip_hidden(impl),
                            explained_by_f7=False)
                return


def replay(witness):
    parser = fw.impl()['parser']
    inp = witness['input']
    model = parser.parse_script(inp['text'])
    impl = progen.strip_hidden(progen.run_impl(model, inp['globals'], max_statements=400))
    return impl != witness['expected']
