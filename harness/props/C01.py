"""C01 - structured control flow runs with its source-level meaning."""

import copy
import hashlib
import json
from fractions import Fraction

import fw
import progen

ID = 'C01'
LEVEL = 'proof'
LEAN_TARGETS = ['BareProofs.C01', 'BareProofs.C01Erase', 'BareProofs.C01Host', 'BareProofs.C01Source', 'BareProofs.C01SourceInst']
DRIVER = 'drv_c01'
DRIVER_ROOT = 'Drv.C01'
GEN = ['Consts']
THEOREMS = [
    'C01.parseLines_render', 'C01.parse_rejects_ill_nested', 'C01.wellNested_of_parse_ok',
    'C01.lower_exact', 'C01.lower_exact_body', 'C01.run_lowered_eq_runT', 'C01.execute₀_lowered',
    'C01.parse_then_run', 'C01.while_retests_after_body', 'C01.while_continue_actual',
    'C01.ticked_erasure', 'C01.ticked_erasure_forward', 'C01.ticked_erasure_converse', 'C01.termination_iff',
    'C01.ticked_erasure_budget', 'C01.parse_exec_structured', 'C01.parse_exec_structured_budget',
    'C01.Tiny.while_continue_counterexample',
    # C01Host: the erasure theorems on the concrete hosts (HostImpl.host, HostLib.hostLib), which do not satisfy HostNoReserved
    'C01.hostNoReserved_sanitize', 'C01.truthyBool_sanitize', 'C01.sanitize_of_noReserved', 'C01.machine_g', 'C01.pure_g',
    'C01.guard_execM₀', 'C01.guard_callValue₀', 'C01.guard_execute₀', 'C01.guard_execute', 'C01.guard_runT₀', 'C01.guard_runS',
    'C01.real_eq_sanitized_execute', 'C01.real_eq_sanitized_execM₀', 'C01.guard_execute_dichotomy',
    'C01.ticked_erasure_guarded', 'C01.parse_exec_structured_guarded', 'C01.parse_exec_structured_budget_guarded',
    'C01.hostImpl_lib_treeOK', 'C01.hostImpl_other_treeOK', 'C01.hostLib_lib_treeOK', 'C01.hostLib_other_treeOK',
    'C01.sanitize_hostImpl_lib', 'C01.sanitize_hostLib_lib', 'C01.hostImpl_truthyBool',
    'C01.hostImpl_withoutGlobals_noReserved', 'C01.hostLib_withoutGlobals_noReserved',
    'C01.parse_exec_structured_hostImpl', 'C01.ticked_erasure_hostImpl', 'C01.parse_exec_structured_budget_hostImpl',
    'C01.parse_exec_structured_hostLib', 'C01.ticked_erasure_hostLib', 'C01.parse_exec_structured_budget_hostLib',
    'C01.parse_exec_structured_hostImpl_noGlobals', 'C01.parse_exec_structured_hostLib_noGlobals',
    'C01.hostImpl_not_noReserved', 'C01.hostLib_not_noReserved', 'C01.Demo.touching_program_differs',
    'C01.Demo.impl_pure_run', 'C01.Demo.impl_machine_run', 'C01.Demo.lib_pure_run',
    'C01.HostK.host_eq', 'C01.HostK.hostLib_eq',
    # C01Source / C01SourceInst: from source TEXT - printer of structured programs + the text-level parser model (Parser.parseScript)
    'C01.classify_printLine', 'C01.scriptLines_print', 'C01.parseScript_printLines', 'C01.parseScript_printLines_error',
    'C01.parseScript_print', 'C01.parseScript_print_rejects', 'C01.source_then_run',
    'C01.parseScript_printIndented', 'C01.parseScript_printPretty',
    'C01.parseScript_printExpr', 'C01.parseScript_printExpr_rejects', 'C01.source_then_run_printExpr',
    'C01.parseScript_printPretty_printExpr',
]
ASSUMPTIONS = [
    'expression evaluation is shared between the reference reading and the implementation (C01 is about control flow; operators are C03)',
    'numbers in generated programs are exactly representable, so the rational arithmetic of the model equals float arithmetic',
]
LEVEL_TEXT = ('Theorems, for structured programs of any depth and size and any host: (T1) the line-at-a-time stack/counter algorithm of '
              'parse_script computes exactly the recursive lowering and rejects exactly the ill-nested programs; (T2) the jump machine on the '
              'lowered code equals the ticked structured big-step semantics as a function of fuel, counter, locals and state (return value, '
              'every effect, statement count, divergence, budget exhaustion preserved), globally and for function bodies; composed as '
              'parse_then_run; (T3) ticks and hidden loop variables erase to the plain source-level big-step reading execS in both '
              'directions (termination included); (T4) parse_exec_structured composes T1, C08.cache_transparent, T2 and T3 for '
              'Machine.execute; (T0, from source TEXT) parseScript_print / parseScript_printExpr: the whole text-level parser model (physical and '
              'logical lines, the regex cascade, expression parsing, the stack algorithm, end-of-input checks) applied to the printed source text '
              'of a structured program returns exactly the recursive lowering (any indentation: parseScript_printPretty), composed with T2 as '
              'source_then_run. The Lean lowering (spec and mirror), machine and structured semantics are tied to parser.py/runtime.py by '
              'differential correspondence on grammar-generated programs; an independent Python big-step reading of the source is the '
              'oracle run against the implementation. Known finding F7 (continue inside while skips the condition test) is what the model '
              'encodes (while_continue_actual) and what the oracle reports.')
LEVEL_NOTE = ('Trusted: Lean kernel; harness (progen.py generator/renderer/reference interpreter, fw.py). Expression evaluation is shared by '
              'both sides of the theorems (abstract host) and by oracle and implementation (C03 covers operators). T3/T4 (ticked_erasure, '
              'parse_exec_structured) relate the machine run of the parsed program to the plain source-level reading execS (no ticks, no '
              'hidden for-variables, conditions re-tested before every iteration) under the decidable hypotheses ProgOK (well nested, no '
              'raw jumps/includes, no reserved identifiers, no continue-in-while = F7) and host laws TruthyBool, HostNoReserved. '
              'Python recursion limit and memory are outside the model; the rational number model has no negative zero.')


def known_f7(w):
    # exactly F7: the implementation agrees with the reading in which `continue` inside `while` skips the condition test
    return bool(w.get('explained_by_f7'))


FINDING_MATCHERS = {'F7': known_f7}


F7_PROGRAM = [
    {'k': 'expr', 'name': 'i', 'e': progen.num(0)},
    {'k': 'while', 'c': progen.wf_binary('<', progen.var('i'), progen.num(3)), 'b': [
        {'k': 'expr', 'name': 'i', 'e': progen.wf_binary('+', progen.var('i'), progen.num(1))},
        {'k': 'if', 'c': progen.wf_binary('==', progen.var('i'), progen.num(3)), 't': [{'k': 'continue'}], 'else': None},
        {'k': 'expr', 'name': None, 'e': progen.call('systemLog', progen.wf_binary('+', progen.string('i='), progen.var('i')))},
    ]},
    {'k': 'ret', 'e': progen.var('i')},
]


def gen_cases(ctx, n, stream):
    rng = ctx.rng(stream)
    yield progen.assign_fids([dict(s) for s in F7_PROGRAM]), {}, {'while': 1, 'continue': 1, 'if': 1, 'corpus-F7': 1}
    for i in range(n):
        gen = progen.Gen(rng, max_depth=rng.choice([2, 3, 4, 5]))
        prog = gen.program()
        yield prog, progen.random_globals(rng), gen.stats


def streams(ctx):
    parser = fw.impl()['parser']
    n = ctx.scale(400, 12000)
    cases = list(gen_cases(ctx, n, 'programs'))

    # --- stream lower: text -> statement list (implementation) vs recursive lowering (spec) vs line-at-a-time mirror
    st = ctx.stream('lower', 'grammar-directed structured programs (depth<=5, <=3 functions + prelude): parse_script(text) vs Lean '
                             'lowerProgram (spec) and parseLines∘render (mirror); non-trivial = contains a loop or an if chain')
    resps = ctx.driver.batch([{'op': 'lower', 'prog': prog} for prog, _, _ in cases])
    models = []
    for (prog, _, stats), resp in zip(cases, resps):
        text = '\n'.join(progen.render(prog))
        model = parser.parse_script(text)
        models.append(model)
        impl = progen.canon_script(model, with_fid=False)
        st.case(text, nontrivial=any(k in stats for k in ('if', 'while', 'for')), tags=sorted(stats))
        ctx.compare('lower', text, impl, progen.round_script_numbers(resp.get('spec')))
        ctx.compare('lower-mirror', text, impl, progen.round_script_numbers(resp.get('mirror')))

    # --- stream exec: run
    impls = exec_stream(ctx, 'exec', cases, models,
                        'the same programs x initial globals of all value kinds, maxStatements=400: execute_script(parse_script) vs '
                        'Lean jump machine on the lowered code vs Lean ticked structured semantics; oracle: independent Python '
                        'big-step reading of the source; non-trivial = terminates without error and runs a loop',
                        lambda stats: any(k in stats for k in ('while', 'for')))
    del models
    stream_history(ctx, parser, cases, impls)
    stream_print_parse(ctx, parser)

    # --- stream calls: call-heavy programs (per-call state: rest parameters, omitted arguments, in-place mutation, recursion)
    call_cases = list(gen_call_cases(ctx, ctx.scale(250, 6000), 'calls'))
    call_models = [parser.parse_script('\n'.join(progen.render(prog))) for prog, _, _ in call_cases]
    call_impls = exec_stream(ctx, 'calls', call_cases, call_models,
                             'call-heavy structured programs (CallGen: functions with rest parameters / omitted and surplus arguments whose '
                             'bodies mutate their parameters in place, return them, recurse to a bounded depth, are re-defined, are defined '
                             'inside loops, are called through systemPartial; called repeatedly from for/while/sequences with aliased global '
                             'arrays), maxStatements=400: implementation vs Lean jump machine / ticked / plain structured semantics; oracles: '
                             'big-step reading with a fresh frame per call (progen) and the independent call-dispatch reading (Ref); '
                             'non-trivial = terminates without error and calls a script function at least twice',
                             lambda stats: stats.get('calls', 0) >= 2, own_ref=True)
    stream_options_history(ctx, parser, cases, call_cases)
    stream_host_boundary(ctx, parser, cases, impls, call_cases, call_impls)
    del call_models


def exec_stream(ctx, name, cases, models, rule, nontrivial, own_ref=False):
    """Run every case on the implementation, on the Lean jump machine (lowered code), on the Lean ticked structured semantics and on the
    plain source-level reading; the property's own oracle is the independent Python big-step reading.  -> implementation outcomes"""
    suffix = '' if name == 'exec' else '-' + name
    st = ctx.stream(name, rule)
    impls = [progen.run_impl(model, g, max_statements=400) for (prog, g, _), model in zip(cases, models)]
    reqs = []
    slot = []
    for (prog, g, _), model, impl in zip(cases, models, impls):
        wg = progen.wire_globals(g)
        base = len(reqs)
        reqs.append({'op': 'exec', 'script': progen.canon_script(model), 'globals': wg, 'max': 400, 'fuel': 5000})
        reqs.append({'op': 'execT', 'prog': prog, 'globals': wg, 'max': 400, 'fuel': 5000})
        # the pure reading has no statement budget: only ask for it when the implementation run completed (<= 400 statements)
        pure = 'error' not in impl and 'hostexc' not in impl and not progen.has_while_continue(prog)
        if pure:
            reqs.append({'op': 'execS', 'prog': prog, 'globals': wg, 'fuel': 1200})
        slot.append((base, pure))
    resps = ctx.driver.batch(reqs)
    for ix, ((prog, g, stats), model) in enumerate(zip(cases, models)):
        text = '\n'.join(progen.render(prog))
        impl = impls[ix]
        base, pure = slot[ix]
        m_exec = progen.canon_model_out(resps[base])
        m_t = progen.canon_model_out(resps[base + 1])
        m_s = progen.canon_model_out(resps[base + 2]) if pure else None
        tags = ['error' if 'error' in impl else 'ok']
        if 'hostexc' in impl:
            tags.append('hostexc')
        if name != 'exec':
            tags += sorted(stats)
        st.case([text, g], nontrivial=('error' not in impl and nontrivial(stats)), tags=tags)
        ctx.compare('exec' + suffix, [text, g], impl, m_exec)
        ctx.compare('execT' + suffix, [text, g], impl, m_t)
        # the plain source-level reading of the Lean model (T3/T4): same result, log and user-visible globals whenever the
        # implementation run is not cut by the budget and the program has no `continue` inside `while` (F7)
        if m_s is not None and 'oof' not in m_s:
            ctx.compare('execS' + suffix, [text, g], progen.strip_hidden(impl), progen.strip_hidden(m_s))
        # the property's own oracle: structured reading vs implementation
        if 'error' not in impl and 'hostexc' not in impl:
            got = progen.strip_hidden(impl)
            ref = progen.run_reference(prog, g)
            if ref is not None and ref != got:
                ref7 = progen.run_reference(prog, g, f7_quirk=True) if progen.has_while_continue(prog) else None
                ctx.witness('structured-reading', {'text': text, 'globals': g, 'prog': prog}, ref, got,
                            explained_by_f7=(ref7 is not None and ref7 == got))
            elif own_ref:
                ref2 = run_ref(prog, g)
                if ref2 is not None and ref2 != got:
                    ctx.witness('structured-reading', {'text': text, 'globals': g, 'prog': prog}, ref2, got, explained_by_f7=False)
    return impls


def stream_history(ctx, parser, cases, impls):
    """The outcome of parse+execute must not depend on what the process did before: re-run every program in sequence WITHOUT keeping
    earlier models alive (a cache keyed by object identity, or any state kept between calls, shows up only in such a history)."""
    st = ctx.stream('history', 'the same programs parsed, executed and dropped one after another in one process; outcome compared with '
                               'the first run (models kept alive); non-trivial = program takes at least one jump (has a loop or if)')
    for (prog, g, stats), first in zip(cases, impls):
        text = '\n'.join(progen.render(prog))
        again = progen.run_impl(parser.parse_script(text), g, max_statements=400)
        st.case(text, nontrivial=any(k in stats for k in ('if', 'while', 'for')), tags=['ok' if 'error' not in again else 'error'])
        if again != first:
            ctx.witness('history-independence', {'text': text, 'globals': g}, first, again, explained_by_f7=False)
            return


# ---------------------------------------------------------------------------------------------------------------------
# stream print-parse: the Lean PRINTER of structured programs (PrintScript.printScript Print.printExpr, the text the theorem
# C01.parseScript_printExpr is about) tied to the real parser
# ---------------------------------------------------------------------------------------------------------------------

def _gen_name(kind, i):
    return f'__bareScript{kind}{i}'


def _jump(label, cond=None):
    d = {'label': label}
    if cond is not None:
        d['expr'] = cond
    return {'jump': d}


def _not(e):
    return {'unary': {'expr': e, 'op': '!'}}


def py_lower(block, ctr, loop=None):
    """Reference lowering of a structured program to the statement model, written from the language definition
    (https://craigahobbs.github.io/bare-script/language/) independently of the Lean model: the expected value of
    parse_script(text).  `ctr` = [label counter] (script-wide), `loop` = (break label, continue label, [continue used])."""
    out = []
    for s in block:
        k = s['k']
        if k == 'expr':
            d = {'expr': s['e']}
            if s.get('name'):
                d['name'] = s['name']
            out.append({'expr': d})
        elif k == 'ret':
            out.append({'return': {'expr': s['e']} if s.get('e') else {}})
        elif k == 'label':
            out.append({'label': s['name']})
        elif k == 'jump':
            out.append(_jump(s['name'], s.get('c')))
        elif k == 'include':
            out.append({'include': {'includes': [dict(({'system': True} if i.get('system') else {}), url=i['url']) for i in s['includes']]}})
        elif k == 'break':
            out.append(_jump(loop[0]))
        elif k == 'continue':
            loop[2][0] = True
            out.append(_jump(loop[1]))
        elif k == 'if':
            i = ctr[0]
            ctr[0] += 1
            done, cur = _gen_name('Done', i), _gen_name('If', i)
            els = s.get('else')
            out.append(_jump(done if els is None else cur, _not(s['c'])))
            out += py_lower(s['t'], ctr, loop)
            while els is not None:
                out += [_jump(done), {'label': cur}]
                if els['k'] == 'else':
                    out += py_lower(els['b'], ctr, loop)
                    els = None
                else:
                    j = ctr[0]
                    ctr[0] += 1
                    cur = _gen_name('If', j)
                    nxt = els.get('else')
                    out.append(_jump(done if nxt is None else cur, _not(els['c'])))
                    out += py_lower(els['t'], ctr, loop)
                    els = nxt
            out.append({'label': done})
        elif k == 'while':
            i = ctr[0]
            ctr[0] += 1
            done, lp = _gen_name('Done', i), _gen_name('Loop', i)
            out += [_jump(done, _not(s['c'])), {'label': lp}]
            out += py_lower(s['b'], ctr, (done, lp, [False]))      # `continue` jumps to the loop label (known finding F7)
            out += [_jump(lp, s['c']), {'label': done}]
        elif k == 'for':
            i = ctr[0]
            ctr[0] += 1
            done, lp, cont = _gen_name('Done', i), _gen_name('Loop', i), _gen_name('Continue', i)
            values, length = _gen_name('Values', i), _gen_name('Length', i)
            ix = s.get('index') or _gen_name('Index', i)
            used = [False]
            out += [{'expr': {'expr': s['vals'], 'name': values}},
                    {'expr': {'expr': progen.call('arrayLength', progen.var(values)), 'name': length}},
                    _jump(done, _not(progen.var(length))),
                    {'expr': {'expr': progen.num(0), 'name': ix}},
                    {'label': lp},
                    {'expr': {'expr': progen.call('arrayGet', progen.var(values), progen.var(ix)), 'name': s['value']}}]
            out += py_lower(s['b'], ctr, (done, cont, used))
            if used[0]:
                out.append({'label': cont})
            out += [{'expr': {'expr': progen.binop('+', progen.var(ix), progen.num(1)), 'name': ix}},
                    _jump(lp, progen.binop('<', progen.var(ix), progen.var(length))),
                    {'label': done}]
        elif k == 'func':
            d = {'name': s['name']}
            if s['args']:
                d['args'] = list(s['args'])
            if s.get('async'):
                d['async'] = True
            if s.get('lastArgArray'):
                d['lastArgArray'] = True
            d['statements'] = py_lower(s['b'], ctr, None)
            out.append({'function': d})
        else:
            raise ValueError(k)
    return out


def expected_model(prog):
    return progen.round_script_numbers({'statements': py_lower(prog, [0])})


URLS = ['a.bare', 'lib/b c.bare', "it's.bare", 'back\\slash.bare', "q\\'x", 'https://h.example/p?q=1&r=<2', 'tab\there', 'ends\\', "'", '']
SYSTEM_URLS = ['args.bare', 'unittest.bare', 'a b', "it's", 'x\\y', '']
LABELS = ['L1', 'top', '_x9', 'done', 'break_', 'elseX', 'If', 'ifx', 'jump1', 'returnx', 'else_', 'include', 'function']
BAD_LABELS = ['é_no', 'else', '9x']     # not identifiers of the statement patterns / the else statement: the printer must say 'unprintable'


def decorate(block, rng, depth=0):
    """Add the statement kinds the generator leaves out (includes in both forms with awkward URLs, labels, jump/jumpif, async and
    variadic function headers) at random places; never two include nodes next to each other (the parser merges them)."""
    out = []
    for s in block:
        if rng.random() < 0.12:
            r = rng.random()
            if r < 0.4 and not (out and out[-1]['k'] == 'include'):
                out.append({'k': 'include', 'includes': [
                    ({'url': rng.choice(SYSTEM_URLS), 'system': True} if rng.random() < 0.4 else {'url': rng.choice(URLS), 'system': False})
                    for _ in range(rng.randint(1, 3))]})
            elif r < 0.6:
                out.append({'k': 'label', 'name': rng.choice(BAD_LABELS) if rng.random() < 0.02 else rng.choice(LABELS)})
            elif r < 0.8:
                out.append({'k': 'jump', 'name': rng.choice(LABELS), 'c': None})
            else:
                out.append({'k': 'jump', 'name': rng.choice(LABELS),
                            'c': progen.wf_binary(rng.choice(['<', '==', '&&']), progen.var(rng.choice(['a', 'n'])),
                                                  progen.group(progen.call('arrayNew', progen.num(rng.randint(0, 3)))))})
        s = dict(s)
        k = s['k']
        if k == 'include' and out and out[-1]['k'] == 'include':
            continue
        if k == 'if':
            s['t'] = decorate(s['t'], rng, depth + 1)
            node = s
            while node.get('else') is not None:
                e = dict(node['else'])
                node['else'] = e
                if e['k'] == 'else':
                    e['b'] = decorate(e['b'], rng, depth + 1)
                    break
                e['t'] = decorate(e['t'], rng, depth + 1)
                node = e
        elif k in ('while', 'for'):
            s['b'] = decorate(s['b'], rng, depth + 1)
        elif k == 'func':
            s['b'] = decorate(s['b'], rng, depth + 1)
            if rng.random() < 0.3:
                s['async'] = True
            if rng.random() < 0.15:
                s['lastArgArray'] = True
        out.append(s)
    return out


def _line_kinds(block, acc):
    for s in block:
        k = s['k']
        acc.add({'expr': 'assign' if s.get('name') else 'call', 'ret': 'return-value' if s.get('e') else 'return',
                 'jump': 'jumpif' if s.get('c') else 'jump', 'for': 'for-index' if s.get('index') else 'for'}.get(k, k))
        if k == 'func' and s.get('async'):
            acc.add('async')
        if k == 'func' and s.get('lastArgArray'):
            acc.add('variadic')
        if k == 'include':
            acc.add('include-system' if any(i.get('system') for i in s['includes']) else 'include-quoted')
        if k == 'if':
            _line_kinds(s['t'], acc)
            els = s.get('else')
            while els is not None:
                acc.add(els['k'])
                _line_kinds(els['b'] if els['k'] == 'else' else els['t'], acc)
                els = els.get('else') if els['k'] == 'elif' else None
        elif k in ('while', 'for', 'func'):
            _line_kinds(s['b'], acc)
    return acc


PRINT_CORPUS = [
    # every line kind once, awkward spellings
    [{'k': 'include', 'includes': [{'url': "it's\\here.bare", 'system': False}, {'url': 'unittest.bare', 'system': True}]},
     {'k': 'expr', 'name': 'if', 'e': progen.num(1)},
     {'k': 'func', 'fid': 0, 'name': 'walk', 'args': ['xs', 'in'], 'lastArgArray': True, 'async': True, 'b': [
         {'k': 'if', 'c': progen.wf_binary('==', progen.var('in'), progen.string('a:b # c')), 't': [{'k': 'ret', 'e': None}],
          'else': {'k': 'elif', 'c': progen.unop('!', progen.var('xs')), 't': [{'k': 'ret', 'e': progen.unop('-', progen.num(1))}],
                   'else': {'k': 'else', 'b': [{'k': 'expr', 'name': None, 'e': progen.call('systemLog', progen.string("it's \\ :"))}]}}},
         {'k': 'for', 'value': 'in', 'index': 'for', 'vals': progen.var('xs'), 'b': [
             {'k': 'while', 'c': progen.var('[a b]'), 'b': [{'k': 'if', 'c': progen.var('in'), 't': [{'k': 'break'}], 'else': None},
                                                          {'k': 'if', 'c': progen.var('for'), 't': [{'k': 'continue'}], 'else': None}]},
             {'k': 'if', 'c': progen.var('in'), 't': [{'k': 'continue'}], 'else': None}]},
         {'k': 'for', 'value': 'v', 'index': None, 'vals': progen.call('arrayNew', progen.num(Fraction(5, 2)), progen.num(10)), 'b': []}]},
     {'k': 'func', 'fid': 1, 'name': 'noArgs', 'args': [], 'lastArgArray': True, 'async': False, 'b': []},
     {'k': 'label', 'name': 'top'}, {'k': 'jump', 'name': 'top', 'c': None},
     {'k': 'jump', 'name': 'top', 'c': progen.group(progen.wf_binary('>', progen.var('n'), progen.call('mathMax', progen.num(1), progen.num(2))))},
     {'k': 'ret', 'e': progen.var('return')}],
    [],
    # not printable (the printer says so): label `else`, expression statement that is not a call, string with a line feed
    [{'k': 'label', 'name': 'else'}],
    [{'k': 'expr', 'name': None, 'e': progen.wf_binary('==', progen.var('a'), progen.var('b'))}],
    [{'k': 'expr', 'name': 's', 'e': progen.string('two\nlines')}],
    [{'k': 'include', 'includes': [{'url': 'a>b', 'system': True}]}],
]


def _digest(model):
    return hashlib.sha256(json.dumps(model, sort_keys=True, ensure_ascii=True).encode('utf-8')).hexdigest()


def _lowering_witness(ctx, text, want, got):
    """The real parser does not return the lowering of the program this text is the source of.  The witness carries the text, the first
    statement where the two models differ, and a digest of the whole expected model (what replay() re-checks)."""
    ws, gs = want.get('statements', []), (got.get('statements', []) if 'error' not in got else [])
    at = next((i for i, (a, b) in enumerate(zip(ws, gs)) if a != b), min(len(ws), len(gs)))
    ctx.witness('print-parse-lowering', {'text': text},
                {'statement_index': at, 'statement': ws[at] if at < len(ws) else None, 'n_statements': len(ws)},
                got if 'error' in got else {'statement_index': at, 'statement': gs[at] if at < len(gs) else None, 'n_statements': len(gs)},
                expected_digest=_digest(want), explained_by_f7=False)


def stream_print_parse(ctx, parser):
    rng = ctx.rng('print-parse')
    st = ctx.stream('print-parse',
                    'structured programs (generator + includes/labels/jumps/async/variadic headers) -> Lean printer '
                    'PrintScript.printScript Print.printExpr -> REAL parse_script(text) vs Lean lowerProgram for the same program '
                    '(= what C01.parseScript_printExpr proves the text-level parser MODEL returns); oracle: reference lowering in '
                    'Python; non-trivial = printable (C01.SourcePrintable) and contains a block statement')
    progs = [progen.assign_fids(copy.deepcopy(p)) for p in PRINT_CORPUS]
    for _ in range(ctx.scale(300, 4000)):
        gen = progen.Gen(rng, max_depth=rng.choice([2, 3, 4, 5]), allow_raw=True)
        progs.append(progen.assign_fids(decorate(gen.program(), rng)))
    reqs = []
    for prog in progs:
        reqs.append({'op': 'printScript', 'prog': prog})
        reqs.append({'op': 'lower', 'prog': prog})
    resps = ctx.driver.batch(reqs)
    n_printable = 0
    for ix, prog in enumerate(progs):
        pr, lo = resps[2 * ix], resps[2 * ix + 1]
        text = pr.get('text')
        kinds = sorted(_line_kinds(prog, set()))
        if not pr.get('printable'):
            # outside the hypotheses of the theorem: nothing is claimed about the text
            st.case(['unprintable', text], nontrivial=False, tags=['unprintable'])
            continue
        n_printable += 1
        try:
            impl = progen.canon_script(parser.parse_script(text), with_fid=False)
        except Exception as exc:  # pylint: disable=broad-except
            impl = {'error': f'{type(exc).__name__}: {getattr(exc, "error", exc)}'}
        st.case(text, nontrivial=any(k in kinds for k in ('if', 'while', 'for', 'for-index', 'func')), tags=kinds)
        ctx.compare('print-parse', text, impl, progen.round_script_numbers(lo.get('spec')))
        ctx.compare('print-parse-mirror', text, impl, progen.round_script_numbers(lo.get('mirror')))
        # the indented layout of the same program (C01.parseScript_printPretty_printExpr)
        try:
            impl_pretty = progen.canon_script(parser.parse_script(pr.get('pretty')), with_fid=False)
        except Exception as exc:  # pylint: disable=broad-except
            impl_pretty = {'error': f'{type(exc).__name__}: {getattr(exc, "error", exc)}'}
        ctx.compare('print-parse-pretty', pr.get('pretty'), impl_pretty, progen.round_script_numbers(lo.get('spec')))
        want = expected_model(prog)
        if impl_pretty != want and impl == want:
            _lowering_witness(ctx, pr.get('pretty'), want, impl_pretty)
        if impl != want:
            _lowering_witness(ctx, text, want, impl)
    if n_printable * 10 < len(progs) * 9:
        ctx.broken.append(f'correspondence stream print-parse: only {n_printable}/{len(progs)} generated programs are printable')


def disagreement_known(d, known):
    return False


def search(ctx):
    """A proof obligation / table / correspondence stream broke and the streams produced no witness: spend a larger budget on the
    property's own oracle (independent structured reading vs the implementation), deeper programs, more seeds."""
    parser = fw.impl()['parser']
    rng = ctx.rng('search')
    for _ in range(ctx.scale(2500, 20000)):
        gen = progen.Gen(rng, max_depth=rng.choice([3, 4, 5, 6]))
        prog = gen.program()
        g = progen.random_globals(rng)
        text = '\n'.join(progen.render(prog))
        try:
            model = parser.parse_script(text)
        except Exception as exc:  # pylint: disable=broad-except
            ctx.witness('generated-program-parses', {'text': text, 'globals': g}, 'a model', f'{type(exc).__name__}: {exc}')
            return
        impl = progen.run_impl(model, g, max_statements=600)
        if 'error' in impl or 'hostexc' in impl:
            continue
        ref = progen.run_reference(prog, g)
        if ref is not None and ref != progen.strip_hidden(impl):
            ref7 = progen.run_reference(prog, g, f7_quirk=True) if progen.has_while_continue(prog) else None
            if ref7 is None or ref7 != progen.strip_hidden(impl):
                ctx.witness('structured-reading', {'text': text, 'globals': g, 'prog': prog}, ref, progen.strip_hidden(impl),
                            explained_by_f7=False)
                return


def replay(witness):
    parser = fw.impl()['parser']
    inp = witness['input']
    if witness.get('oracle') == 'print-parse-lowering':
        try:
            got = progen.canon_script(parser.parse_script(inp['text']), with_fid=False)
        except Exception as exc:  # pylint: disable=broad-except
            got = {'error': f'{type(exc).__name__}: {getattr(exc, "error", exc)}'}
        return _digest(got) != witness['expected_digest']
    model = parser.parse_script(inp['text'])
    impl = progen.strip_hidden(progen.run_impl(model, inp['globals'], max_statements=400))
    return impl != witness['expected']
