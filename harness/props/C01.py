"""C01 - structured control flow runs with its source-level meaning."""

import fw
import progen

ID = 'C01'
LEVEL = 'proof'
LEAN_TARGETS = ['BareProofs.C01']
DRIVER = 'drv_c01'
DRIVER_ROOT = 'Drv.C01'
GEN = ['Consts']
THEOREMS = []
ASSUMPTIONS = [
    'expression evaluation is shared between the reference reading and the implementation (C01 is about control flow; operators are C03)',
    'numbers in generated programs are exactly representable, so the rational arithmetic of the model equals float arithmetic',
]
LEVEL_TEXT = 'under construction'
LEVEL_NOTE = 'under construction'


def known_f7(w):
    return bool(w.get('while_continue'))


FINDING_MATCHERS = {'F7': known_f7}


def gen_cases(ctx, n, stream):
    rng = ctx.rng(stream)
    for i in range(n):
        gen = progen.Gen(rng, max_depth=rng.choice([2, 3, 4, 5]))
        prog = gen.program()
        yield prog, progen.random_globals(rng), gen.stats


def streams(ctx):
    parser = fw.impl()['parser']
    n = ctx.scale(400, 12000)
    cases = list(gen_cases(ctx, n, 'programs'))

    # --- stream lower: text -> statement list (implementation) vs recursive lowering (spec) vs line-at-a-time mirror
    st = ctx.stream('lower', 'grammar-directed structured programs (depth<=5, <=3 functions + prelude): parse_script(text) vs Lean '
                             'lowerProgram (spec) and parseLines∘render (mirror); non-trivial = contains a loop or an if chain')
    resps = ctx.driver.batch([{'op': 'lower', 'prog': prog} for prog, _, _ in cases])
    models = []
    for (prog, _, stats), resp in zip(cases, resps):
        text = '\n'.join(progen.render(prog))
        model = parser.parse_script(text)
        models.append(model)
        impl = progen.canon_script(model, with_fid=False)
        st.case(text, nontrivial=any(k in stats for k in ('if', 'while', 'for')), tags=sorted(stats))
        ctx.compare('lower', text, impl, progen.round_script_numbers(resp.get('spec')))
        ctx.compare('lower-mirror', text, impl, progen.round_script_numbers(resp.get('mirror')))

    # --- stream exec: run
    st = ctx.stream('exec', 'the same programs x initial globals of all value kinds, maxStatements=400: execute_script(parse_script) vs '
                            'Lean jump machine on the lowered code vs Lean ticked structured semantics; oracle: independent Python '
                            'big-step reading of the source; non-trivial = terminates without error and runs a loop')
    reqs = []
    for (prog, g, _), model in zip(cases, models):
        wg = progen.wire_globals(g)
        reqs.append({'op': 'exec', 'script': progen.canon_script(model), 'globals': wg, 'max': 400, 'fuel': 5000})
        reqs.append({'op': 'execT', 'prog': prog, 'globals': wg, 'max': 400, 'fuel': 5000})
    resps = ctx.driver.batch(reqs)
    for ix, ((prog, g, stats), model) in enumerate(zip(cases, models)):
        text = '\n'.join(progen.render(prog))
        impl = progen.run_impl(model, g, max_statements=400)
        m_exec = progen.canon_model_out(resps[2 * ix])
        m_t = progen.canon_model_out(resps[2 * ix + 1])
        tags = ['error' if 'error' in impl else 'ok']
        if 'hostexc' in impl:
            tags.append('hostexc')
        st.case([text, g], nontrivial=('error' not in impl and any(k in stats for k in ('while', 'for'))), tags=tags)
        ctx.compare('exec', [text, g], impl, m_exec)
        ctx.compare('execT', [text, g], impl, m_t)
        # the property's own oracle: structured reading vs implementation
        if 'error' not in impl and 'hostexc' not in impl:
            ref = progen.run_reference(prog, g)
            if ref is not None and ref != progen.strip_hidden(impl):
                ctx.witness('structured-reading', {'text': text, 'globals': g}, ref, progen.strip_hidden(impl),
                            while_continue=progen.has_while_continue(prog))


def disagreement_known(d, known):
    return False


def search(ctx):
    pass


def replay(witness):
    parser = fw.impl()['parser']
    inp = witness['input']
    model = parser.parse_script(inp['text'])
    impl = progen.strip_hidden(progen.run_impl(model, inp['globals'], max_statements=400))
    return impl != witness['expected']
