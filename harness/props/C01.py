"""C01 - structured control flow runs with its source-level meaning."""

import collections
import copy
import enum
import functools
import hashlib
import json
import sys
import threading
from fractions import Fraction

import fw
import progen

ID = 'C01'
LEVEL = 'proof'
LEAN_TARGETS = ['BareProofs.C01', 'BareProofs.C01Erase', 'BareProofs.C01Host', 'BareProofs.C01Source', 'BareProofs.C01SourceInst', 'BareProofs.C01Syn']
DRIVER = 'drv_c01'
DRIVER_ROOT = 'Drv.C01'
GEN = ['Consts']
THEOREMS = [
    # C01Syn: the purely syntactic sufficient condition for 'touches no reserved global' (no run-level hypothesis left)
    'C01Syn.run_good', 'C01Syn.pure_good', 'C01Syn.hostImpl_clean',
    'C01Syn.hostLib_clean', 'C01Syn.hostClean_guard', 'C01Syn.lowerB_nm',
    'C01Syn.noGlobalAccess_touchesReserved', 'C01Syn.noGlobalAccess_runS', 'C01Syn.parse_exec_structured_hostImpl_syntactic',
    'C01Syn.ticked_erasure_hostImpl_syntactic', 'C01Syn.parse_exec_structured_budget_hostImpl_syntactic', 'C01Syn.parse_exec_structured_hostLib_syntactic',
    'C01Syn.ticked_erasure_hostLib_syntactic', 'C01Syn.parse_exec_structured_budget_hostLib_syntactic', 'C01Syn.noGlobalAccessL_touchesReserved',
    'C01Syn.noGlobalAccess_real_eq_sanitized', 'C01Syn.noGlobalAccess_touchesReserved_includes', 'C01Syn.tablesOK_progTable',
    'C01Syn.tableClean_progTable', 'C01Syn.parse_exec_structured_hostImpl_whole', 'C01Syn.parse_exec_structured_hostLib_whole',
    'C01Syn.Demo.state_condition_needed',
    'C01.parseLines_render', 'C01.parse_rejects_ill_nested', 'C01.wellNested_of_parse_ok',
    'C01.lower_exact', 'C01.lower_exact_body', 'C01.run_lowered_eq_runT', 'C01.execute₀_lowered',
    'C01.parse_then_run', 'C01.while_retests_after_body', 'C01.while_continue_actual',
    'C01.ticked_erasure', 'C01.ticked_erasure_forward', 'C01.ticked_erasure_converse', 'C01.termination_iff',
    'C01.ticked_erasure_budget', 'C01.parse_exec_structured', 'C01.parse_exec_structured_budget',
    'C01.Tiny.while_continue_counterexample',
    # C01Host: the erasure theorems on the concrete hosts (HostImpl.host, HostLib.hostLib), which do not satisfy HostNoReserved
    'C01.hostNoReserved_sanitize', 'C01.truthyBool_sanitize', 'C01.sanitize_of_noReserved', 'C01.machine_g', 'C01.pure_g',
    'C01.guard_execM₀', 'C01.guard_callValue₀', 'C01.guard_execute₀', 'C01.guard_execute', 'C01.guard_runT₀', 'C01.guard_runS',
    'C01.real_eq_sanitized_execute', 'C01.real_eq_sanitized_execM₀', 'C01.guard_execute_dichotomy',
    'C01.ticked_erasure_guarded', 'C01.parse_exec_structured_guarded', 'C01.parse_exec_structured_budget_guarded',
    'C01.hostImpl_lib_treeOK', 'C01.hostImpl_other_treeOK', 'C01.hostLib_lib_treeOK', 'C01.hostLib_other_treeOK',
    'C01.sanitize_hostImpl_lib', 'C01.sanitize_hostLib_lib', 'C01.hostImpl_truthyBool',
    'C01.hostImpl_withoutGlobals_noReserved', 'C01.hostLib_withoutGlobals_noReserved',
    'C01.parse_exec_structured_hostImpl', 'C01.ticked_erasure_hostImpl', 'C01.parse_exec_structured_budget_hostImpl',
    'C01.parse_exec_structured_hostLib', 'C01.ticked_erasure_hostLib', 'C01.parse_exec_structured_budget_hostLib',
    'C01.parse_exec_structured_hostImpl_noGlobals', 'C01.parse_exec_structured_hostLib_noGlobals',
    'C01.hostImpl_not_noReserved', 'C01.hostLib_not_noReserved', 'C01.Demo.touching_program_differs',
    'C01.Demo.impl_pure_run', 'C01.Demo.impl_machine_run', 'C01.Demo.lib_pure_run',
    'C01.HostK.host_eq', 'C01.HostK.hostLib_eq',
    # C01Source / C01SourceInst: from source TEXT - printer of structured programs + the text-level parser model (Parser.parseScript)
    'C01.classify_printLine', 'C01.scriptLines_print', 'C01.parseScript_printLines', 'C01.parseScript_printLines_error',
    'C01.parseScript_print', 'C01.parseScript_print_rejects', 'C01.source_then_run',
    'C01.parseScript_printIndented', 'C01.parseScript_printPretty',
    'C01.parseScript_printExpr', 'C01.parseScript_printExpr_rejects', 'C01.source_then_run_printExpr',
    'C01.parseScript_printPretty_printExpr',
]
ASSUMPTIONS = [
    'expression evaluation is shared between the reference reading and the implementation (C01 is about control flow; operators are C03)',
    'numbers in generated programs are exactly representable, so the rational arithmetic of the model equals float arithmetic',
]
LEVEL_TEXT = ('Theorems, for structured programs of any depth and size and any host: (T1) the line-at-a-time stack/counter algorithm of '
              'parse_script computes exactly the recursive lowering and rejects exactly the ill-nested programs; (T2) the jump machine on the '
              'lowered code equals the ticked structured big-step semantics as a function of fuel, counter, locals and state (return value, '
              'every effect, statement count, divergence, budget exhaustion preserved), globally and for function bodies; composed as '
              'parse_then_run; (T3) ticks and hidden loop variables erase to the plain source-level big-step reading execS in both '
              'directions (termination included); (T4) parse_exec_structured composes T1, C08.cache_transparent, T2 and T3 for '
              'Machine.execute; (T0, from source TEXT) parseScript_print / parseScript_printExpr: the whole text-level parser model (physical and '
              'logical lines, the regex cascade, expression parsing, the stack algorithm, end-of-input checks) applied to the printed source text '
              'of a structured program returns exactly the recursive lowering (any indentation: parseScript_printPretty), composed with T2 as '
              'source_then_run. The Lean lowering (spec and mirror), machine and structured semantics are tied to parser.py/runtime.py by '
              'differential correspondence on grammar-generated programs; an independent Python big-step reading of the source is the '
              'oracle run against the implementation. Known finding F7 (continue inside while skips the condition test) is what the model '
              'encodes (while_continue_actual) and what the oracle reports.')
LEVEL_NOTE = ('Trusted: Lean kernel; harness (progen.py generator/renderer/reference interpreter, fw.py). Expression evaluation is shared by '
              'both sides of the theorems (abstract host) and by oracle and implementation (C03 covers operators). T3/T4 (ticked_erasure, '
              'parse_exec_structured) relate the machine run of the parsed program to the plain source-level reading execS (no ticks, no '
              'hidden for-variables, conditions re-tested before every iteration) under the decidable hypotheses ProgOK (well nested, no '
              'raw jumps/includes, no reserved identifiers, no continue-in-while = F7) and host laws TruthyBool, HostNoReserved. '
              'Python recursion limit and memory are outside the model; the rational number model has no negative zero. '
              'Host-only inputs (one options dict re-used over a history of runs with failing runs in between, host subclass values, '
              'Python host callables, chunked source input) have no Lean counterpart: streams options-history and host-boundary check '
              'them with implementation-side oracles (same step on fresh options, plain-value run, independent reading Ref); the '
              'model comparison covers the steps / plain variants the driver can express. Stream sessions (several executions over the '
              'globals a host keeps, each with its own options object, and host call-backs of script functions) is host-only as well '
              '(function values do not cross the wire): oracle = the reading Ref of each execution. Stream scale runs size ladders '
              '(call depth, iterations, chain length, label numbers, nesting) on a thread with a 512 MB stack - stack headroom is a '
              'host configuration - against Ref, closed forms and, up to size 129, the Lean machine. Runs that END WITH A RUNTIME ERROR '
              '(undefined function) are compared with the reading too: log and globals up to the failing call, arguments first. '
              'Streams keyword-names and endings (identifiers that begin with / contain / equal but for case / equal a statement keyword in '
              'every line-leading position; the return value for every way a statement list can end) run through the same model '
              'comparisons; the plain reading execS is not asked for programs with labels (outside ProgOK), their oracle is Ref, in which '
              'a label is a no-op.')


def known_f7(w):
    # exactly F7: the implementation agrees with the reading in which `continue` inside `while` skips the condition test
    return bool(w.get('explained_by_f7'))


FINDING_MATCHERS = {'F7': known_f7}


F7_PROGRAM = [
    {'k': 'expr', 'name': 'i', 'e': progen.num(0)},
    {'k': 'while', 'c': progen.wf_binary('<', progen.var('i'), progen.num(3)), 'b': [
        {'k': 'expr', 'name': 'i', 'e': progen.wf_binary('+', progen.var('i'), progen.num(1))},
        {'k': 'if', 'c': progen.wf_binary('==', progen.var('i'), progen.num(3)), 't': [{'k': 'continue'}], 'else': None},
        {'k': 'expr', 'name': None, 'e': progen.call('systemLog', progen.wf_binary('+', progen.string('i='), progen.var('i')))},
    ]},
    {'k': 'ret', 'e': progen.var('i')},
]


class Gen2(progen.Gen):
    """progen.Gen plus two classes of programs it never produces:
    (empty blocks) an if / elif / else branch, a loop body or a function body WITHOUT statements - the tests of an empty branch are
    still evaluated, once, in source order, and their effects (a logging / pushing call in the condition) stay observable;
    (maybe-undefined calls) a call statement at global scope whose callee is defined only by a definition statement that may not
    have run on the path taken (under a branch, in a loop body, further down) or by none at all, with EFFECTFUL argument
    expressions: the run ends with 'Undefined function', after the arguments were evaluated left to right."""
    EMPTY = 0.07
    MAYBE = 0.02

    def block(self, depth, in_loop, in_func, n=None):
        if n is None and depth > 0 and self.rng.random() < self.EMPTY:
            self.count('empty-block')
            return []
        return super().block(depth, in_loop, in_func, n)

    def effectful(self):
        r = self.rng.random()
        if r < 0.5:
            return self.traced(self.expr(2))
        if r < 0.8:
            return progen.call('arrayPush', progen.var(self.rng.choice(progen.VARS)), self.expr(2))
        return self.expr(1)

    def stmt(self, depth, in_loop, in_func):
        if not in_func and self.rng.random() < self.MAYBE:
            # global scope only: inside a function body a call of g / fe could close a call cycle (the recursion limit is not modelled)
            self.count('maybe-undefined-call')
            known = [f[0] for f in self.funcs if f[0] in ('g', 'fe')]
            name = self.rng.choice(known) if known and self.rng.random() < 0.75 else self.rng.choice(['g', 'fe', 'hx'])
            e = progen.call(name, *[self.effectful() for _ in range(self.rng.randint(1, 3))])
            if self.rng.random() < 0.3:
                # the undefined call nested in the arguments of another call: the innermost failure is the one reported
                e = progen.call(self.rng.choice(['g', 'fe', 'systemLog']), self.effectful(), e)
            s = {'k': 'expr', 'name': self.rng.choice([None, None] + progen.VARS[:2]), 'e': e}
            if self.rng.random() < 0.5:
                return {'k': 'if', 'c': self.cond(), 't': [s], 'else': None}
            return s
        return super().stmt(depth, in_loop, in_func)


def _probe_prog():
    """Corpus: every kind of EMPTY block behind a test with an effect (the test logs and pushes), and a call of a function that is
    defined only under a branch not taken, with effectful arguments."""
    probe = lambda tag, res: progen.call('probe', progen.string(tag) if isinstance(tag, str) else tag, res)      # noqa: E731
    t, f = progen.var('true'), progen.var('false')
    v = progen.var('v')
    return [
        {'k': 'expr', 'name': 'seen', 'e': progen.call('arrayNew')},
        {'k': 'func', 'fid': 0, 'name': 'probe', 'args': ['tag', 'result'], 'lastArgArray': False, 'async': False, 'b': [
            {'k': 'expr', 'name': None, 'e': progen.call('arrayPush', progen.var('seen'), progen.var('tag'))},
            {'k': 'expr', 'name': None, 'e': progen.call('systemLog', progen.wf_binary('+', progen.string('probe '), progen.var('tag')))},
            {'k': 'ret', 'e': progen.var('result')}]},
        {'k': 'func', 'fid': 0, 'name': 'nothing', 'args': ['p'], 'lastArgArray': False, 'async': False, 'b': []},
        {'k': 'if', 'c': probe('a', t), 't': [], 'else': None},
        {'k': 'if', 'c': probe('b', f), 't': [], 'else': None},
        {'k': 'if', 'c': probe('c', f), 't': [], 'else': {'k': 'elif', 'c': probe('d', t), 't': [], 'else': None}},
        {'k': 'if', 'c': probe('e', f), 't': [{'k': 'expr', 'name': 'x', 'e': progen.num(1)}],
         'else': {'k': 'elif', 'c': probe('f', f), 't': [], 'else': {'k': 'elif', 'c': probe('g', f), 't': [], 'else': None}}},
        {'k': 'if', 'c': probe('h', t), 't': [], 'else': {'k': 'else', 'b': []}},
        {'k': 'if', 'c': probe('i', f), 't': [], 'else': {'k': 'else', 'b': []}},
        {'k': 'for', 'value': 'v', 'index': None, 'vals': progen.call('arrayNew', progen.num(1), progen.num(2), progen.num(3)), 'b': [
            {'k': 'if', 'c': probe(v, progen.wf_binary('==', v, progen.num(2))), 't': [], 'else': None}]},
        {'k': 'for', 'value': 'v', 'index': 'i', 'vals': probe('vals', progen.call('arrayNew', progen.num(7), progen.num(8))), 'b': []},
        {'k': 'while', 'c': probe('w', f), 'b': []},
        {'k': 'expr', 'name': 'r', 'e': progen.call('nothing', probe('arg', progen.num(5)))},
        {'k': 'if', 'c': progen.wf_binary('==', progen.var('mode'), progen.string('full')), 't': [
            {'k': 'func', 'fid': 0, 'name': 'report', 'args': ['p', 'q'], 'lastArgArray': False, 'async': False, 'b': [
                {'k': 'ret', 'e': progen.num(1)}]}], 'else': None},
        {'k': 'expr', 'name': 'r', 'e': progen.call('report', probe('first', progen.num(1)), probe('second', progen.num(2)))},
        {'k': 'ret', 'e': progen.var('seen')},
    ]


def gen_cases(ctx, n, stream):
    rng = ctx.rng(stream)
    yield progen.assign_fids([dict(s) for s in F7_PROGRAM]), {}, {'while': 1, 'continue': 1, 'if': 1, 'corpus-F7': 1}
    for g in ({}, {'mode': 'full'}):
        yield progen.assign_fids(_probe_prog()), g, {'if': 6, 'elif': 3, 'else': 2, 'for': 2, 'while': 1, 'empty-block': 14,
                                                     'maybe-undefined-call': 1, 'corpus-empty': 1}
    for i in range(n):
        gen = Gen2(rng, max_depth=rng.choice([2, 3, 4, 5]))
        prog = gen.program()
        yield prog, keyword_globals(progen.random_globals(rng), rng), gen.stats


KEYWORD_NAMES = ['true', 'false', 'null']


def keyword_globals(g, rng, p=0.15):
    """Now and then the host supplies globals NAMED like the keywords (C-style `true = 1`, `false = 0`, a `null` object): the
    source-level meaning of `true`, `false` and `null` in conditions is the keyword, whatever is bound to that name."""
    if rng.random() < p:
        for name in rng.sample(KEYWORD_NAMES, rng.randint(1, 3)):
            g[name] = rng.choice([0, 1, '', 's', None, True, False, [], [0], {}])
    return g


def streams(ctx):
    parser = fw.impl()['parser']
    n = ctx.scale(400, 12000)
    cases, models = parsed_cases(ctx, parser, list(gen_cases(ctx, n, 'programs')))

    # --- stream lower: text -> statement list (implementation) vs recursive lowering (spec) vs line-at-a-time mirror
    st = ctx.stream('lower', 'grammar-directed structured programs (depth<=5, <=3 functions + prelude): parse_script(text) vs Lean '
                             'lowerProgram (spec) and parseLines∘render (mirror); oracle: parse_script of the same lines handed over as an iterable of '
                             'chunks with a start line number <= 0 or > 1 returns the same model; non-trivial = contains a loop or an if chain')
    resps = ctx.driver.batch([{'op': 'lower', 'prog': prog} for prog, _, _ in cases])
    crng = ctx.rng('chunks')
    for (prog, _, stats), resp, model in zip(cases, resps, models):
        text = '\n'.join(progen.render(prog))
        impl = progen.canon_script(model, with_fid=False)
        st.case(text, nontrivial=any(k in stats for k in ('if', 'while', 'for')), tags=sorted(stats))
        ctx.compare('lower', text, impl, progen.round_script_numbers(resp.get('spec')))
        ctx.compare('lower-mirror', text, impl, progen.round_script_numbers(resp.get('mirror')))
        # the other legal spellings of the same source: an iterable of chunks of whole lines (list / tuple / iterator, LF or CRLF
        # inside a chunk, a trailing line end), any start line number (0 and negative too): the same model
        spelling = chunk_spelling(text, crng)
        alt = parse_spelled(parser, text, spelling)
        if alt != model:
            ctx.witness('chunked-parse', {'text': text, 'spelling': spelling}, impl,
                        alt if 'error' in alt else progen.canon_script(alt, with_fid=False), explained_by_f7=False)

    # --- stream exec: run
    impls = exec_stream(ctx, 'exec', cases, models,
                        'the same programs x initial globals of all value kinds, maxStatements=400: execute_script(parse_script) vs '
                        'Lean jump machine on the lowered code vs Lean ticked structured semantics; oracle: independent Python '
                        'big-step reading of the source; non-trivial = terminates without error and runs a loop',
                        lambda stats: any(k in stats for k in ('while', 'for')))
    del models
    stream_history(ctx, parser, cases, impls)
    stream_print_parse(ctx, parser)

    # --- stream calls: call-heavy programs (per-call state: rest parameters, omitted arguments, in-place mutation, recursion)
    call_cases, call_models = parsed_cases(ctx, parser, list(gen_call_cases(ctx, ctx.scale(250, 2500), 'calls')))
    call_impls = exec_stream(ctx, 'calls', call_cases, call_models,
                             'call-heavy structured programs (CallGen: functions with rest parameters / omitted and surplus arguments whose '
                             'bodies mutate their parameters in place, return them, recurse to a bounded depth, are re-defined, are defined '
                             'inside loops, are called through systemPartial; called repeatedly from for/while/sequences with aliased global '
                             'arrays), maxStatements=400: implementation vs Lean jump machine / ticked / plain structured semantics; oracles: '
                             'big-step reading with a fresh frame per call (progen) and the independent call-dispatch reading (Ref); '
                             'non-trivial = terminates without error and calls a script function at least twice',
                             lambda stats: stats.get('calls', 0) >= 2, own_ref=True)
    stream_options_history(ctx, parser, cases, call_cases)
    stream_host_boundary(ctx, parser, cases, impls, call_cases, call_impls)
    del call_models
    stream_sessions(ctx, parser, cases, call_cases)
    stream_scale(ctx, parser)
    stream_keyword_names(ctx, parser, cases, call_cases)
    stream_endings(ctx, parser)


def parse_generated(ctx, parser, text, g=None):
    """Every generated program is a well-formed structured program: parse_script must accept it.  -> model, or None after reporting"""
    try:
        return parser.parse_script(text)
    except Exception as exc:  # pylint: disable=broad-except
        ctx.witness('generated-program-parses', {'text': text, 'globals': g or {}}, 'a model', f'{type(exc).__name__}: {exc}'[:400],
                    explained_by_f7=False)
        return None


def parsed_cases(ctx, parser, cases):
    """-> (the cases whose source text parses, their models); the others are reported (generated-program-parses)"""
    keep, models = [], []
    for case in cases:
        model = parse_generated(ctx, parser, '\n'.join(progen.render(case[0])), case[1])
        if model is not None:
            keep.append(case)
            models.append(model)
    return keep, models


def chunk_spelling(text, rng):
    """-> {'sizes': lines per chunk, 'eol': line end inside a chunk, 'tail': chunks end with a line end, 'as': container, 'start': n}"""
    n = len(text.split('\n'))
    sizes = []
    while sum(sizes) < n:
        sizes.append(min(n - sum(sizes), rng.choice([1, 1, 2, 3, 5, 20])))
    return {'sizes': sizes, 'eol': rng.choice(['\n', '\r\n']), 'tail': rng.random() < 0.3, 'as': rng.choice(['list', 'tuple', 'iter']),
            'start': rng.choice([0, -1, -100, 1, 2, 10 ** 6])}


def parse_spelled(parser, text, spelling):
    lines = text.split('\n')
    chunks, at = [], 0
    for size in spelling['sizes']:
        chunks.append(spelling['eol'].join(lines[at:at + size]) + (spelling['eol'] if spelling['tail'] else ''))
        at += size
    arg = {'list': list, 'tuple': tuple, 'iter': iter}[spelling['as']](chunks)
    try:
        return parser.parse_script(arg, spelling['start'])
    except Exception as exc:  # pylint: disable=broad-except
        return {'error': f'{type(exc).__name__}: {str(exc)[:200]}'}


def _w_input(text, g, prog):
    """Witness input: the replay needs text and globals; the structured form is added for the reader when it is small (the framework
    truncates large witnesses)."""
    inp = {'text': text, 'globals': g}
    if len(json.dumps(prog)) < 6000:
        inp['prog'] = prog
    return inp


def exec_stream(ctx, name, cases, models, rule, nontrivial, own_ref=False, reading=None):
    """Run every case on the implementation, on the Lean jump machine (lowered code), on the Lean ticked structured semantics and on the
    plain source-level reading; the property's own oracle is the independent Python big-step reading (`reading` replaces progen's
    where the programs contain labels, which progen's reading has no case for).  -> implementation outcomes"""
    suffix = '' if name == 'exec' else '-' + name
    st = ctx.stream(name, rule)
    impls = [progen.run_impl(model, g, max_statements=400) for (prog, g, _), model in zip(cases, models)]
    reqs = []
    slot = []
    for (prog, g, _), model, impl in zip(cases, models, impls):
        wg = progen.wire_globals(g)
        base = len(reqs)
        reqs.append({'op': 'exec', 'script': progen.canon_script(model), 'globals': wg, 'max': 400, 'fuel': 5000})
        reqs.append({'op': 'execT', 'prog': prog, 'globals': wg, 'max': 400, 'fuel': 5000})
        # the pure reading has no statement budget: only ask for it when the implementation run completed (<= 400 statements)
        # ... and no label either: the plain reading execS is defined on ProgOK programs (no raw labels / jumps); jump machine and
        # ticked semantics run labels
        pure = 'error' not in impl and 'hostexc' not in impl and not progen.has_while_continue(prog) and 'label' not in ident_kinds(prog)
        if pure:
            reqs.append({'op': 'execS', 'prog': prog, 'globals': wg, 'fuel': 1200})
        slot.append((base, pure))
    resps = ctx.driver.batch(reqs)
    for ix, ((prog, g, stats), model) in enumerate(zip(cases, models)):
        text = '\n'.join(progen.render(prog))
        impl = impls[ix]
        base, pure = slot[ix]
        m_exec = progen.canon_model_out(resps[base])
        m_t = progen.canon_model_out(resps[base + 1])
        m_s = progen.canon_model_out(resps[base + 2]) if pure else None
        tags = ['error' if 'error' in impl else 'ok']
        if 'hostexc' in impl:
            tags.append('hostexc')
        if name != 'exec':
            tags += sorted(stats)
        st.case([text, g], nontrivial=('error' not in impl and nontrivial(stats)), tags=tags)
        ctx.compare('exec' + suffix, [text, g], impl, m_exec)
        ctx.compare('execT' + suffix, [text, g], impl, m_t)
        # the plain source-level reading of the Lean model (T3/T4): same result, log and user-visible globals whenever the
        # implementation run is not cut by the budget and the program has no `continue` inside `while` (F7)
        if m_s is not None and 'oof' not in m_s:
            ctx.compare('execS' + suffix, [text, g], progen.strip_hidden(impl), progen.strip_hidden(m_s))
        # the property's own oracle: structured reading vs implementation
        if 'error' not in impl and 'hostexc' not in impl:
            got = progen.strip_hidden(impl)
            ref = (reading or progen.run_reference)(prog, g)
            if ref is not None and ref != got:
                ref7 = (reading or progen.run_reference)(prog, g, f7_quirk=True) if progen.has_while_continue(prog) else None
                ctx.witness('structured-reading', _w_input(text, g, prog), ref, got,
                            explained_by_f7=(ref7 is not None and ref7 == got))
            elif own_ref:
                ref2 = run_ref(prog, g)
                if ref2 is not None and ref2 != got:
                    ctx.witness('structured-reading', _w_input(text, g, prog), ref2, got, explained_by_f7=False)
        elif impl.get('error', '').startswith('Exceeded maximum') and not progen.has_while_continue(prog):
            # a budget error is outside the property only if the budget really is used up
            ref = run_ref(prog, g, budget=60, steps=True)
            if needless_budget_error(impl, ref, 400):
                ctx.witness('needless-budget-error', _w_input(text, g, prog), _no_steps(ref), progen.strip_hidden(impl),
                            explained_by_f7=False)
        elif 'error' in impl and 'hostexc' not in impl and not impl['error'].startswith(('Exceeded maximum', 'ParserError')):
            # a run that ENDS WITH A RUNTIME ERROR (undefined function): no return value, but the log and the globals left behind
            # are those of the structured reading up to the failing call - its arguments evaluated first, left to right (Ref has its
            # own call dispatch; progen's reading hands whole expressions to the implementation and would move with it)
            failing_run_oracle(ctx, text, g, prog, impl)
    return impls


def ident_kinds(block):
    """The roles identifiers play in a program (see ident_roles): {'func', 'var', 'label', 'bare'}"""
    return set().union(*ident_roles(block).values()) if block else set()


def failing_run_oracle(ctx, text, g, prog, impl):
    got = progen.strip_hidden(impl)
    ref = run_ref(prog, g, budget=3000)
    if ref is not None and ref != got:
        ref7 = run_ref(prog, g, budget=3000, f7_quirk=True) if progen.has_while_continue(prog) else None
        ctx.witness('structured-reading-failing-run', _w_input(text, g, prog), ref, got, explained_by_f7=(ref7 is not None and ref7 == got))


def stream_history(ctx, parser, cases, impls):
    """The outcome of parse+execute must not depend on what the process did before: re-run every program in sequence WITHOUT keeping
    earlier models alive (a cache keyed by object identity, or any state kept between calls, shows up only in such a history)."""
    st = ctx.stream('history', 'the same programs parsed, executed and dropped one after another in one process; outcome compared with '
                               'the first run (models kept alive); non-trivial = program takes at least one jump (has a loop or if)')
    for (prog, g, stats), first in zip(cases, impls):
        text = '\n'.join(progen.render(prog))
        again = progen.run_impl(parser.parse_script(text), g, max_statements=400)
        st.case(text, nontrivial=any(k in stats for k in ('if', 'while', 'for')), tags=['ok' if 'error' not in again else 'error'])
        if again != first:
            ctx.witness('history-independence', {'text': text, 'globals': g}, first, again, explained_by_f7=False)
            return


# ---------------------------------------------------------------------------------------------------------------------
# stream print-parse: the Lean PRINTER of structured programs (PrintScript.printScript Print.printExpr, the text the theorem
# C01.parseScript_printExpr is about) tied to the real parser
# ---------------------------------------------------------------------------------------------------------------------

def _gen_name(kind, i):
    return f'__bareScript{kind}{i}'


def _jump(label, cond=None):
    d = {'label': label}
    if cond is not None:
        d['expr'] = cond
    return {'jump': d}


def _not(e):
    return {'unary': {'expr': e, 'op': '!'}}


def py_lower(block, ctr, loop=None):
    """Reference lowering of a structured program to the statement model, written from the language definition
    (https://craigahobbs.github.io/bare-script/language/) independently of the Lean model: the expected value of
    parse_script(text).  `ctr` = [label counter] (script-wide), `loop` = (break label, continue label, [continue used])."""
    out = []
    for s in block:
        k = s['k']
        if k == 'expr':
            d = {'expr': s['e']}
            if s.get('name'):
                d['name'] = s['name']
            out.append({'expr': d})
        elif k == 'ret':
            out.append({'return': {'expr': s['e']} if s.get('e') else {}})
        elif k == 'label':
            out.append({'label': s['name']})
        elif k == 'jump':
            out.append(_jump(s['name'], s.get('c')))
        elif k == 'include':
            out.append({'include': {'includes': [dict(({'system': True} if i.get('system') else {}), url=i['url']) for i in s['includes']]}})
        elif k == 'break':
            out.append(_jump(loop[0]))
        elif k == 'continue':
            loop[2][0] = True
            out.append(_jump(loop[1]))
        elif k == 'if':
            i = ctr[0]
            ctr[0] += 1
            done, cur = _gen_name('Done', i), _gen_name('If', i)
            els = s.get('else')
            out.append(_jump(done if els is None else cur, _not(s['c'])))
            out += py_lower(s['t'], ctr, loop)
            while els is not None:
                out += [_jump(done), {'label': cur}]
                if els['k'] == 'else':
                    out += py_lower(els['b'], ctr, loop)
                    els = None
                else:
                    j = ctr[0]
                    ctr[0] += 1
                    cur = _gen_name('If', j)
                    nxt = els.get('else')
                    out.append(_jump(done if nxt is None else cur, _not(els['c'])))
                    out += py_lower(els['t'], ctr, loop)
                    els = nxt
            out.append({'label': done})
        elif k == 'while':
            i = ctr[0]
            ctr[0] += 1
            done, lp = _gen_name('Done', i), _gen_name('Loop', i)
            out += [_jump(done, _not(s['c'])), {'label': lp}]
            out += py_lower(s['b'], ctr, (done, lp, [False]))      # `continue` jumps to the loop label (known finding F7)
            out += [_jump(lp, s['c']), {'label': done}]
        elif k == 'for':
            i = ctr[0]
            ctr[0] += 1
            done, lp, cont = _gen_name('Done', i), _gen_name('Loop', i), _gen_name('Continue', i)
            values, length = _gen_name('Values', i), _gen_name('Length', i)
            ix = s.get('index') or _gen_name('Index', i)
            used = [False]
            out += [{'expr': {'expr': s['vals'], 'name': values}},
                    {'expr': {'expr': progen.call('arrayLength', progen.var(values)), 'name': length}},
                    _jump(done, _not(progen.var(length))),
                    {'expr': {'expr': progen.num(0), 'name': ix}},
                    {'label': lp},
                    {'expr': {'expr': progen.call('arrayGet', progen.var(values), progen.var(ix)), 'name': s['value']}}]
            out += py_lower(s['b'], ctr, (done, cont, used))
            if used[0]:
                out.append({'label': cont})
            out += [{'expr': {'expr': progen.binop('+', progen.var(ix), progen.num(1)), 'name': ix}},
                    _jump(lp, progen.binop('<', progen.var(ix), progen.var(length))),
                    {'label': done}]
        elif k == 'func':
            d = {'name': s['name']}
            if s['args']:
                d['args'] = list(s['args'])
            if s.get('async'):
                d['async'] = True
            if s.get('lastArgArray'):
                d['lastArgArray'] = True
            d['statements'] = py_lower(s['b'], ctr, None)
            out.append({'function': d})
        else:
            raise ValueError(k)
    return out


def expected_model(prog):
    return progen.round_script_numbers({'statements': py_lower(prog, [0])})


URLS = ['a.bare', 'lib/b c.bare', "it's.bare", 'back\\slash.bare', "q\\'x", 'https://h.example/p?q=1&r=<2', 'tab\there', 'ends\\', "'", '']
SYSTEM_URLS = ['args.bare', 'unittest.bare', 'a b', "it's", 'x\\y', '']
LABELS = ['L1', 'top', '_x9', 'done', 'break_', 'elseX', 'If', 'ifx', 'jump1', 'returnx', 'else_', 'include', 'function']
BAD_LABELS = ['é_no', 'else', '9x']     # not identifiers of the statement patterns / the else statement: the printer must say 'unprintable'


def decorate(block, rng, depth=0):
    """Add the statement kinds the generator leaves out (includes in both forms with awkward URLs, labels, jump/jumpif, async and
    variadic function headers) at random places; never two include nodes next to each other (the parser merges them)."""
    out = []
    for s in block:
        if rng.random() < 0.12:
            r = rng.random()
            if r < 0.4 and not (out and out[-1]['k'] == 'include'):
                out.append({'k': 'include', 'includes': [
                    ({'url': rng.choice(SYSTEM_URLS), 'system': True} if rng.random() < 0.4 else {'url': rng.choice(URLS), 'system': False})
                    for _ in range(rng.randint(1, 3))]})
            elif r < 0.6:
                out.append({'k': 'label', 'name': rng.choice(BAD_LABELS) if rng.random() < 0.02 else rng.choice(LABELS)})
            elif r < 0.8:
                out.append({'k': 'jump', 'name': rng.choice(LABELS), 'c': None})
            else:
                out.append({'k': 'jump', 'name': rng.choice(LABELS),
                            'c': progen.wf_binary(rng.choice(['<', '==', '&&']), progen.var(rng.choice(['a', 'n'])),
                                                  progen.group(progen.call('arrayNew', progen.num(rng.randint(0, 3)))))})
        s = dict(s)
        k = s['k']
        if k == 'include' and out and out[-1]['k'] == 'include':
            continue
        if k == 'if':
            s['t'] = decorate(s['t'], rng, depth + 1)
            node = s
            while node.get('else') is not None:
                e = dict(node['else'])
                node['else'] = e
                if e['k'] == 'else':
                    e['b'] = decorate(e['b'], rng, depth + 1)
                    break
                e['t'] = decorate(e['t'], rng, depth + 1)
                node = e
        elif k in ('while', 'for'):
            s['b'] = decorate(s['b'], rng, depth + 1)
        elif k == 'func':
            s['b'] = decorate(s['b'], rng, depth + 1)
            if rng.random() < 0.3:
                s['async'] = True
            if rng.random() < 0.15:
                s['lastArgArray'] = True
        out.append(s)
    return out


def _line_kinds(block, acc):
    for s in block:
        k = s['k']
        acc.add({'expr': 'assign' if s.get('name') else 'call', 'ret': 'return-value' if s.get('e') else 'return',
                 'jump': 'jumpif' if s.get('c') else 'jump', 'for': 'for-index' if s.get('index') else 'for'}.get(k, k))
        if k == 'func' and s.get('async'):
            acc.add('async')
        if k == 'func' and s.get('lastArgArray'):
            acc.add('variadic')
        if k == 'include':
            acc.add('include-system' if any(i.get('system') for i in s['includes']) else 'include-quoted')
        if k == 'if':
            _line_kinds(s['t'], acc)
            els = s.get('else')
            while els is not None:
                acc.add(els['k'])
                _line_kinds(els['b'] if els['k'] == 'else' else els['t'], acc)
                els = els.get('else') if els['k'] == 'elif' else None
        elif k in ('while', 'for', 'func'):
            _line_kinds(s['b'], acc)
    return acc


PRINT_CORPUS = [
    # every line kind once, awkward spellings
    [{'k': 'include', 'includes': [{'url': "it's\\here.bare", 'system': False}, {'url': 'unittest.bare', 'system': True}]},
     {'k': 'expr', 'name': 'if', 'e': progen.num(1)},
     {'k': 'func', 'fid': 0, 'name': 'walk', 'args': ['xs', 'in'], 'lastArgArray': True, 'async': True, 'b': [
         {'k': 'if', 'c': progen.wf_binary('==', progen.var('in'), progen.string('a:b # c')), 't': [{'k': 'ret', 'e': None}],
          'else': {'k': 'elif', 'c': progen.unop('!', progen.var('xs')), 't': [{'k': 'ret', 'e': progen.unop('-', progen.num(1))}],
                   'else': {'k': 'else', 'b': [{'k': 'expr', 'name': None, 'e': progen.call('systemLog', progen.string("it's \\ :"))}]}}},
         {'k': 'for', 'value': 'in', 'index': 'for', 'vals': progen.var('xs'), 'b': [
             {'k': 'while', 'c': progen.var('[a b]'), 'b': [{'k': 'if', 'c': progen.var('in'), 't': [{'k': 'break'}], 'else': None},
                                                          {'k': 'if', 'c': progen.var('for'), 't': [{'k': 'continue'}], 'else': None}]},
             {'k': 'if', 'c': progen.var('in'), 't': [{'k': 'continue'}], 'else': None}]},
         {'k': 'for', 'value': 'v', 'index': None, 'vals': progen.call('arrayNew', progen.num(Fraction(5, 2)), progen.num(10)), 'b': []}]},
     {'k': 'func', 'fid': 1, 'name': 'noArgs', 'args': [], 'lastArgArray': True, 'async': False, 'b': []},
     {'k': 'label', 'name': 'top'}, {'k': 'jump', 'name': 'top', 'c': None},
     {'k': 'jump', 'name': 'top', 'c': progen.group(progen.wf_binary('>', progen.var('n'), progen.call('mathMax', progen.num(1), progen.num(2))))},
     {'k': 'ret', 'e': progen.var('return')}],
    [],
    # not printable (the printer says so): label `else`, expression statement that is not a call, string with a line feed
    [{'k': 'label', 'name': 'else'}],
    [{'k': 'expr', 'name': None, 'e': progen.wf_binary('==', progen.var('a'), progen.var('b'))}],
    [{'k': 'expr', 'name': 's', 'e': progen.string('two\nlines')}],
    [{'k': 'include', 'includes': [{'url': 'a>b', 'system': True}]}],
]


def _digest(model):
    return hashlib.sha256(json.dumps(model, sort_keys=True, ensure_ascii=True).encode('utf-8')).hexdigest()


def _lowering_witness(ctx, text, want, got):
    """The real parser does not return the lowering of the program this text is the source of.  The witness carries the text, the first
    statement where the two models differ, and a digest of the whole expected model (what replay() re-checks)."""
    ws, gs = want.get('statements', []), (got.get('statements', []) if 'error' not in got else [])
    at = next((i for i, (a, b) in enumerate(zip(ws, gs)) if a != b), min(len(ws), len(gs)))
    ctx.witness('print-parse-lowering', {'text': text},
                {'statement_index': at, 'statement': ws[at] if at < len(ws) else None, 'n_statements': len(ws)},
                got if 'error' in got else {'statement_index': at, 'statement': gs[at] if at < len(gs) else None, 'n_statements': len(gs)},
                expected_digest=_digest(want), explained_by_f7=False)


def stream_print_parse(ctx, parser):
    rng = ctx.rng('print-parse')
    st = ctx.stream('print-parse',
                    'structured programs (generator + includes/labels/jumps/async/variadic headers) -> Lean printer '
                    'PrintScript.printScript Print.printExpr -> REAL parse_script(text) vs Lean lowerProgram for the same program '
                    '(= what C01.parseScript_printExpr proves the text-level parser MODEL returns); oracle: reference lowering in '
                    'Python; non-trivial = printable (C01.SourcePrintable) and contains a block statement')
    progs = [progen.assign_fids(copy.deepcopy(p)) for p in PRINT_CORPUS]
    for _ in range(ctx.scale(300, 4000)):
        gen = Gen2(rng, max_depth=rng.choice([2, 3, 4, 5]), allow_raw=True)
        progs.append(progen.assign_fids(decorate(gen.program(), rng)))
    reqs = []
    for prog in progs:
        reqs.append({'op': 'printScript', 'prog': prog})
        reqs.append({'op': 'lower', 'prog': prog})
    resps = ctx.driver.batch(reqs)
    n_printable = 0
    for ix, prog in enumerate(progs):
        pr, lo = resps[2 * ix], resps[2 * ix + 1]
        text = pr.get('text')
        kinds = sorted(_line_kinds(prog, set()))
        if not pr.get('printable'):
            # outside the hypotheses of the theorem: nothing is claimed about the text
            st.case(['unprintable', text], nontrivial=False, tags=['unprintable'])
            continue
        n_printable += 1
        try:
            impl = progen.canon_script(parser.parse_script(text), with_fid=False)
        except Exception as exc:  # pylint: disable=broad-except
            impl = {'error': f'{type(exc).__name__}: {getattr(exc, "error", exc)}'}
        st.case(text, nontrivial=any(k in kinds for k in ('if', 'while', 'for', 'for-index', 'func')), tags=kinds)
        ctx.compare('print-parse', text, impl, progen.round_script_numbers(lo.get('spec')))
        ctx.compare('print-parse-mirror', text, impl, progen.round_script_numbers(lo.get('mirror')))
        # the indented layout of the same program (C01.parseScript_printPretty_printExpr)
        try:
            impl_pretty = progen.canon_script(parser.parse_script(pr.get('pretty')), with_fid=False)
        except Exception as exc:  # pylint: disable=broad-except
            impl_pretty = {'error': f'{type(exc).__name__}: {getattr(exc, "error", exc)}'}
        ctx.compare('print-parse-pretty', pr.get('pretty'), impl_pretty, progen.round_script_numbers(lo.get('spec')))
        want = expected_model(prog)
        if impl_pretty != want and impl == want:
            _lowering_witness(ctx, pr.get('pretty'), want, impl_pretty)
        if impl != want:
            _lowering_witness(ctx, text, want, impl)
    if n_printable * 10 < len(progs) * 9:
        ctx.broken.append(f'correspondence stream print-parse: only {n_printable}/{len(progs)} generated programs are printable')


# ---------------------------------------------------------------------------------------------------------------------
# Ref: the structured reading with its OWN expression walk and call dispatch (progen.RefInterp hands whole expressions to the
# implementation's evaluate_expression, so a change in how a call is dispatched, how arguments are evaluated or how a failing host
# function is treated would move oracle and implementation together).  Only the strict operators on already evaluated operands
# are shared with the implementation (C03 is about them).
# ---------------------------------------------------------------------------------------------------------------------

_REF_CONTROL = (progen.RefBudget, progen._Break, progen._Continue, progen._Return)    # pylint: disable=protected-access


class Ref(progen.RefInterp):
    def stmt(self, s, locals_):
        if s['k'] == 'label':
            # a label without a jump to it marks a place and does nothing: execution goes on with the next statement
            self.step()
            return
        super().stmt(s, locals_)

    def strict(self, node, **operands):
        return self.mods['runtime'].evaluate_expression(node, self.options, operands, False)

    def ev(self, e, locals_):
        (k, v), = e.items()
        if k == 'number':
            return float(Fraction(v[0], v[1]))
        if k == 'string':
            return v
        if k == 'variable':
            if v in ('null', 'true', 'false'):
                return {'null': None, 'true': True, 'false': False}[v]
            return self.lookup(v, locals_)
        if k == 'group':
            return self.ev(v, locals_)
        if k == 'unary':
            x = self.ev(v['expr'], locals_)
            if v['op'] == '!':
                return not self.truthy(x)
            return self.strict({'unary': {'op': v['op'], 'expr': {'variable': 'x'}}}, x=x)
        if k == 'binary':
            left = self.ev(v['left'], locals_)
            if v['op'] == '&&':
                return left if not self.truthy(left) else self.ev(v['right'], locals_)
            if v['op'] == '||':
                return left if self.truthy(left) else self.ev(v['right'], locals_)
            right = self.ev(v['right'], locals_)
            return self.strict({'binary': {'op': v['op'], 'left': {'variable': 'l'}, 'right': {'variable': 'r'}}}, l=left, r=right)
        # call: `if` is lazy; otherwise arguments left to right, then locals -> globals (script mode: no expression built-ins)
        name, args = v['name'], v['args']
        if name == 'if':
            test = self.ev(args[0], locals_) if args else False
            pick = (args[1] if len(args) > 1 else None) if self.truthy(test) else (args[2] if len(args) > 2 else None)
            return self.ev(pick, locals_) if pick is not None else None
        values = [self.ev(a, locals_) for a in args]
        if locals_ is not None and name in locals_:
            fn = locals_[name]
        else:
            fn = self.options['globals'].get(name)
        if fn is None:
            raise self.mods['runtime'].BareScriptRuntimeError(f'Undefined function "{name}"')
        try:
            return fn(values, self.options)
        except _REF_CONTROL:
            raise
        except (self.mods['runtime'].BareScriptRuntimeError, self.mods['parser'].BareScriptParserError):
            raise
        except Exception as exc:  # pylint: disable=broad-except
            # a failing (host or library) function is null - or the error return value it names - and the run goes on
            return exc.return_value if isinstance(exc, self.mods['value'].ValueArgsError) else None


def run_ref(prog, globals_=None, host=None, budget=20000, f7_quirk=False, steps=False):
    """progen.run_reference with the Ref reading; `host` = host functions (fresh instances) put into the globals;
    steps=True adds 'steps' = the number of statements / loop iterations the reading took."""
    mods = fw.impl()
    library = mods['library']
    log = []
    g = copy.deepcopy(dict(globals_ or {}))
    g.update(host or {})
    for name, fn in library.SCRIPT_FUNCTIONS.items():
        g.setdefault(name, fn)
    options = {'globals': g, 'maxStatements': 0, 'logFn': log.append, 'statementCount': 0}
    out = {}
    interp = Ref(options, budget, f7_quirk)
    try:
        out['result'] = progen.ref_wire(interp.run(prog), library.SCRIPT_FUNCTIONS)
    except (progen.RefBudget, RecursionError):
        return None
    except mods['runtime'].BareScriptRuntimeError as exc:
        out['error'] = str(exc)
    if steps:
        out['steps'] = budget - interp.budget
    out['log'] = list(log)
    out['globals'] = sorted([[k, progen.ref_wire(v, library.SCRIPT_FUNCTIONS)] for k, v in g.items()
                             if not (k in library.SCRIPT_FUNCTIONS and v is library.SCRIPT_FUNCTIONS[k])], key=lambda kv: kv[0])
    return progen.canon_neg_zero(out)


# ---------------------------------------------------------------------------------------------------------------------
# CallGen: call-heavy programs.  What the grammar-directed generator of progen leaves thin: a function's parameters (above all an
# omitted '...' rest parameter) MUTATED IN PLACE or RETURNED by the body, the same function called many times (sequence, for, while,
# bounded recursion, nested in arguments, through systemPartial) with fewer / exactly / more arguments than parameters, global
# arrays passed by reference, functions re-defined between calls or defined by a statement that runs once per loop iteration.
# Every call must start from its own frame: parameters bound from this call's arguments only.
# ---------------------------------------------------------------------------------------------------------------------

N, S, V, C, B = progen.num, progen.string, progen.var, progen.call, progen.wf_binary


def _log(*parts):
    e = parts[0]
    for p in parts[1:]:
        e = B('+', e, p)
    return {'k': 'expr', 'name': None, 'e': C('systemLog', e)}


def _set(name, e):
    return {'k': 'expr', 'name': name, 'e': e}


def _do(e):
    return {'k': 'expr', 'name': None, 'e': e}


def _if(c, t, els=None):
    return {'k': 'if', 'c': c, 't': t, 'else': ({'k': 'else', 'b': els} if els is not None else None)}


def _called_names(node):
    """Names of all functions called anywhere in a block / statement / expression."""
    out = set()
    if isinstance(node, dict):
        if set(node) == {'function'} and isinstance(node['function'], dict) and 'args' in node['function']:
            out.add(node['function']['name'])
        for v in node.values():
            out |= _called_names(v)
    elif isinstance(node, list):
        for v in node:
            out |= _called_names(v)
    return out


class CallGen:
    PARAMS = ['p', 'q', 'xs', 'acc', 'a', 'n']
    FNAMES = ['fa', 'fb', 'fc', 'tally', 'walk']

    def __init__(self, rng, host=()):
        self.rng = rng
        self.funcs = []         # (name, params, lastArgArray, recursive)
        self.host = list(host)  # (name, nargs) host functions that may be called
        self.stats = {}
        self.tmp = 0
        self.pending = []       # helper definitions that go with the function defined last
        self.reach = {}         # name -> script functions its current body can end up calling
        self.loop_rec = set()   # functions that re-enter themselves from inside a loop: keep their recursion shallow

    def count(self, what, k=1):
        self.stats[what] = self.stats.get(what, 0) + k

    # -- small expressions ----------------------------------------------------------------------------------------------
    def small(self, names):
        rng = self.rng
        r = rng.random()
        if r < 0.3:
            return N(rng.choice([0, 1, 2, 3, 5, 7]))
        if r < 0.4:
            return S(rng.choice(['', 's', 'k']))
        if r < 0.7 and names:
            return V(rng.choice(names))
        if r < 0.8 and names:
            return C('arrayLength', V(rng.choice(names)))
        if r < 0.9:
            return C('arrayNew', *[N(rng.randint(0, 4)) for _ in range(rng.randint(0, 3))])
        return V(rng.choice(['null', 'true', 'false'] + progen.VARS))

    def call_of(self, fn, names, nargs=None):
        """A call of script function `fn` with fewer / exactly / more arguments than it has parameters."""
        name, params, laa, rec = fn
        rng = self.rng
        if nargs is None:
            nargs = max(0, len(params) + rng.choice([-2, -1, -1, 0, 0, 1, 2]) - (1 if laa and rng.random() < 0.6 else 0))
        args = [self.small(names) for _ in range(nargs)]
        if rec and args:
            args[0] = N(rng.randint(0, 2 if name in self.loop_rec else 4))          # the recursion depth
        self.count('calls')
        if laa and nargs < len(params):
            self.count('rest-omitted')
        elif laa:
            self.count('rest-passed')
        if nargs < len(params) - (1 if laa else 0):
            self.count('arg-omitted')
        if nargs > len(params) and not laa:
            self.count('arg-surplus')
        return C(name, *args)

    def any_call(self, names):
        rng = self.rng
        if self.host and rng.random() < 0.35:
            name, nargs = rng.choice(self.host)
            self.count('host-calls')
            return C(name, *[self.small(names) for _ in range(max(0, nargs + rng.choice([0, 0, -1, 1])))])
        if not self.funcs:
            return C('arrayNew', self.small(names))
        fn = rng.choice(self.funcs)
        e = self.call_of(fn, names)
        if rng.random() < 0.15 and e['function']['args']:
            # a call nested in the arguments of a call (of the same or another function)
            e['function']['args'][-1] = self.call_of(rng.choice(self.funcs), names)
            self.count('nested-call')
        return e

    # -- function bodies --------------------------------------------------------------------------------------------------
    def body_stmt(self, name, params, laa, rec, depth=0):
        rng = self.rng
        rest = params[-1] if laa and params else None
        free = [q for q in params if q != 'depth'] or ['loc']      # the recursion depth is never assigned: recursion stays bounded
        tgt = rest if rest is not None and rng.random() < 0.7 else rng.choice(free)
        names = params + ['loc']
        r = rng.random()
        if r < 0.22:
            self.count('mutate-push')
            return [_do(C('arrayPush', V(tgt), self.small(names)))]
        if r < 0.30:
            self.count('mutate-set')
            if rng.random() < 0.5:
                return [_do(C('arraySet', V(tgt), N(0), self.small(names)))]
            return [_do(C('objectSet', V(tgt), S('k'), self.small(names)))]
        if r < 0.42:
            return [_log(S(name + ':' + tgt + '='), rng.choice([C('arrayLength', V(tgt)), V(tgt)]))]
        if r < 0.50:
            return [_set('loc', rng.choice([C('arrayLength', V(tgt)), V(tgt), self.small(names)]))]
        if r < 0.60 and depth < 2:
            c = rng.choice([B('>', C('arrayLength', V(tgt)), N(rng.randint(0, 2))), V(tgt), progen.unop('!', V(tgt)),
                            B('==', V(rng.choice(names)), N(rng.randint(0, 3)))])
            t = self.body_stmt(name, params, laa, rec, depth + 1)
            els = self.body_stmt(name, params, laa, rec, depth + 1) if rng.random() < 0.5 else None
            self.count('if')
            return [_if(c, t, els)]
        if r < 0.68 and depth < 2:
            self.count('for')
            inner = self.body_stmt(name, params, laa, rec, depth + 1)
            if rng.random() < 0.3:
                inner.insert(0, _if(B('==', V('v'), N(rng.randint(0, 3))), [{'k': rng.choice(['break', 'continue'])}]))
            return [{'k': 'for', 'value': 'v', 'index': rng.choice([None, 'i']), 'vals': V(tgt), 'b': inner}]
        if r < 0.74 and rest is not None and depth < 2:
            # a loop that ends because the body grows the rest array: the test must see the mutation
            self.count('while')
            k = rng.randint(1, 3)
            return [{'k': 'while', 'c': B('<', C('arrayLength', V(rest)), N(k)), 'b': [_do(C('arrayPush', V(rest), N(k)))]}]
        if r < 0.80:
            # default for an omitted argument, then mutated
            self.count('default-init')
            return [_if(progen.unop('!', V(tgt)), [_set(tgt, C('arrayNew'))]), _do(C('arrayPush', V(tgt), N(rng.randint(0, 9))))]
        if r < 0.88 and self.funcs:
            return [_set('loc', self.call_of(rng.choice(self.funcs), names))]
        if r < 0.94:
            self.count('return')
            ret = {'k': 'ret', 'e': rng.choice([V(tgt), C('arrayLength', V(tgt)), self.small(names), None])}
            return [_if(B(rng.choice(['>', '<', '==']), V(rng.choice(names)), N(rng.randint(0, 3))), [ret])] if rng.random() < 0.6 else [ret]
        return [_set(tgt, rng.choice([C('arrayCopy', V(tgt)), C('arrayNew', self.small(names)), self.small(names)]))]

    def funcdef(self, name, callable_funcs):
        rng = self.rng
        nparams = rng.choice([0, 1, 1, 2, 2, 3, 3])        # without parameters too: the frame of a call is new even when nothing is bound
        params = rng.sample(self.PARAMS, nparams)
        if nparams and rng.random() < 0.12:
            # a parameter named like a keyword: it is bound, but `true` / `false` / `null` in an expression stay the keywords
            params[rng.randrange(nparams)] = rng.choice(KEYWORD_NAMES)
            self.count('keyword-name')
        laa = nparams > 0 and rng.random() < 0.6
        rec = nparams > 0 and rng.random() < 0.35
        if rec:
            params[0] = 'depth'
            if laa and nparams == 1:
                params.append('more')       # the depth itself is never the rest array
        # the call graph stays acyclic apart from the depth-bounded self recursion (Python's recursion limit is not modelled):
        # a (re-)definition of `name` may call only functions that do not lead back to `name`
        saved, self.funcs = self.funcs, [f for f in callable_funcs if f[0] != name and name not in self.reach.get(f[0], ())]
        body = []
        for _ in range(rng.randint(2, 6)):
            body += self.body_stmt(name, params, laa, rec)
        called = _called_names(body) & {f[0] for f in self.funcs}
        reach = set(called)
        for c in called:
            reach |= self.reach.get(c, set())
        reach |= self.reach.get(name, set())        # an earlier definition may still be the live one (a definition under a branch)
        self.reach[name] = reach
        for r in self.reach.values():
            if name in r:
                r |= reach
        if rec:
            # bounded recursion: every level is a new call of the same function, most of them without the rest arguments
            self.count('recursion')
            extra = [self.small(params)] if rng.random() < 0.3 else []
            callee = name
            via = []
            if rng.random() < 0.3:
                # indirect re-entry: the function calls a helper that calls the function
                self.count('recursion-indirect')
                callee = name + 'Via'
                via = [{'k': 'func', 'fid': 0, 'name': callee, 'args': ['depth', 'q'], 'lastArgArray': False, 'async': False,
                        'b': [{'k': 'for', 'value': 'w', 'index': None, 'vals': C('arrayNew', V('q')),
                               'b': [_set('got', C(name, V('depth'), V('w')))]}, {'k': 'ret', 'e': V('got')}]}]
            again = [rng.choice([_do, lambda e: _set('loc', e)])(C(callee, B('-', V('depth'), N(1)), *extra))]
            self.count('calls')
            pos = rng.randint(0, len(body))
            if rng.random() < 0.6:
                # re-entered while one of its own loops is running: the loop of every activation keeps its own array, length and
                # position (recursive tree walk)
                self.count('recursion-in-loop')
                self.loop_rec.add(name)
                vals = rng.choice([C('arrayNew', *[N(rng.randint(0, 5)) for _ in range(rng.randint(1, 3))]), V(params[-1])])
                ix = rng.choice([None, 'i'])
                shown = [S(name + ':'), V('v')] + ([S('@'), V(ix)] if ix else [])
                inner = [_if(B('>', V('depth'), N(0)), again), _log(*shown)]
                if rng.random() < 0.5:
                    inner.reverse()
                if rng.random() < 0.3:
                    inner = [{'k': 'for', 'value': 'u', 'index': None, 'vals': C('arrayNew', N(7), N(8)), 'b': inner}]
                body[pos:pos] = [{'k': 'for', 'value': 'v', 'index': ix, 'vals': vals, 'b': inner}]
            else:
                body[pos:pos] = [_if(B('>', V('depth'), N(0)), again)]
        if rng.random() < 0.7:
            last = params[-1] if params else 'loc'
            body.append({'k': 'ret', 'e': rng.choice([V(last), C('arrayLength', V(last)), V('loc')])})
        self.funcs = saved
        self.funcs = [f for f in self.funcs if f[0] != name] + [(name, params, laa, rec)]
        self.count('funcdef')
        if laa:
            self.count('rest')
        self.pending = (via if rec else [])
        return {'k': 'func', 'fid': 0, 'name': name, 'args': params, 'lastArgArray': laa, 'async': False, 'b': body}

    # -- main block -------------------------------------------------------------------------------------------------------
    def main_stmt(self, depth=0):
        rng = self.rng
        names = progen.VARS + ['t', 'keep']
        r = rng.random()
        if r < 0.05:
            # C-style constants: binds a variable, the keyword keeps its meaning
            self.count('keyword-name')
            name = rng.choice(KEYWORD_NAMES)
            return [_set(name, self.small(names)),
                    _if(rng.choice([V(name), progen.unop('!', V(name)), B('==', self.any_call(names), V(name))]),
                        [_log(S(name + ' branch'))], [_log(S(name + ' other'))])]
        if r < 0.25:
            return [_set(rng.choice(['t', 'keep'] + progen.VARS[:3]), self.any_call(names))]
        if r < 0.37:
            return [_log(S('r='), self.any_call(names))]
        if r < 0.45:
            # keep what a call returned (possibly its parameter array) and change it: later calls must not see that
            self.count('keep-mutate')
            return [_set('keep', self.any_call(names)), _do(C('arrayPush', V('keep'), N(rng.randint(5, 9)))),
                    _log(S('keep='), V('keep'))]
        if r < 0.60 and depth < 2:
            self.count('for')
            vals = rng.choice([C('arrayNew', *[N(rng.randint(0, 4)) for _ in range(rng.randint(1, 4))]), V(rng.choice(progen.VARS))])
            body = []
            if rng.random() < 0.25:
                body.append(_if(B('==', V('v'), N(rng.randint(0, 4))), [{'k': rng.choice(['break', 'continue'])}]))
            for _ in range(rng.randint(1, 3)):
                body += self.main_stmt(depth + 1)
            return [{'k': 'for', 'value': 'v', 'index': rng.choice([None, 'i']), 'vals': vals, 'b': body}]
        if r < 0.70 and depth < 2:
            self.count('while')
            self.tmp += 1
            k = f'k{self.tmp}'
            body = [_set(k, B('+', V(k), N(1)))]
            for _ in range(rng.randint(1, 2)):
                body += self.main_stmt(depth + 1)
            if rng.random() < 0.25:
                body.append(_if(B('>', V('t'), N(rng.randint(1, 4))), [{'k': 'break'}]))
            return [_set(k, N(0)), {'k': 'while', 'c': B('<', V(k), N(rng.randint(1, 4))), 'b': body}]
        if r < 0.78 and self.funcs:
            # the definition is a statement: run again (re-definition, or once per iteration of a loop)
            fn = rng.choice(self.funcs)
            self.count('redefine')
            d = self.funcdef(fn[0], [f for f in self.funcs if f[0] != fn[0] and not f[3]])
            if self.pending:
                return self.pending + [d]
            if depth == 0 and rng.random() < 0.5:
                self.count('define-in-loop')
                return [{'k': 'for', 'value': 'w', 'index': None, 'vals': C('arrayNew', N(1), N(2)),
                         'b': [d, _set('t', self.call_of(self.funcs[-1], names)), _log(S('w='), V('t'))]}]
            return [d]
        if r < 0.86 and self.funcs:
            self.count('partial')
            fn = rng.choice(self.funcs)
            out = [_set('pf', C('systemPartial', V(fn[0]), self.small(names)))]
            for _ in range(rng.randint(1, 3)):
                self.count('calls')
                out.append(_set('t', C('pf', *[self.small(names) for _ in range(rng.randint(0, 2))])))
            return out + [_log(S('pf='), V('t'))]
        if r < 0.93 and depth < 2:
            self.count('if')
            return [_if(rng.choice([V('t'), B('>', V('t'), N(rng.randint(0, 3))), progen.unop('!', V('keep'))]),
                        self.main_stmt(depth + 1), self.main_stmt(depth + 1) if rng.random() < 0.5 else None)]
        return [_set(rng.choice(progen.VARS), self.small(names))]

    def program(self):
        rng = self.rng
        prog = []
        for name in rng.sample(self.FNAMES, rng.randint(1, 3)):
            d = self.funcdef(name, [f for f in self.funcs if not f[3]])
            prog += self.pending + [d]
        for _ in range(rng.randint(3, 8)):
            prog += self.main_stmt()
        # the same call repeated back to back: the plainest history of all
        fn = rng.choice(self.funcs)
        again = self.call_of(fn, progen.VARS, nargs=rng.randint(0, max(0, len(fn[1]) - 1)))
        for _ in range(rng.randint(2, 3)):
            prog.append(_log(S('again='), copy.deepcopy(again)))
            self.count('calls')
        if rng.random() < 0.6:
            prog.append({'k': 'ret', 'e': rng.choice([V('t'), V('keep'), self.any_call(progen.VARS)])})
        return progen.assign_fids(prog)


CALL_CORPUS = [
    # the rest array of a call that passes no rest arguments is this call's own: push, return it, change it outside, recurse
    [{'k': 'func', 'fid': 0, 'name': 'tally', 'args': ['name', 'extra'], 'lastArgArray': True, 'async': False, 'b': [
        _set('before', C('arrayLength', V('extra'))), _do(C('arrayPush', V('extra'), V('name'))),
        _log(V('name'), S(':'), V('before')), {'k': 'ret', 'e': V('extra')}]},
     {'k': 'func', 'fid': 0, 'name': 'down', 'args': ['depth', 'seen'], 'lastArgArray': True, 'async': False, 'b': [
         _do(C('arrayPush', V('seen'), V('depth'))), _if(B('>', V('depth'), N(0)), [_do(C('down', B('-', V('depth'), N(1))))]),
         {'k': 'ret', 'e': C('arrayLength', V('seen'))}]},
     {'k': 'for', 'value': 'v', 'index': None, 'vals': C('arrayNew', S('a'), S('b'), S('c')), 'b': [
         _set('keep', C('tally', V('v'))), _do(C('arrayPush', V('keep'), N(9)))]},
     _set('k', N(0)),
     {'k': 'while', 'c': B('<', V('k'), N(2)), 'b': [_set('k', B('+', V('k'), N(1))), _log(S('w'), C('arrayLength', C('tally', V('k'))))]},
     _log(S('x'), C('tally', S('x'), S('p'), S('q'))), _log(S('y'), C('tally')),
     {'k': 'ret', 'e': C('down', N(3))}],
]


CALL_CORPUS.append(
    # recursive tree walk: the for loop of every activation of `walk` goes on where it was when the inner activation returns
    [{'k': 'func', 'fid': 0, 'name': 'walk', 'args': ['node', 'null'], 'lastArgArray': False, 'async': False, 'b': [
        _set('total', N(0)),
        {'k': 'for', 'value': 'child', 'index': 'ix', 'vals': V('node'), 'b': [
            _if(B('==', C('systemType', V('child')), S('array')), [_set('total', B('+', V('total'), C('walk', V('child'), V('ix'))))],
                [_set('total', B('+', V('total'), V('child')))]),
            _log(S('visit '), V('ix'), S(':'), V('child'), S(' null='), V('null'))]},
        {'k': 'ret', 'e': V('total')}]},
     _set('true', N(0)), _set('false', N(1)),
     _if(V('true'), [_log(S('true is the keyword'))], [_log(S('true was looked up'))]),
     _if(B('==', B('<', N(1), N(2)), V('true')), [_log(S('1 < 2 == true'))]),
     {'k': 'while', 'c': V('false'), 'b': [_log(S('false was looked up')), {'k': 'break'}]},
     {'k': 'ret', 'e': C('walk', C('arrayNew', N(1), C('arrayNew', N(2), C('arrayNew', N(3)), N(4)), N(5)), S('top'))}])


def gen_call_cases(ctx, n, stream):
    rng = ctx.rng(stream)
    for prog in CALL_CORPUS:
        yield progen.assign_fids(copy.deepcopy(prog)), {}, {'calls': 9, 'rest': 2, 'rest-omitted': 6, 'corpus': 1}
    for _ in range(n):
        gen = CallGen(rng)
        prog = gen.program()
        yield prog, keyword_globals(progen.random_globals(rng), rng), gen.stats


# ---------------------------------------------------------------------------------------------------------------------
# Running a step on options the HOST owns (progen.run_impl always builds fresh options)
# ---------------------------------------------------------------------------------------------------------------------

HISTORY_SUBS = {
    'sub-ok': 'subCount = (subCount || 0) + 1\nfor sv in arrayNew(1, 2, 3):\n    subCount = subCount + sv\nendfor\nreturn subCount',
    'sub-undefined': 'subSeen = 1\nfor sv in arrayNew(1, 2):\n    noSuchSubFunction(sv)\nendfor',
    'sub-runaway': 'while true:\n    subSpin = (subSpin || 0) + 1\nendwhile',
}


def history_host():
    """Stateless host functions of a re-used host: one that stops the run, one that fails (null), and two that run a sub-script
    with the options they were handed (a nested execute_script), letting its error through / swallowing it."""
    mods = fw.impl()
    runtime, parser = mods['runtime'], mods['parser']

    def host_fatal(args, unused_options):
        raise runtime.BareScriptRuntimeError('host stop ' + str(args[0] if args else ''))

    def host_boom(unused_args, unused_options):
        raise KeyError('boom')

    def host_run(args, options):
        return runtime.execute_script(parser.parse_script(HISTORY_SUBS.get(args[0] if args else None, 'return 0')), options)

    def host_try(args, options):
        try:
            return host_run(args, options)
        except runtime.BareScriptRuntimeError:
            return 'failed'

    return {'hostFatal': host_fatal, 'hostBoom': host_boom, 'hostRun': host_run, 'hostTry': host_try}


def run_on(options, log, model):
    """One execute_script on host-owned options -> outcome in the shape of progen.run_impl."""
    runtime = fw.impl()['runtime']
    del log[:]
    return _outcome(options, log, lambda: runtime.execute_script(model, options))


def gen_fault(rng):
    """A script that ends with an error part-way through loops and calls -> step {kind, text, files, host}."""
    n = rng.randint(2, 4)
    at = rng.randint(1, n)
    items = ', '.join(str(i) for i in range(1, n + 1))
    kind = rng.choice(['runaway-global', 'runaway-function', 'undefined-function', 'undefined-global', 'unknown-label',
                       'include-missing', 'include-broken', 'include-runaway', 'include-undefined',
                       'host-fatal', 'host-nested-error', 'host-nested-swallowed', 'host-nested-ok', 'host-exception', 'parse-error'])
    files, host = None, False
    if kind == 'parse-error':
        # the host's parse of a broken script fails part-way through nested blocks; nothing is executed
        text = f'''function half(m):
    for k in arrayNew({items}):
        if k == m:
            while k < {at}:
                k = k + 1
            endwhile
        {rng.choice(['endfor', 'else if:', 'k = = 1', 'endwhile'])}
    endfor
endfunction'''
    elif kind == 'runaway-global':
        text = f'''spins = 0
for start in arrayNew({items}):
    systemLog('spin ' + start)
    while start == {at}:
        spins = spins + 1
    endwhile
endfor'''
    elif kind == 'runaway-function':
        text = f'''function spin(m):
    while true:
        m = m + 1
    endwhile
    return m
endfunction
for start in arrayNew({items}):
    systemLog('spin ' + start)
    if start == {at}:
        spin(start)
    endif
endfor'''
    elif kind == 'undefined-function':
        text = f'''function work(m):
    for k in arrayNew({items}):
        if k == m:
            return noSuchFunction(k)
        endif
    endfor
    return m
endfunction
j = 0
while j < {n}:
    j = j + 1
    systemLog('work ' + j)
    work(j + {at - 1})
endwhile'''
    elif kind == 'undefined-global':
        text = f'''done = 0
for k in arrayNew({items}):
    if k == {at}:
        done = missingFunction{at}(k)
    endif
    systemLog('k=' + k)
endfor'''
    elif kind == 'unknown-label':
        text = f'''function hop(m):
    if m == {at}:
        jump nowhere{at}
    endif
    return m
endfunction
for k in arrayNew({items}):
    systemLog('hop ' + hop(k))
endfor'''
    elif kind.startswith('include-'):
        files = {'ok.bare': 'function included(m):\n    return m + 1\nendfunction\nincludedRuns = (includedRuns || 0) + 1',
                 'broken.bare': 'if x:\n  y = 1\n',
                 'runaway.bare': 'while true:\n    incSpin = (incSpin || 0) + 1\nendwhile',
                 'undefined.bare': 'for iv in arrayNew(1, 2):\n    notThere(iv)\nendfor'}
        url = {'include-missing': 'missing.bare', 'include-broken': 'broken.bare', 'include-runaway': 'runaway.bare',
               'include-undefined': 'undefined.bare'}[kind]
        text = f'''include 'ok.bare'
for k in arrayNew({items}):
    systemLog('inc ' + included(k))
endfor
include '{url}'
systemLog('not reached')'''
    else:
        host = True
        callee = {'host-fatal': f"hostFatal({at})", 'host-nested-error': "hostRun('sub-undefined')",
                  'host-nested-swallowed': f"hostTry('{rng.choice(['sub-undefined', 'sub-runaway'])}')",
                  'host-nested-ok': "hostRun('sub-ok')", 'host-exception': 'hostBoom(1)'}[kind]
        text = f'''function viaHost(m):
    if m == {at}:
        return {callee}
    endif
    return m
endfunction
for k in arrayNew({items}):
    systemLog('host ' + viaHost(k))
endfor
return k'''
    return {'kind': kind, 'text': text, 'globals': {}, 'files': files, 'host': host}


class History:
    """One host configuration run twice: `reused` = one options object for all steps, `fresh` = a new options object per step.
    mode 'reset': the host installs new globals before every step; mode 'carry': the globals object lives on across the steps."""

    def __init__(self, mode, limit):
        self.mode, self.limit = mode, limit
        self.files = [None]
        self.log = []
        self.log2 = []
        self.models = {}
        self.reused = self.new_options(self.log)
        self.carry2 = None

    def new_options(self, log):
        def fetch(req):
            return (self.files[0] or {}).get(req['url'])
        return {'maxStatements': self.limit, 'logFn': log.append, 'debug': False, 'fetchFn': fetch}

    def step(self, step, parser):
        """-> (outcome on the re-used options, outcome on fresh options)"""
        self.files[0] = step.get('files')
        text = step['text']
        try:
            if text not in self.models:
                self.models[text] = parser.parse_script(text)        # the re-using host also keeps its parsed scripts
            model2 = parser.parse_script(text)
        except parser.BareScriptParserError as exc:
            out = {'error': 'ParserError ' + str(exc).split('\n', 1)[0]}
            return out, dict(out)
        opts2 = self.new_options(self.log2)
        if self.mode == 'reset':
            for opts in (self.reused, opts2):
                g = copy.deepcopy(step['globals'])
                if step.get('host'):
                    g.update(history_host())
                if g or 'globals' not in opts:
                    opts['globals'] = g
                else:
                    del opts['globals']     # a host may also drop the member: execute_script creates the globals
        else:
            if 'globals' not in self.reused:
                self.reused['globals'] = dict(copy.deepcopy(step['globals']), **history_host())
                self.carry2 = dict(copy.deepcopy(step['globals']), **history_host())
            opts2['globals'] = self.carry2
        a = run_on(self.reused, self.log, self.models[text])
        b = run_on(opts2, self.log2, model2)
        return a, b

    def run(self, steps, parser):
        """-> the two outcomes of the LAST step"""
        a = b = None
        for step in steps:
            a, b = self.step(step, parser)
        return a, b


def run_history(mode, limit, steps, parser):
    """-> index of the first step whose outcome on re-used options differs from fresh options, with both outcomes; or None"""
    h = History(mode, limit)
    for ix, step in enumerate(steps):
        a, b = h.step(step, parser)
        if outcomes_differ(a, b):
            return ix, b, a
    return None


def needless_budget_error(out, ref, limit):
    """The run stopped with 'Exceeded maximum script statements' although the structured reading of the program finishes in so few
    steps that the lowered code cannot need `limit` statements: one step of the reading (a statement, or one loop iteration) is at
    most 8 machine statements (an if chain: its tests, the closing jump and label; for: 6 set-up + 4 per iteration)."""
    return ('error' in out and out['error'].startswith('Exceeded maximum script statements') and ref is not None
            and 'error' not in ref and 8 * ref['steps'] + 16 <= limit)


def _no_steps(ref):
    return None if ref is None else {k: v for k, v in ref.items() if k != 'steps'}


def outcomes_differ(a, b):
    """Two runs that the property says are the same run: a violation when at least one of them completes and they differ in what the
    property speaks of (result, log, user-visible globals).  Statement counts, hidden loop variables and the details of two failing
    runs are left to the model comparison."""
    if ('error' in a or 'hostexc' in a) and ('error' in b or 'hostexc' in b):
        return False
    return progen.strip_hidden(a) != progen.strip_hidden(b)


def history_verdict(a, b, ref, limit, generated=False):
    """a = outcome of a step on the re-used options, b = on fresh options, ref = structured reading of the step (mode reset) or None
    -> name of the violated oracle, or None"""
    if outcomes_differ(a, b):
        return 'options-reuse'
    if generated and a.get('error', '').startswith('ParserError'):
        return 'options-reuse-parse'        # a generated program always parses
    if needless_budget_error(a, ref, limit):
        return 'options-reuse-budget'
    if ref is not None and 'error' not in a and 'hostexc' not in a and _no_steps(ref) != progen.strip_hidden(a):
        return 'options-reuse-reading'
    return None


def shrink_history(mode, limit, steps, ref, verdict, parser):
    """Drop every earlier step the failure of the last step does not need (one pass, first to last)."""
    i = 0
    while i < len(steps) - 1:
        trial = steps[:i] + steps[i + 1:]
        a, b = History(mode, limit).run(trial, parser)
        if history_verdict(a, b, ref, limit, True) == verdict:
            steps = trial
        else:
            i += 1
    return steps


def stream_options_history(ctx, parser, cases, call_cases):
    rng = ctx.rng('options-history')
    st = ctx.stream('options-history',
                    'histories of 5-11 execute_script runs on ONE options object owned by the host (finite maxStatements 60/150/400, '
                    'logFn, fetchFn; globals re-installed per run = mode reset, or living on = mode carry; parsed models kept): generated '
                    'programs repeated around runs that END WITH AN ERROR part-way through loops/calls (budget exhausted at top level / '
                    'in a function, undefined function, unknown label, failing / broken / runaway include, host function raising, host '
                    'function running a nested execute_script on the same options that fails or is swallowed). Oracles: every step gives '
                    'the outcome (result or error, log, globals, statement count) of the same step on a fresh options object; in mode '
                    'reset also the structured reading and "no budget error when the reading needs < limit/8 steps", and the Lean jump '
                    'machine started at count 0 (the model of execute_script) for steps without host functions/includes. Host '
                    'functions and the re-use of one Python dict are host-only: no Lean counterpart for them. non-trivial = history '
                    'with a failed run followed by a run that completes')
    pool = [(prog, g) for prog, g, _ in cases[1:]] + [(prog, g) for prog, g, _ in call_cases]
    texts = {}
    refs = {}

    def good(ix):
        if ix not in texts:
            texts[ix] = '\n'.join(progen.render(pool[ix][0]))
        return {'kind': 'generated', 'text': texts[ix], 'globals': pool[ix][1], 'files': None, 'host': False, 'pool': ix}

    reqs, req_at = [], []
    found = 0
    for _ in range(ctx.scale(70, 800)):
        if found >= 3:
            break       # enough failing histories: each is shrunk, which costs runs
        mode = rng.choice(['reset', 'reset', 'carry'])
        limit = rng.choice([60, 150, 400, 400])
        mains = [good(rng.randrange(len(pool))) for _ in range(rng.randint(1, 2))]
        steps = [rng.choice(mains) for _ in range(rng.randint(1, 2))]
        for _ in range(rng.randint(1, 2)):
            steps.append(gen_fault(rng))
            for _ in range(rng.randint(2, 4)):
                steps.append(rng.choice(mains) if rng.random() < 0.8 else good(rng.randrange(len(pool))))
        h = History(mode, limit)
        failed = recovered = False
        tags = [mode, f'limit{limit}']
        for ix, step in enumerate(steps):
            a, b = h.step(step, parser)
            tags.append(step['kind'])
            if 'error' in a or 'hostexc' in a:
                failed = True
            elif failed:
                recovered = True
            ref = None
            if mode == 'reset' and step['kind'] == 'generated':
                prog, g = pool[step['pool']]
                if step['pool'] not in refs:
                    refs[step['pool']] = None if progen.has_while_continue(prog) else run_ref(prog, g, budget=2000, steps=True)
                ref = refs[step['pool']]
            verdict = history_verdict(a, b, ref, limit, step['kind'] == 'generated')
            if verdict is not None:
                found += 1
                short = shrink_history(mode, limit, steps[:ix + 1], ref, verdict, parser)
                a, b = History(mode, limit).run(short, parser)
                ctx.witness(verdict, {'mode': mode, 'limit': limit, 'steps': [{k: s[k] for k in ('text', 'globals', 'files', 'host')} for s in short]},
                            b if verdict == 'options-reuse' else ('a model' if verdict == 'options-reuse-parse' else _no_steps(ref)),
                            a if verdict != 'options-reuse-reading' else progen.strip_hidden(a),
                            step=len(short) - 1, explained_by_f7=False)
                break
            if mode == 'reset' and not step['host'] and not step['files'] and step['text'] in h.models:
                reqs.append({'op': 'exec', 'script': progen.canon_script(h.models[step['text']]),
                             'globals': progen.wire_globals(step['globals']), 'max': limit, 'fuel': 5000})
                req_at.append(([mode, limit, [s['text'] for s in steps[:ix + 1]], step['globals']], a))
        st.case([mode, limit, [[s['text'], s['globals']] for s in steps]], nontrivial=failed and recovered, tags=tags)
    for (case, a), resp in zip(req_at, ctx.driver.batch(reqs)):
        ctx.compare('options-history', case, a, progen.canon_model_out(resp))


# ---------------------------------------------------------------------------------------------------------------------
# host boundary: values and callables only a host can put into the globals
# ---------------------------------------------------------------------------------------------------------------------

class IntSub(int):
    pass


class FloatSub(float):
    pass


class StrSub(str):
    pass


class ListSub(list):
    pass


class DictSub(dict):
    pass


class MissingDict(dict):
    def __missing__(self, key):
        return 'default'


class Small(enum.IntEnum):
    ZERO = 0
    ONE = 1
    TWO = 2
    THREE = 3


class Flag(enum.IntFlag):
    NONE = 0
    A = 1
    B = 2


def host_wrap(v, rng):
    """The same BareScript value as `v`, spelled with the subclasses a host program may hand over (IntEnum / IntFlag members, int,
    float, str, list, dict subclasses, OrderedDict, a dict with __missing__)."""
    if v is None or isinstance(v, bool):
        return v
    if isinstance(v, int):
        r = rng.random()
        if r < 0.4 and 0 <= v <= 3:
            return Small(v)
        if r < 0.55 and 0 <= v <= 2:
            return Flag(v)
        return IntSub(v)
    if isinstance(v, float):
        return FloatSub(v)
    if isinstance(v, str):
        return StrSub(v)
    if isinstance(v, list):
        return ListSub(host_wrap(x, rng) for x in v)
    if isinstance(v, dict):
        return rng.choice([DictSub, collections.OrderedDict, MissingDict])((k, host_wrap(x, rng)) for k, x in v.items())
    return v


def wrap_globals(g, seed):
    rng = fw.rng_for(seed, 'C01', 'host-wrap')
    return {k: host_wrap(v, rng) for k, v in g.items()}


class _Ticker:
    def __init__(self):
        self.n = 0.0

    def __call__(self, unused_args, unused_options):
        self.n += 1
        return self.n

    def seen(self, args, unused_options):
        self.n += len(args)
        return self.n


def _host3(tag, args, unused_options):
    return float(len(tag) + len(args))


HOST_SIGNATURES = [('hostId', 1), ('hostLen', 2), ('hostBoom', 1), ('hostArgs', 1), ('hostTick', 0), ('hostSeen', 2),
                   ('hostBound', 1), ('hostStar', 1), ('hostKw', 1), ('hostNull', 0), ('hostEmpty', 0)]


def make_host():
    """Fresh host callables of the shapes a host may register: def, lambda, callable object, bound method, functools.partial,
    *args and defaulted signatures; failing ones (null) and one naming its error return value (ValueArgsError)."""
    value = fw.impl()['value']
    tick, seen = _Ticker(), _Ticker()

    def host_id(args, unused_options):
        return args[0] if args else None

    def host_boom(args, unused_options):
        raise KeyError(args[0])

    def host_args(args, unused_options):
        raise value.ValueArgsError('x', args[0] if args else None, -1.0)

    def host_star(*both):
        return both[0][0] if both[0] else None

    def host_kw(args, options=None, extra=2.0):
        return extra if options is not None and args else None

    return {'hostId': host_id, 'hostLen': lambda args, options: float(len(args)), 'hostBoom': host_boom, 'hostArgs': host_args,
            'hostTick': tick, 'hostSeen': seen.seen, 'hostBound': functools.partial(_host3, 'tag'), 'hostStar': host_star,
            'hostKw': host_kw, 'hostNull': lambda args, options: None, 'hostEmpty': lambda args, options: []}


def run_with_host(model, g, wrapped_seed=None, limit=400, no_globals_member=False):
    log = []
    gg = wrap_globals(g, wrapped_seed) if wrapped_seed is not None else copy.deepcopy(g)
    options = {'maxStatements': limit, 'logFn': log.append, 'debug': False, 'statementCount': 10 ** 6}
    if not no_globals_member:
        options['globals'] = dict(gg, **make_host())
    return run_on(options, log, model)


TRUTH_VALUES = [None, True, False, 0, 1, 2, -1, 0.0, 0.5, '', 's', [], [0], [[]], {}, {'k': 0}]


def gen_truth_case(rng):
    """A program whose every kind of test position (if, elif, while header, while RE-TEST, for values, lazy `if()`, && / ||, a
    condition inside a function on a parameter) consumes a value that comes straight from the host's globals: `seq` (an array of
    values) and scalars h0..h3, some of them named like keywords.  -> (prog, globals)"""
    g = {'seq': [rng.choice(TRUTH_VALUES) for _ in range(rng.randint(2, 6))]}
    for k in range(4):
        g[f'h{k}'] = rng.choice(TRUTH_VALUES)
    keyword_globals(g, rng, 0.3)
    hs = ['h0', 'h1', 'h2', 'h3'] + [k for k in KEYWORD_NAMES if k in g]
    pick = lambda: rng.choice([V(rng.choice(hs)), C('arrayGet', V('seq'), N(rng.randint(0, 5)))])   # noqa: E731
    prog = [{'k': 'func', 'fid': 0, 'name': 'truth', 'args': ['v', rng.choice(['w', 'null', 'true'])], 'lastArgArray': False, 'async': False,
             'b': [_if(V('v'), [{'k': 'ret', 'e': S('T')}]), {'k': 'ret', 'e': S('F')}]}]
    for _ in range(rng.randint(3, 7)):
        r = rng.random()
        if r < 0.25:
            # the loop goes on exactly while the value just fetched is truthy: the re-test sees the host value itself
            prog += [_set('i', N(0)), _set('cur', C('arrayGet', V('seq'), N(0))),
                     {'k': 'while', 'c': V('cur'), 'b': [_log(S('walk '), V('i')), _set('i', B('+', V('i'), N(1))),
                                                       _set('cur', C('arrayGet', V('seq'), V('i')))]}]
        elif r < 0.45:
            node = {'k': 'if', 'c': pick(), 't': [_log(S('first'))], 'else': None}
            chain = node
            for j in range(rng.randint(0, 2)):
                chain['else'] = {'k': 'elif', 'c': pick(), 't': [_log(S(f'elif{j}'))], 'else': None}
                chain = chain['else']
            if rng.random() < 0.6:
                chain['else'] = {'k': 'else', 'b': [_log(S('else'))]}
            prog.append(node)
        elif r < 0.6:
            prog.append({'k': 'for', 'value': rng.choice(['v', 'true', 'null']), 'index': 'ix', 'vals': rng.choice([V('seq'), pick()]), 'b': [
                _if(rng.choice([V('v'), C('arrayGet', V('seq'), V('ix'))]), [_log(S('T'), V('ix'))], [_log(S('F'), V('ix'))])]})
        elif r < 0.75:
            a, b = rng.sample(hs, 2)
            prog += [_set('n', N(0)), _set('c', V(a)),
                     {'k': 'while', 'c': V('c'), 'b': [_set('n', B('+', V('n'), N(1))), _log(S('spin '), V('n')),
                                                     _if(B('>=', V('n'), N(2)), [_set('c', V(b))]),
                                                     _if(B('>', V('n'), N(3)), [{'k': 'break'}])]}]
        elif r < 0.9:
            prog.append(_log(S('t='), C('truth', pick(), pick()), C('if', pick(), S('Y'), S('N')),
                             progen.group(B('||', progen.group(B('&&', pick(), S('A'))), S('B')))))
        else:
            name = rng.choice(hs + KEYWORD_NAMES)
            prog += [_set(name, pick()), _if(V(name), [_log(S(name + ' T'))], [_log(S(name + ' F'))])]
    prog.append({'k': 'ret', 'e': C('truth', pick())})
    return progen.assign_fids(prog), g


def stream_host_boundary(ctx, parser, cases, impls, call_cases, call_impls):
    rng = ctx.rng('host-boundary')
    st = ctx.stream('host-boundary',
                    '(values) generated programs re-run with every initial global spelled as a host subclass instance (IntEnum/IntFlag '
                    'member, int/float/str/list/dict subclass, OrderedDict, dict with __missing__): same outcome as with the plain '
                    'values; (truth) programs whose if / elif / while header / while re-test / for values / lazy if() / && || / parameter '
                    'tests read values straight from host globals (also globals named true/false/null), plain vs Lean ticked semantics vs '
                    'reading, then as subclass instances; (options) no "globals" member and a stale statementCount: same outcome; (callables) CallGen programs '
                    'whose conditions, for-values and arguments call host functions of every registration shape (def, lambda, '
                    'callable object with state, bound method, functools.partial, *args, defaulted parameters, raising, raising '
                    'ValueArgsError) vs the independent call-dispatch reading Ref given fresh instances of the same functions. '
                    'Host-only inputs: the Lean value model has no host subclasses or Python callables, implementation-side oracles only. '
                    'non-trivial = run completes and takes a loop / calls a host function')
    both = [(c, i) for c, i in zip(cases, impls)] + [(c, i) for c, i in zip(call_cases, call_impls)]
    for (prog, g, stats), plain in rng.sample(both, min(len(both), ctx.scale(250, 2500))):
        text = '\n'.join(progen.render(prog))
        model = parse_generated(ctx, parser, text, g)
        if model is None:
            continue
        kinds = sorted({type(v).__name__ for v in g.values()})
        if g:
            seed = rng.randrange(10 ** 6)
            got = progen.run_impl(model, wrap_globals(g, seed), max_statements=400)
            st.case([text, g, seed], nontrivial='error' not in got and any(k in stats for k in ('while', 'for')), tags=['values'] + kinds)
            if outcomes_differ(got, plain):
                ctx.witness('host-subclass-transparent', {'text': text, 'globals': g, 'wrap_seed': seed}, plain, got, explained_by_f7=False)
        else:
            log = []
            got = run_on({'maxStatements': 400, 'logFn': log.append, 'debug': False, 'statementCount': 10 ** 6}, log, model)
            st.case([text, 'no-globals-member'], nontrivial='error' not in got, tags=['options'])
            if outcomes_differ(got, plain):
                ctx.witness('host-options-minimal', {'text': text, 'globals': {}}, plain, got, explained_by_f7=False)
    # truth walks: plain globals (implementation vs reading vs Lean), then the same values as host subclass instances
    truth = [gen_truth_case(rng) for _ in range(ctx.scale(150, 1500))]
    reqs = []
    for prog, g in truth:
        wg = progen.wire_globals(g)
        reqs.append({'op': 'execT', 'prog': prog, 'globals': wg, 'max': 400, 'fuel': 5000})
    for (prog, g), resp in zip(truth, ctx.driver.batch(reqs)):
        text = '\n'.join(progen.render(prog))
        model = parse_generated(ctx, parser, text, g)
        if model is None:
            continue
        plain = progen.run_impl(model, g, max_statements=400)
        seed = rng.randrange(10 ** 6)
        got = progen.run_impl(model, wrap_globals(g, seed), max_statements=400)
        st.case([text, g, seed], nontrivial='error' not in plain, tags=['truth'] + (['keyword-name'] if any(k in g for k in KEYWORD_NAMES) else []))
        ctx.compare('execT-truth', [text, g], plain, progen.canon_model_out(resp))
        ref = run_ref(prog, g, budget=2000, steps=True)
        if ref is not None and (needless_budget_error(plain, ref, 400) or ('error' not in plain and _no_steps(ref) != progen.strip_hidden(plain))):
            ctx.witness('structured-reading', _w_input(text, g, prog), _no_steps(ref), progen.strip_hidden(plain),
                        explained_by_f7=False)
        elif outcomes_differ(got, plain):
            ctx.witness('host-subclass-transparent', {'text': text, 'globals': g, 'wrap_seed': seed}, plain, got, explained_by_f7=False)
    for _ in range(ctx.scale(200, 2000)):
        gen = CallGen(rng, host=HOST_SIGNATURES)
        prog = gen.program()
        g = progen.random_globals(rng)
        text = '\n'.join(progen.render(prog))
        model = parse_generated(ctx, parser, text, g)
        if model is None:
            continue
        seed = rng.randrange(10 ** 6) if rng.random() < 0.3 else None
        got = run_with_host(model, g, seed)
        st.case([text, g, seed], nontrivial='error' not in got and gen.stats.get('host-calls', 0) > 0, tags=['callables'] + sorted(gen.stats))
        if got.get('hostexc') == 'RecursionError':
            continue
        ref = run_ref(prog, g if seed is None else wrap_globals(g, seed), host=make_host(), budget=2000, steps=True)
        if ref is None:
            continue
        want = {k: v for k, v in ref.items() if k != 'steps'}
        if needless_budget_error(got, ref, 400) or ('error' not in got and want != progen.strip_hidden(got)):
            ctx.witness('structured-reading-host', dict(_w_input(text, g, prog), wrap_seed=seed), want,
                        progen.strip_hidden(got), explained_by_f7=False)


# ---------------------------------------------------------------------------------------------------------------------
# sessions: SEVERAL executions over the globals one host keeps, every execution with its OWN options object (own logFn, own
# budget, statementCount 0): notebook cells / pages re-run against shared globals, event handlers calling back a script
# function after the run that defined it.  What an execution logs is the output of THAT execution, whichever execution
# defined the functions it calls; a function body runs under the options (log, budget, globals) of the calling execution.
# ---------------------------------------------------------------------------------------------------------------------

def _outcome(options, log, thunk):
    """The canonical outcome (shape of progen.run_impl) of one implementation entry `thunk()` made on host-owned options."""
    mods = fw.impl()
    runtime, library, parser = mods['runtime'], mods['library'], mods['parser']
    out = {}
    try:
        out['result'] = progen.value_to_wire(thunk(), library.SCRIPT_FUNCTIONS)
    except runtime.BareScriptRuntimeError as exc:
        out['error'] = str(exc)
    except parser.BareScriptParserError as exc:
        out['error'] = 'ParserError ' + str(exc).split('\n', 1)[0]
    except RecursionError:
        out['hostexc'] = 'RecursionError'
    except Exception as exc:  # pylint: disable=broad-except
        out['hostexc'] = type(exc).__name__ + ': ' + str(exc)[:200]
    out['log'] = list(log)
    g = options.get('globals') or {}
    out['globals'] = sorted([[k, progen.value_to_wire(v, library.SCRIPT_FUNCTIONS)] for k, v in g.items()
                             if not (k in library.SCRIPT_FUNCTIONS and v is library.SCRIPT_FUNCTIONS[k])], key=lambda kv: kv[0])
    out['count'] = options.get('statementCount')
    return progen.canon_neg_zero(out)


CALLBACK_ARGS = [[], [1.0], [2.0, [1.0, 2.0]], [0.0, 's', None], [3.0, 1.0, 2.0, 3.0]]


def run_session(session, parser):
    """The implementation side of a session {'globals', 'family', 'steps': [{'kind': 'script', 'text', 'limit'} | {'kind': 'call',
    'name', 'args', 'limit'}]}: family 'shared' = one globals dict handed to every execution, family 'copy' = every later execution
    gets a NEW dict with the same bindings (a host that snapshots its globals).  -> outcome per step"""
    runtime = fw.impl()['runtime']
    g = copy.deepcopy(session['globals'])
    outs = []
    for ix, step in enumerate(session['steps']):
        log = []
        if session['family'] == 'copy' and ix:
            g = dict(g)
        options = {'globals': g, 'maxStatements': step['limit'], 'logFn': log.append, 'debug': False, 'statementCount': 0}
        if step['kind'] == 'script':
            # a cut of a well-formed program at top-level statements is a well-formed program: a parse error is an outcome to compare
            outs.append(_outcome(options, log, lambda: runtime.execute_script(parser.parse_script(step['text']), options)))     # pylint: disable=cell-var-from-loop
        else:
            fn = g.get(step['name'])
            args = copy.deepcopy(step['args'])
            outs.append(_outcome(options, log, lambda: fn(args, options) if callable(fn) else 'not callable'))   # pylint: disable=cell-var-from-loop
    return outs


def ref_session(session, progs, budget=4000):
    """The structured reading of the same session: ONE reader (Ref, own call dispatch) whose current options are those of the
    execution in progress.  -> outcome per step; None from the step on that the reading could not finish within `budget`"""
    mods = fw.impl()
    library = mods['library']
    g = copy.deepcopy(session['globals'])
    for name, fn in library.SCRIPT_FUNCTIONS.items():
        g.setdefault(name, fn)
    interp = Ref(None, budget)
    outs = []
    for ix, step in enumerate(session['steps']):
        log = []
        if session['family'] == 'copy' and ix:
            g = dict(g)
        interp.options = {'globals': g, 'maxStatements': 0, 'logFn': log.append, 'statementCount': 0}
        interp.budget = budget
        out = {}
        try:
            if step['kind'] == 'script':
                value = interp.run(progs[ix])
            else:
                fn = g.get(step['name'])
                value = fn(copy.deepcopy(step['args']), interp.options) if callable(fn) else 'not callable'
            out['result'] = progen.ref_wire(value, library.SCRIPT_FUNCTIONS)
        except (progen.RefBudget, RecursionError):
            return outs + [None] * (len(session['steps']) - ix)
        except mods['runtime'].BareScriptRuntimeError as exc:
            out['error'] = str(exc)
        out['log'] = list(log)
        out['globals'] = sorted([[k, progen.ref_wire(v, library.SCRIPT_FUNCTIONS)] for k, v in g.items()
                                 if not (k in library.SCRIPT_FUNCTIONS and v is library.SCRIPT_FUNCTIONS[k])], key=lambda kv: kv[0])
        outs.append(progen.canon_neg_zero(out))
    return outs


def session_verdict(outs, refs):
    """-> (index of the first step whose outcome is not the reading's, or None; number of steps compared)"""
    for ix, (got, ref) in enumerate(zip(outs, refs)):
        if ref is None or 'hostexc' in got or got.get('error', '').startswith('Exceeded maximum'):
            return None, ix         # from here on the two sides no longer share a state (the reading has no statement budget)
        if progen.strip_hidden(got) != ref:
            return ix, ix
    return None, len(outs)


def _cut(prog, rng):
    """Cut a program into 2-3 consecutive runs of whole top-level statements."""
    n = len(prog)
    cuts = sorted(rng.sample(range(1, n), min(n - 1, rng.choice([1, 1, 2]))))
    return [prog[a:b] for a, b in zip([0] + cuts, cuts + [n])]


def stream_sessions(ctx, parser, cases, call_cases):
    rng = ctx.rng('sessions')
    st = ctx.stream('sessions',
                    'generated programs (Gen2, CallGen) cut into 2-3 scripts that are parsed and executed one after the other over the '
                    'globals the host keeps, EVERY execution with its own options object (own logFn list, own maxStatements 400/1000, '
                    'statementCount 0; family shared = one globals dict, family copy = a new dict with the same bindings per execution), '
                    'followed by 0-2 call-backs: the host calls a script function left in the globals directly, with new options. Later '
                    'executions call functions defined by earlier ones. Oracle: the structured reading (Ref) of each script / call-back '
                    'started from the globals the previous execution left, with the log of THAT execution (a function body logs to, counts '
                    'against and reads the globals of the execution that calls it); failing executions (undefined function) are compared '
                    'too. Host-only: function values cannot cross the wire to the Lean driver, so no model comparison here - the single-run '
                    'outcome of the same programs is tied to the model by streams exec / calls. non-trivial = a later execution or '
                    'call-back runs (and completes) a function defined by an earlier execution')
    pool = [(prog, g) for prog, g, _ in list(cases[1:]) + list(call_cases) if len(prog) >= 2 and not progen.has_while_continue(prog)]
    found = 0
    for _ in range(ctx.scale(400, 4000)):
        if found >= 5:
            break
        prog, g = rng.choice(pool)
        parts = _cut(prog, rng)
        session = {'globals': g, 'family': rng.choice(['shared', 'shared', 'copy']),
                   'steps': [{'kind': 'script', 'text': '\n'.join(progen.render(part)), 'limit': rng.choice([400, 400, 1000])} for part in parts]}
        outs = run_session(session, parser)
        funcs = [k for k, v in outs[-1]['globals'] if v == {'f': 'script'}]
        for _ in range(rng.choice([0, 1, 2]) if funcs else 0):
            session['steps'].append({'kind': 'call', 'name': rng.choice(funcs), 'args': rng.choice(CALLBACK_ARGS), 'limit': 400})
        if len(session['steps']) > len(parts):
            outs = run_session(session, parser)
        refs = ref_session(session, parts)
        bad, compared = session_verdict(outs, refs)
        defined = set()
        crosses = False
        for ix, part in enumerate(parts[:compared]):
            if ix and 'error' not in outs[ix] and _called_names(part) & defined:
                crosses = True
            defined |= {s['name'] for s in part if s['k'] == 'func'}
        crosses = crosses or any('error' not in o for o in outs[len(parts):compared])
        st.case([session['family'], [[s.get('text', s.get('name')), s.get('args')] for s in session['steps']], g], nontrivial=crosses,
                tags=[session['family'], f'steps{len(session["steps"])}', f'compared{compared}'] + (['callback'] if len(session['steps']) > len(parts) else []))
        if bad is not None:
            found += 1
            ctx.witness('session-reading', {'session': dict(session, steps=session['steps'][:bad + 1])}, refs[bad], progen.strip_hidden(outs[bad]),
                        step=bad, explained_by_f7=False)


# ---------------------------------------------------------------------------------------------------------------------
# scale: the SIZE of a run as an axis of its own - how deep script calls nest at run time, how often a loop iterates, how long an
# if chain is, how many constructs follow each other (label numbers), how deep blocks nest, how many functions a script defines.
# The grammar-directed programs stay tiny in every one of these (recursion depth <= 4, arrays of <= 5 elements, <= 2 elif).
# ---------------------------------------------------------------------------------------------------------------------

SIZES = [0, 1, 2, 9, 10, 11, 16, 17, 64, 65, 100, 101, 128, 129, 256, 1000]
CALL_DEPTH_MAX = 500    # CPython gives out at about 700 nested script calls whatever stack the host provides (C recursion limit)
NEST_MAX = 256
NEG1 = progen.group(progen.binop('-', progen.num(0), progen.num(1)))


def _func(name, params, body):
    return {'k': 'func', 'fid': 0, 'name': name, 'args': list(params), 'lastArgArray': False, 'async': False, 'b': body}


def _ret(e=None):
    return {'k': 'ret', 'e': e}


def _while(c, body):
    return {'k': 'while', 'c': c, 'b': body}


def _for(value, index, vals, body):
    return {'k': 'for', 'value': value, 'index': index, 'vals': vals, 'b': body}


def _fill(name, n):
    """name = [0, 1, ..., n-1], built by a while loop"""
    return [_set(name, C('arrayNew')), _set('fi', N(0)),
            _while(B('<', V('fi'), N(n)), [_do(C('arrayPush', V(name), V('fi'))), _set('fi', B('+', V('fi'), N(1)))])]


def sc_rec_direct(n, rng):
    return [_func('depth', ['m'], [_if(B('==', V('m'), N(0)), [_ret(N(0))]), _ret(B('+', N(1), C('depth', B('-', V('m'), N(1)))))]),
            _set('d', C('depth', N(n))), _log(S('depth='), V('d')), _ret(V('d'))], {'n': [n, 1]}


def sc_rec_array(n, rng):
    return ([_func('sumFrom', ['values', 'ix'], [
        _if(B('>=', V('ix'), C('arrayLength', V('values'))), [_ret(N(0))]),
        _ret(B('+', C('arrayGet', V('values'), V('ix')), C('sumFrom', V('values'), B('+', V('ix'), N(1)))))])]
            + _fill('xs', n) + [_set('total', C('sumFrom', V('xs'), N(0))), _log(S('sum='), V('total')), _ret(V('total'))]), {'n': [n * (n - 1) // 2, 1]}


def sc_rec_while(n, rng):
    k = rng.choice([7, 40])
    return [_func('countDown', ['m', 'trace'], [
        _while(B('>', V('m'), N(0)), [_if(B('==', B('%', V('m'), N(k)), N(0)), [_do(C('arrayPush', V('trace'), V('m')))]),
                                      _ret(C('countDown', B('-', V('m'), N(1)), V('trace')))]),
        _ret(V('trace'))]),
            _set('trace', C('countDown', N(n), C('arrayNew'))), _log(S('trace='), C('arrayLength', V('trace'))), _ret(V('trace'))], None


def sc_rec_mutual(n, rng):
    return [_func('isEven', ['m'], [_if(B('==', V('m'), N(0)), [_ret(V('true'))]), _ret(C('isOdd', B('-', V('m'), N(1))))]),
            _func('isOdd', ['m'], [_if(B('==', V('m'), N(0)), [_ret(V('false'))]), _ret(C('isEven', B('-', V('m'), N(1))))]),
            _set('even', C('isEven', N(n))), _log(S('even='), V('even')), _ret(V('even'))], n % 2 == 0


def sc_rec_for(n, rng):
    """Re-entered from inside its own for loop: every activation's loop goes on (second element) when the inner one returns."""
    return [_func('walk', ['m', 'acc'], [
        _for('v', 'ix', C('arrayNew', V('m'), NEG1), [
            _if(B('>', V('v'), N(0)), [_do(C('walk', B('-', V('v'), N(1)), V('acc')))],
                [_do(C('arrayPush', V('acc'), B('+', B('*', V('m'), N(2)), V('ix'))))])]),
        _ret(C('arrayLength', V('acc')))]),
            _set('acc', C('arrayNew')), _set('count', C('walk', N(n), V('acc'))), _log(S('count='), V('count')),
            _log(S('last='), C('arrayGet', V('acc'), B('-', V('count'), N(1)))), _ret(V('count'))], {'n': [n + 2, 1]}


def sc_rec_args(n, rng):
    """The recursive call sits in an argument of another call of the same function."""
    return [_func('wrap', ['m', 'v'], [_if(B('==', V('m'), N(0)), [_ret(V('v'))]),
                                       _ret(C('wrap', N(0), C('wrap', B('-', V('m'), N(1)), B('+', V('v'), N(1)))))]),
            _set('w', C('wrap', N(n), N(0))), _log(S('wrap='), V('w')), _ret(V('w'))], {'n': [n, 1]}


def sc_func_chain(n, rng):
    """n functions, each calling the one defined before it: the number of definitions and the call depth grow together."""
    prog = [_func('fn0', ['x'], [_ret(V('x'))])]
    for i in range(1, n + 1):
        prog.append(_func(f'fn{i}', ['x'], [_set('y', C(f'fn{i - 1}', B('+', V('x'), N(1)))), _ret(V('y'))]))
    return prog + [_set('r', C(f'fn{n}', N(0))), _log(S('chain='), V('r')), _ret(V('r'))], {'n': [n, 1]}


def sc_for(n, rng):
    k = rng.choice([3, 4, 7])
    return (_fill('xs', n) + [
        _set('total', N(0)), _set('kept', N(0)),
        _for('v', 'ix', V('xs'), [
            _if(B('==', B('%', V('v'), N(k)), N(1)), [{'k': 'continue'}]),
            _if(B('==', V('ix'), N(n - 1)), [_log(S('last '), V('v')), {'k': 'break'}]),
            _set('total', B('+', V('total'), V('v'))), _set('kept', B('+', V('kept'), N(1)))]),
        _log(S('total='), V('total'), S(' kept='), V('kept'), S(' ix='), V('ix')), _ret(V('total'))]), None


def sc_while(n, rng):
    return [_set('i', N(0)), _set('odd', N(0)), _set('even', N(0)),
            _while(B('<', V('i'), N(n)), [
                _set('i', B('+', V('i'), N(1))),
                _if(B('==', B('%', V('i'), N(2)), N(1)), [_set('odd', B('+', V('odd'), N(1)))], [_set('even', B('+', V('even'), N(1)))]),
                _if(B('==', B('%', V('i'), N(50)), N(0)), [_log(S('at '), V('i'))])]),
            _log(S('odd='), V('odd'), S(' even='), V('even')), _ret(V('i'))], {'n': [n, 1]}


def sc_while_break(n, rng):
    return [_set('i', N(0)),
            _while(V('true'), [_if(B('>=', V('i'), N(n)), [{'k': 'break'}]), _set('i', B('+', V('i'), N(1)))]),
            _log(S('i='), V('i')), _ret(V('i'))], {'n': [n, 1]}


def sc_nested_loops(n, rng):
    return (_fill('xs', n) + [
        _set('c', N(0)),
        _for('p', None, V('xs'), [
            _for('q', 'iq', C('arrayNew', N(1), N(2), N(3), N(4)), [
                _if(B('==', V('q'), N(2)), [{'k': 'continue'}]),
                _if(B('&&', B('==', V('q'), N(4)), B('==', B('%', V('p'), N(2)), N(0))), [{'k': 'break'}]),
                _set('c', B('+', V('c'), N(1)))]),
            _set('w', N(0)),
            _while(B('<', V('w'), N(2)), [_set('w', B('+', V('w'), N(1))), _set('c', B('+', V('c'), N(1)))])]),
        _log(S('c='), V('c')), _ret(V('c'))]), None


def sc_elif_chain(n, rng):
    """An if chain with n elif branches, every test with an effect: exactly the tests up to the first truthy one are evaluated."""
    node = {'k': 'if', 'c': C('test', V('k'), N(0)), 't': [_set('r', S('b0'))], 'else': None}
    chain = node
    for i in range(1, n + 1):
        chain['else'] = {'k': 'elif', 'c': C('test', V('k'), N(i)), 't': [_set('r', S(f'b{i}'))], 'else': None}
        chain = chain['else']
    if rng.random() < 0.5:
        chain['else'] = {'k': 'else', 'b': [_set('r', S('none'))]}
    picks = sorted({0, 1, n // 2, max(0, n - 1), n, n + 1})
    return [_set('tests', C('arrayNew')),
            _func('test', ['p', 'i'], [_do(C('arrayPush', V('tests'), V('i'))), _ret(B('==', V('p'), V('i')))]),
            _func('pick', ['k'], [_set('r', S('unset')), node, _ret(V('r'))]),
            _for('k', None, C('arrayNew', *[N(p) for p in picks]), [
                _set('got', C('pick', V('k'))), _log(V('k'), S(' -> '), V('got'), S(' after '), C('arrayLength', V('tests')))]),
            _ret(C('arrayLength', V('tests')))], None


def sc_sequence(n, rng):
    """n constructs one after the other: the label numbers run to n (Loop1 / Loop10 / Loop100 share prefixes)."""
    prog = [_set('c', N(0)), _set('s', N(0)), _set('w', N(0))]
    for i in range(n):
        kind = i % 4
        if kind == 0:
            prog.append(_if(B('<', V('c'), N(i + 1)), [_set('c', B('+', V('c'), N(1)))], [_set('c', S('wrong'))]))
        elif kind == 1:
            prog.append(_for('v', None, C('arrayNew', N(i), N(1)), [_if(B('==', V('v'), N(1)), [{'k': 'continue'}]), _set('s', B('+', V('s'), V('v')))]))
        elif kind == 2:
            prog.append(_while(B('<', V('w'), N(i)), [_set('w', B('+', V('w'), N(2))), _if(B('>', V('w'), N(i + 5)), [{'k': 'break'}])]))
        else:
            prog.append(_func('last', [], [_for('u', None, C('arrayNew', N(i)), [_ret(V('u'))])]))
    return prog + [_log(S('c='), V('c'), S(' s='), V('s'), S(' w='), V('w')), _ret(C('last') if n >= 4 else V('c'))], None


def sc_nest(n, rng):
    """Blocks nested n deep (if / for / while / else in turn); every level does something after its inner block has finished."""
    inner = [_log(S('bottom '), V('c')), _set('c', B('+', V('c'), N(1)))]
    for k in range(n, 0, -1):
        after = _set('c', B('+', V('c'), N(k)))
        kind = k % 4
        if kind == 0:
            inner = [_if(B('>=', V('c'), N(0)), inner + [after])]
        elif kind == 1:
            inner = [_for('v', None, C('arrayNew', N(k)), inner + [after, _if(B('<', V('v'), N(0)), [{'k': 'continue'}])])]
        elif kind == 2:
            inner = [_while(B('<', V('c'), N(10 ** 9)), inner + [after, {'k': 'break'}])]
        else:
            inner = [_if(B('<', V('c'), N(0)), [_set('c', S('wrong'))], inner + [after])]
    return [_set('c', N(0))] + inner + [_log(S('c='), V('c')), _ret(V('c'))], {'n': [1 + n * (n + 1) // 2, 1]}


# (name, builder, largest affordable size)
SCALE_FAMILIES = [
    ('rec-direct', sc_rec_direct, CALL_DEPTH_MAX), ('rec-array', sc_rec_array, CALL_DEPTH_MAX), ('rec-while', sc_rec_while, CALL_DEPTH_MAX),
    ('rec-mutual', sc_rec_mutual, CALL_DEPTH_MAX), ('rec-for', sc_rec_for, CALL_DEPTH_MAX), ('rec-args', sc_rec_args, CALL_DEPTH_MAX),
    ('func-chain', sc_func_chain, CALL_DEPTH_MAX),
    ('for', sc_for, 1000), ('while', sc_while, 1000), ('while-break', sc_while_break, 1000), ('nested-loops', sc_nested_loops, 1000),
    ('elif-chain', sc_elif_chain, 1000), ('sequence', sc_sequence, 1000), ('nest', sc_nest, NEST_MAX),
]


def big_stack(fn):
    """Run fn() on a thread with a 512 MB stack and a recursion limit of 10**6: stack headroom is a configuration of the HOST (the
    Python recursion limit is outside the model, DESIGN 6) - with enough of it the implementation and the reading must run every
    size below; without it deep script recursion silently turns into null at about 200 nested calls (documented restriction)."""
    box = {}

    def target():
        old = sys.getrecursionlimit()
        sys.setrecursionlimit(10 ** 6)
        try:
            box['value'] = fn()
        except BaseException as exc:  # pylint: disable=broad-except
            box['exc'] = exc
        finally:
            sys.setrecursionlimit(old)

    old_size = threading.stack_size(512 * 1024 * 1024)
    try:
        thread = threading.Thread(target=target)
        thread.start()
        thread.join()
    finally:
        threading.stack_size(old_size)
    if 'exc' in box:
        raise box['exc']
    return box['value']


def scale_limit(n):
    return 200 * n + 2000


def scale_sizes(ctx, rng, largest):
    """The fixed geometric ladder (both sides of every power / round number) up to the family's largest affordable size, plus one
    random size from every gap of the ladder; quick tier: only one of the sizes above 129."""
    sizes = [n for n in SIZES if n <= largest] + ([largest] if largest not in SIZES else [])
    sizes += [rng.randint(18, 63), rng.randint(130, 255)] + ([rng.randint(257, largest - 1)] if largest > 258 else [])
    sizes = sorted(set(n for n in sizes if n <= largest))
    if ctx.quick:
        big = [n for n in sizes if n > 129]
        keep = set(rng.sample(big, min(2, len(big))))
        sizes = [n for n in sizes if n <= 129 or n in keep]
    return sizes


def stream_scale(ctx, parser):
    rng = ctx.rng('scale')
    st = ctx.stream('scale',
                    'size ladders 0,1,2,9,10,11,16,17,64,65,100,101,128,129,256,(500|1000) + one random size per gap, for: run-time depth '
                    'of nested script calls (direct, over an array, out of a while loop, mutual, out of a for loop that goes on afterwards, '
                    'in an argument of its own call, through a chain of n distinct functions; up to 500 - CPython itself gives out near 700), '
                    'iterations of for / while / while-true-break / nested loops with break and continue, an if chain of n elif branches '
                    'with effectful tests, n constructs in sequence (label numbers to n), blocks nested n deep (to 256). Run on a thread '
                    'with a 512 MB stack (stack headroom is a host configuration; the recursion limit is outside the model), '
                    'maxStatements 200n+2000. Oracle: the structured reading Ref on the same thread, and the closed-form result where the '
                    'family has one; sizes <= 129: also the Lean jump machine and ticked semantics. non-trivial = n >= 2 and the run completes')
    cases = []
    for name, _, largest in SCALE_FAMILIES:
        for n in scale_sizes(ctx, rng, largest):
            cases.append((name, n) + scale_case(name, n, ctx.seed))

    def run_all():
        rows = []
        for name, n, prog, expect, text in cases:
            try:
                model = parser.parse_script(text)
                impl = progen.run_impl(model, {}, max_statements=scale_limit(n))
            except Exception as exc:  # pylint: disable=broad-except
                model, impl = None, {'error': f'ParserError {type(exc).__name__}: {exc}'[:300], 'log': [], 'globals': []}
            ref = run_ref(prog, {}, budget=400 * n + 4000)
            rows.append((model, impl, ref))
        return rows

    rows = big_stack(run_all)
    reqs, req_at = [], []
    failed = set()
    for (name, n, prog, expect, text), (model, impl, ref) in zip(cases, rows):
        got = progen.strip_hidden(impl)
        st.case([name, n], nontrivial=n >= 2 and 'error' not in impl and 'hostexc' not in impl, tags=[name, f'n{n}' if n in SIZES else 'n-random'])
        # the witness names the program (family, size, seed: replay() rebuilds it); the text is shown when it is short
        inp = {'family': name, 'n': n, 'seed': ctx.seed, 'max': scale_limit(n), 'text': text if len(text) <= 3000 else text[:1500] + ' ...'}
        if name in failed:
            pass        # one witness per family: its smallest failing size
        elif ref is not None and ref != got:
            failed.add(name)
            ctx.witness('structured-reading-scale', inp, *_brief(ref, got), expected_digest=_digest(ref), explained_by_f7=False)
        elif expect is not None and got.get('result') != expect:
            failed.add(name)
            ctx.witness('structured-reading-scale', inp, *_brief({'result': expect}, got), closed_form=True, explained_by_f7=False)
        if n <= 129 and model is not None:
            req_at.append(([name, n], impl))
            reqs.append({'op': 'exec', 'script': progen.canon_script(model), 'globals': [], 'max': scale_limit(n), 'fuel': 40 * scale_limit(n)})
            req_at.append(([name, n], impl))
            reqs.append({'op': 'execT', 'prog': prog, 'globals': [], 'max': scale_limit(n), 'fuel': 40 * scale_limit(n)})
    for (case, impl), resp in zip(req_at, ctx.driver.batch(reqs)):
        ctx.compare('scale', case, *_brief(impl, progen.canon_model_out(resp)))


def scale_case(name, n, seed):
    """-> (structured program, closed-form result or None, source text) of family `name` at size n; deterministic in (name, n, seed)"""
    build = next(b for f, b, _ in SCALE_FAMILIES if f == name)
    prog, expect = build(n, fw.rng_for(seed, 'C01', 'scale', name, n))
    prog = progen.assign_fids(prog)
    lines = progen.render(prog)
    return prog, expect, '\n'.join(lines if n <= 129 else [ln.strip() for ln in lines])


def _brief(want, got):
    """Two outcomes cut down to the members in which they differ, long values shortened (the programs of the scale stream leave
    arrays of a thousand elements behind)."""
    def cut(v):
        text = json.dumps(v, sort_keys=True, default=str)
        return v if len(text) <= 1200 else text[:1200] + ' ...'
    keys = [k for k in sorted(set(want) | set(got)) if want.get(k) != got.get(k)]
    return {k: cut(want[k]) for k in keys if k in want}, {k: cut(got[k]) for k in keys if k in got}


# ---------------------------------------------------------------------------------------------------------------------
# keyword-names: identifiers that BEGIN WITH / CONTAIN / END WITH / EQUAL BUT FOR CASE / EQUAL a statement keyword, as function names,
# variables, parameters, for variables and labels, in every statement position.  The statement classifier of parse_script is a cascade
# of regular expressions over the text of a line; the generated identifier pools (f0, g, x, ...) never look like a keyword, so 'an
# expression statement stays an expression statement' and 'control leaves only at a return statement' were never exercised.
# endings: the RETURN VALUE for every way a script or a function body can end.
# ---------------------------------------------------------------------------------------------------------------------

STATEMENT_KEYWORDS = ['return', 'if', 'elif', 'else', 'endif', 'while', 'endwhile', 'for', 'endfor', 'in', 'break', 'continue',
                      'function', 'endfunction', 'async', 'jump', 'jumpif', 'include', 'true', 'false', 'null']
NAME_FORMS = ['begins-Name', 'begins-x', 'begins-digit', 'begins-underscore', 'contains', 'ends', 'Capitalized', 'UPPER', 'miXed', 'exact']
NAME_TAILS = ['ToPool', 'Slot', 'Book', 'arrayNew', 'systemLog']
_IDENT_CHARS = set('abcdefghijklmnopqrstuvwxyzABCDEFGHIJKLMNOPQRSTUVWXYZ0123456789_')


def keyword_name(kw, form, tail='ToPool'):
    return {'begins-Name': kw + tail, 'begins-x': kw + 'x', 'begins-digit': kw + '2', 'begins-underscore': kw + '_',
            'contains': 'my' + kw + 'Of', 'ends': 'x' + kw, 'Capitalized': kw.capitalize(), 'UPPER': kw.upper(),
            'miXed': kw[:-1] + kw[-1].upper(), 'exact': kw}[form]


def _renamable(name):
    return (bool(name) and set(name) <= _IDENT_CHARS and not name[0].isdigit() and name not in ('true', 'false', 'null', 'if')
            and not name.startswith('__bareScript') and name not in fw.impl()['library'].SCRIPT_FUNCTIONS)


def _expr_roles(e, roles):
    (k, v), = e.items()
    if k == 'variable':
        roles.setdefault(v, set()).add('var')
    elif k == 'group':
        _expr_roles(v, roles)
    elif k == 'unary':
        _expr_roles(v['expr'], roles)
    elif k == 'binary':
        _expr_roles(v['left'], roles)
        _expr_roles(v['right'], roles)
    elif k == 'function':
        roles.setdefault(v['name'], set()).add('func')
        for a in v['args']:
            _expr_roles(a, roles)


def ident_roles(block, roles=None):
    """identifier -> the roles it plays in the program: func (defined or called), var (read, assigned, parameter, for variable),
    label, bare (a whole expression statement)"""
    roles = {} if roles is None else roles
    for s in block:
        k = s['k']
        if k == 'expr':
            if s.get('name'):
                roles.setdefault(s['name'], set()).add('var')
            elif 'variable' in s['e']:
                roles.setdefault(s['e']['variable'], set()).add('bare')
            _expr_roles(s['e'], roles)
        elif k == 'ret':
            if s.get('e'):
                _expr_roles(s['e'], roles)
        elif k == 'if':
            node = s
            while node is not None:
                if node['k'] == 'else':
                    ident_roles(node['b'], roles)
                    break
                _expr_roles(node['c'], roles)
                ident_roles(node['t'], roles)
                node = node.get('else')
        elif k == 'while':
            _expr_roles(s['c'], roles)
            ident_roles(s['b'], roles)
        elif k == 'for':
            roles.setdefault(s['value'], set()).add('var')
            if s.get('index'):
                roles.setdefault(s['index'], set()).add('var')
            _expr_roles(s['vals'], roles)
            ident_roles(s['b'], roles)
        elif k == 'func':
            roles.setdefault(s['name'], set()).add('func')
            for a in s['args']:
                roles.setdefault(a, set()).add('var')
            ident_roles(s['b'], roles)
        elif k in ('label', 'jump'):
            roles.setdefault(s['name'], set()).add('label')
            if s.get('c'):
                _expr_roles(s['c'], roles)
    return roles


def _rename_expr(e, m):
    (k, v), = e.items()
    if k == 'variable':
        return {k: m.get(v, v)}
    if k == 'group':
        return {k: _rename_expr(v, m)}
    if k == 'unary':
        return {k: {'expr': _rename_expr(v['expr'], m), 'op': v['op']}}
    if k == 'binary':
        return {k: {'left': _rename_expr(v['left'], m), 'op': v['op'], 'right': _rename_expr(v['right'], m)}}
    if k == 'function':
        return {k: {'args': [_rename_expr(a, m) for a in v['args']], 'name': m.get(v['name'], v['name'])}}
    return copy.deepcopy(e)


def rename_prog(block, m):
    """The same program with its identifiers renamed by the (injective) map m - every occurrence, whatever its role."""
    out = []
    for s in block:
        s = dict(s)
        k = s['k']
        if k == 'expr':
            s['name'] = m.get(s['name'], s['name']) if s.get('name') else s.get('name')
            s['e'] = _rename_expr(s['e'], m)
        elif k == 'ret':
            s['e'] = _rename_expr(s['e'], m) if s.get('e') else s.get('e')
        elif k in ('if', 'elif'):
            s['c'] = _rename_expr(s['c'], m)
            s['t'] = rename_prog(s['t'], m)
            if s.get('else') is not None:
                s['else'] = rename_prog([s['else']], m)[0]
        elif k == 'else':
            s['b'] = rename_prog(s['b'], m)
        elif k == 'while':
            s['c'] = _rename_expr(s['c'], m)
            s['b'] = rename_prog(s['b'], m)
        elif k == 'for':
            s['value'] = m.get(s['value'], s['value'])
            s['index'] = m.get(s['index'], s['index']) if s.get('index') else s.get('index')
            s['vals'] = _rename_expr(s['vals'], m)
            s['b'] = rename_prog(s['b'], m)
        elif k == 'func':
            s['name'] = m.get(s['name'], s['name'])
            s['args'] = [m.get(a, a) for a in s['args']]
            s['b'] = rename_prog(s['b'], m)
        elif k in ('label', 'jump'):
            s['name'] = m.get(s['name'], s['name'])
            if s.get('c'):
                s['c'] = _rename_expr(s['c'], m)
        out.append(s)
    return out


def name_allowed(kw, form, roles):
    """`true` / `false` / `null` themselves keep their keyword meaning in expressions (stream programs binds them now and then; as for
    variables they are known finding F39); a name EQUAL to a statement keyword is an unambiguous identifier only where the line cannot
    be that statement: as a variable / parameter / for variable (`if = 1`, `for in, for in return:`, `x = return + 1`), not as the
    function of a call statement, a label or a bare expression statement."""
    if form != 'exact':
        return True
    return kw not in ('true', 'false', 'null') and roles <= {'var'}


def choose_names(prog, rng, p=0.8, fixed=None):
    """-> injective map identifier -> keyword-like name for about p of the program's own identifiers (`fixed`: given in advance)"""
    roles = ident_roles(prog)
    m = dict(fixed or {})
    taken = set(roles) | set(m.values())
    funcs = sorted(n for n, r in roles.items() if 'func' in r)
    for name in sorted(roles):
        if name in m or not _renamable(name) or rng.random() >= p:
            continue
        for _ in range(8):
            kw, form = rng.choice(STATEMENT_KEYWORDS), rng.choice(NAME_FORMS)
            new = keyword_name(kw, form, rng.choice(NAME_TAILS + funcs))
            if name_allowed(kw, form, roles[name]) and new not in taken and _renamable(new):
                m[name] = new
                taken.add(new)
                break
    return m


def _note_def():
    return _func('zNote', ['zTag', 'zVal'], [_log(S('note '), V('zTag')), _ret(V('zVal'))])


def _note_call(rng, counter, bare_ok=True):
    counter[0] += 1
    if bare_ok and rng.random() < 0.2:
        return _do(V('zNote'))          # a bare-variable statement: the function value is computed and dropped
    return _do(C('zNote', S(f'k{counter[0]}'), rng.choice([N(rng.randint(1, 9)), S('s'), C('arrayNew', N(counter[0])), V('true')])))


def inject_calls(block, rng, counter, p=0.3):
    """Expression statements that are calls of a script function with a NON-NULL value (made for the effect: it logs), at random
    places of every block - first, in the middle, last - of the main program, of loop bodies, branches and function bodies."""
    out = []
    for s in block:
        s = dict(s)
        k = s['k']
        if k == 'if':
            node = s
            node['t'] = inject_calls(node['t'], rng, counter, p)
            while node.get('else') is not None:
                e = dict(node['else'])
                node['else'] = e
                if e['k'] == 'else':
                    e['b'] = inject_calls(e['b'], rng, counter, p)
                    break
                e['t'] = inject_calls(e['t'], rng, counter, p)
                node = e
        elif k in ('while', 'for', 'func'):
            s['b'] = inject_calls(s['b'], rng, counter, p)
        out.append(s)
    if rng.random() < p:
        out.insert(rng.randint(0, len(out)), _note_call(rng, counter))
    return out


def names_template():
    """Every statement position once: call statements of two functions (one returns a value) at top level, in a for body, a while
    body, each branch of an if chain and inside a function body (before an early return, and as the last statement); assignment
    targets, conditions, for value and index variables, parameters.  The function names zF / zG are ALSO the names of labels (labels
    are a name space of their own) and stand as bare-variable expression statements (the function value is computed and dropped):
    one keyword-like name meets every place where an identifier starts a line."""
    return [
        _func('zG', ['zP'], [_ret(B('+', V('zP'), N(1)))]),
        _func('zF', ['zP', 'zQ'], [
            _do(C('arrayPush', V('zP'), V('zQ'))),
            {'k': 'label', 'name': 'zF'},
            _do(C('zG', N(1))),
            _do(V('zG')),
            _log(S('F '), V('zQ')),
            _if(B('==', V('zQ'), S('early')), [_do(C('zG', N(2))), _ret(S('early'))]),
            _do(C('zG', N(3)))]),
        _set('zV', C('arrayNew')), _set('zW', N(0)),
        _do(C('zF', V('zV'), S('top'))), _log(S('after top')),
        _set('zX', C('zF', V('zV'), S('early'))), _log(S('early gives '), V('zX')),
        _set('zX', C('zF', V('zV'), S('late'))), _log(S('late gives '), C('systemType', V('zX'))),
        _for('zX', 'zI', C('arrayNew', N(5), N(1), N(0)), [
            _do(C('zF', V('zV'), V('zX'))),
            _set('zW', B('+', V('zW'), V('zI'))),
            {'k': 'if', 'c': B('==', V('zX'), N(5)), 't': [_do(C('zF', V('zV'), S('if'))), _log(S('t'))],
             'else': {'k': 'elif', 'c': V('zX'), 't': [_do(C('zG', V('zX'))), _do(C('zF', V('zV'), S('elif')))],
                      'else': {'k': 'else', 'b': [_do(C('zF', V('zV'), S('else'))), _do(V('zF')), _log(S('e'))]}}}]),
        _while(B('<', V('zW'), N(5)), [_do(C('zG', V('zW'))), _do(V('zF')), _set('zW', B('+', V('zW'), N(1)))]),
        {'k': 'label', 'name': 'zG'},
        _do(V('zF')),
        _log(S('end '), V('zW')),
        _ret(C('arrayLength', V('zV')))]


TEMPLATE_FUNCS = ['zF', 'zG']
TEMPLATE_VARS = ['zV', 'zW', 'zX', 'zI', 'zP', 'zQ']


def template_maps(rng):
    """One map per keyword x form: a name that is not the keyword itself is zF (function of call statements, label, bare statement);
    the keyword itself is one of the variables (rotating: array, counter in a condition, for value, for index, parameters); the other
    placeholders get names made of other keywords.  -> [(keyword, form, role, map)]"""
    pool = [(kw, form) for kw in STATEMENT_KEYWORDS for form in NAME_FORMS]
    maps = []
    for ix, (kw, form) in enumerate(pool):
        if not name_allowed(kw, form, {'var'}):
            continue
        first = TEMPLATE_VARS[ix % len(TEMPLATE_VARS)] if form == 'exact' else 'zF'
        m = {first: keyword_name(kw, form, rng.choice(NAME_TAILS + ['zG']))}
        if not _renamable(m[first]):
            continue
        for ph in TEMPLATE_FUNCS + TEMPLATE_VARS:
            for _ in range(12 if ph not in m else 0):
                kw2, form2 = rng.choice(pool)
                new = keyword_name(kw2, form2, rng.choice(NAME_TAILS))
                if name_allowed(kw2, form2, {'func'} if ph in TEMPLATE_FUNCS else {'var'}) and new not in m.values() and _renamable(new):
                    m[ph] = new
                    break
        maps.append((kw, form, 'var' if form == 'exact' else 'func-label-bare', m))
    return maps


def gen_name_cases(ctx, cases, call_cases):
    rng = ctx.rng('keyword-names')
    # (1) the template: every keyword x form, in rotating positions
    for kw, form, role, m in template_maps(rng):
        prog = progen.assign_fids(rename_prog(names_template(), m))
        yield prog, {}, {'template': 1, 'kw-' + kw: 1, 'form-' + form: 1, 'as-' + role: 1, 'renamed': len(m), 'label': 1}
    # (2) generated programs (Gen2, CallGen) with their own identifiers renamed and call statements of a value-returning script
    # function injected into every kind of block; now and then the final `return` is dropped and such a call is the last statement
    pool = [(prog, g, stats) for prog, g, stats in list(cases[3:]) + list(call_cases[2:])]
    for _ in range(ctx.scale(110, 1500)):
        prog, g, stats = rng.choice(pool)
        counter = [0]
        body = inject_calls(copy.deepcopy(prog), rng, counter)
        tags = {'generated': 1}
        if body and body[-1]['k'] == 'ret' and rng.random() < 0.4:
            body.pop()
            tags['final-return-dropped'] = 1
        if rng.random() < 0.4 or not counter[0]:
            body.append(_note_call(rng, counter, bare_ok=False))
            tags['call-statement-last'] = 1
        if rng.random() < 0.15:
            body.insert(rng.randint(0, len(body)), {'k': 'label', 'name': 'zMark'})
            tags['label'] = 1
        body = [_note_def()] + body
        m = choose_names(body, rng, p=rng.choice([0.3, 0.8, 1.0]))
        tags['renamed'] = len(m)
        for new in m.values():
            for kw in STATEMENT_KEYWORDS:
                if kw in new.lower():
                    tags['kw-' + kw] = 1
        for k in ('if', 'while', 'for', 'calls', 'funcdef'):
            if k in stats:
                tags[k] = stats[k]
        yield progen.assign_fids(rename_prog(body, m)), {m.get(k, k): v for k, v in g.items()}, tags


def stream_keyword_names(ctx, parser, cases, call_cases):
    name_cases, name_models = parsed_cases(ctx, parser, list(gen_name_cases(ctx, cases, call_cases)))
    # parse level: the statement list is the lowering of the STRUCTURED program the text was printed from (reference lowering
    # py_lower, written from the language definition) - a call statement stays an 'expr' statement whatever its function is called
    for (prog, _, _), model in zip(name_cases, name_models):
        want, got = expected_model(prog), progen.canon_script(model, with_fid=False)
        if got != want:
            _lowering_witness(ctx, '\n'.join(progen.render(prog)), want, got)
    exec_stream(ctx, 'keyword-names', name_cases, name_models,
                'identifiers that begin with (returnToPool, ifx, else2, endfor_), contain, end with, equal but for case (Return, BREAK, '
                'elsE) or - variables, parameters and for variables only - equal each of the 21 statement keywords ' + ' '.join(STATEMENT_KEYWORDS) +
                ', as function names (defined, called in expressions, called as EXPRESSION STATEMENTS), assignment targets, variables in '
                'conditions, for value / index variables, parameters, labels and bare-variable statements: (1) a template with every '
                'statement position (call statement at top level, in for / while bodies, in each branch of an if chain, inside a function '
                'before an early return and as its last statement), one program per keyword x form with the name in a rotating role; (2) '
                'programs of streams programs / calls renamed through a random injective map, with call statements of a value-returning '
                'script function injected first / in the middle / last into every kind of block, the final return dropped now and then. '
                'maxStatements=400: implementation vs Lean jump machine / ticked / plain semantics; oracles: parse_script(text) = reference '
                'lowering py_lower of the structured program; the structured reading Ref (own call dispatch; a label is a no-op) incl. runs '
                'that end with an error; non-trivial = completes and at least one identifier is keyword-like',
                lambda stats: stats.get('renamed', 0) >= 1, reading=run_ref)


def _nonnull(rng):
    """A call whose value is not null (and is dropped when the call is a statement)."""
    return rng.choice([C('arrayPush', V('xs'), N(7)), C('objectSet', V('ob'), S('k'), N(1)), C('arrayNew', N(1), N(2)), C('give', N(5)),
                       C('giveEarly', V('xs')), C('give', C('give', N(1))), C('systemBoolean', N(1)), C('arrayLength', V('xs')),
                       C('if', V('true'), S('yes'), S('no')), C('tr', S('v'), S('traced')), C('systemType', V('ob'))])


def _truthy(rng):
    return rng.choice([V('true'), B('>=', C('arrayLength', V('xs')), N(0)), V('xs'), S('s')])


def _falsy(rng):
    return rng.choice([V('false'), V('null'), B('<', C('arrayLength', V('xs')), N(0)), S(''), N(0)])


ENDINGS = {
    # falls off the end after ...
    'assign': lambda r: [_set('r', _nonnull(r))],
    'assign-literal': lambda r: [_set('r', N(3))],
    'call-statement': lambda r: [_do(_nonnull(r))],
    'call-statement-script': lambda r: [_do(C('give', S('given')))],
    'call-statement-early-return': lambda r: [_do(C('giveEarly', V('xs')))],
    'call-statement-null': lambda r: [_log(S('last'))],
    'two-call-statements': lambda r: [_do(_nonnull(r)), _do(_nonnull(r))],
    'bare-variable': lambda r: [_do(V('xs'))],
    'bare-literal': lambda r: [_do(r.choice([N(1), S('text')]))],
    'bare-operator': lambda r: [_do(B('+', C('arrayLength', V('xs')), N(1)))],
    'label': lambda r: [_do(_nonnull(r)), {'k': 'label', 'name': 'fin'}],
    'endif-taken': lambda r: [_if(_truthy(r), [_do(_nonnull(r))])],
    'endif-not-taken': lambda r: [_do(_nonnull(r)), _if(_falsy(r), [_do(_nonnull(r))])],
    'else-end': lambda r: [_if(_falsy(r), [_set('r', N(1))], [_do(_nonnull(r))])],
    'elif-end': lambda r: [{'k': 'if', 'c': _falsy(r), 't': [_set('r', N(1))],
                            'else': {'k': 'elif', 'c': _truthy(r), 't': [_do(_nonnull(r))], 'else': None}}],
    'endwhile': lambda r: [_set('w', N(0)), _while(B('<', V('w'), N(2)), [_set('w', B('+', V('w'), N(1))), _do(_nonnull(r))])],
    'endwhile-break': lambda r: [_while(V('true'), [_do(_nonnull(r)), {'k': 'break'}])],
    'endwhile-never': lambda r: [_do(_nonnull(r)), _while(_falsy(r), [_do(_nonnull(r))])],
    'endfor': lambda r: [_for('v', None, C('arrayNew', N(1), N(2)), [_do(_nonnull(r))])],
    'endfor-index': lambda r: [_for('v', 'ix', C('arrayNew', S('a'), S('b')), [_do(C('arrayPush', V('xs'), V('ix')))])],
    'endfor-empty': lambda r: [_do(_nonnull(r)), _for('v', None, C('arrayNew'), [_do(_nonnull(r))])],
    'endfor-continue': lambda r: [_for('v', None, C('arrayNew', N(1), N(2)), [_do(_nonnull(r)), {'k': 'continue'}])],
    'nested-block-ends': lambda r: [_for('v', None, C('arrayNew', N(1)), [_if(_truthy(r), [_while(V('true'), [_do(_nonnull(r)), {'k': 'break'}])])])],
    # ... or leaves at a return statement
    'return': lambda r: [_do(_nonnull(r)), _ret()],
    'return-expr': lambda r: [_ret(_nonnull(r))],
    'return-null': lambda r: [_do(_nonnull(r)), _ret(V('null'))],
    'return-in-if': lambda r: [_if(_truthy(r), [_ret(_nonnull(r))]), _do(_nonnull(r))],
    'return-bare-in-if': lambda r: [_if(_truthy(r), [_do(_nonnull(r)), _ret()]), _ret(S('not here'))],
    'return-skipped': lambda r: [_if(_falsy(r), [_ret(S('not here'))]), _do(_nonnull(r))],
    'return-in-loop': lambda r: [_for('v', 'ix', C('arrayNew', N(4), N(5), N(6)), [_if(B('==', V('v'), N(5)), [_ret(B('+', V('v'), V('ix')))]), _do(_nonnull(r))]), _ret(S('not here'))],
    'return-bare-in-loop': lambda r: [_while(V('true'), [_do(_nonnull(r)), _ret()])],
}
ENDING_SCOPES = ['script', 'function', 'function-call-last', 'function-in-function']


def ending_case(kind, scope, seed, variant):
    """-> (program, globals, tags) - deterministic in its arguments"""
    rng = fw.rng_for(seed, 'C01', 'endings', kind, scope, variant)
    gen = Gen2(rng, max_depth=2, allow_func_defs=False)
    prelude = [_func('tr', ['tag', 'v'], [_do(C('systemLog', V('tag'))), _ret(V('v'))]),
               _func('give', ['p'], [_log(S('give '), C('systemType', V('p'))), _ret(V('p'))]),
               _func('giveEarly', ['p'], [_for('v', None, V('p'), [_if(V('v'), [_ret(C('arrayNew', V('v')))])]), _log(S('none found'))]),
               _func('quiet', [], [])]
    setup = [_set('xs', C('arrayNew', N(0), N(3))), _set('ob', C('objectNew'))]
    in_func = scope != 'script'
    prefix = gen.block(1, False, in_func, rng.choice([0, 0, 1, 2])) if variant else []
    body = prefix + ENDINGS[kind](rng)
    if scope == 'script' and variant % 2:
        # the last line of the source is the end of a function DEFINITION (definitions do not nest: script scope only)
        body.append(_func('late', ['p'], [_ret(V('p'))]))
    shown = [_log(S('got '), C('systemType', V('got')))]
    if scope == 'script':
        prog = prelude + setup + body
    elif scope == 'function':
        prog = prelude + setup + [_func('ending', ['p'], body), _set('got', C('ending', N(1)))] + shown + [_ret(C('arrayNew', V('got')))]
    elif scope == 'function-call-last':
        # functions first, a call of the main function on the last line: the value it returns is dropped, the script yields null
        prog = prelude + setup + [_func('ending', ['p'], body), _func('main', [], [_set('got', C('ending', N(1)))] + shown + [_ret(C('arrayNew', V('got'), S('main')))]),
                                  _do(C('main'))]
    else:
        prog = prelude + setup + [_func('ending', ['p'], body), _func('outer', [], [_log(S('outer')), _do(C('ending', N(1)))]),
                                  _set('got', C('outer'))] + shown + [_do(C('ending', N(2)))]
    g = progen.random_globals(rng)
    tags = {'end-' + kind: 1, 'scope-' + scope: 1}
    if variant % 3 == 2:
        m = choose_names(prog, rng, p=0.6)
        prog, g = rename_prog(prog, m), {m.get(k, k): v for k, v in g.items()}
        tags['renamed'] = len(m)
    return progen.assign_fids(prog), g, tags


def stream_endings(ctx, parser):
    end_cases = [ending_case(kind, scope, ctx.seed, variant) for kind in ENDINGS for scope in ENDING_SCOPES
                 for variant in range(ctx.scale(2, 8))]
    end_cases, end_models = parsed_cases(ctx, parser, end_cases)
    for (prog, _, _), model in zip(end_cases, end_models):
        want, got = expected_model(prog), progen.canon_script(model, with_fid=False)
        if got != want:
            _lowering_witness(ctx, '\n'.join(progen.render(prog)), want, got)
    exec_stream(ctx, 'endings', end_cases, end_models,
                'the RETURN VALUE for every way a statement list can end x where it ends: the last statement executed is an assignment, a '
                'call statement with a non-null value (arrayPush / objectSet / arrayNew / a script function with a result / one that '
                'returns from inside its loop / the lazy if / a nested call), two of them, a bare variable / literal / operator '
                'expression, a label, the end of an if / elif / else branch (taken, not taken), of a while (condition false, break, '
                'never entered), of a for (with index, empty array, continue), of nested blocks, a function definition - the value is '
                'null; or a return statement: bare (null), with an expression, with null, inside an if, inside a loop, skipped. Scopes: '
                'the script itself; a function body (value kept and shown); functions first and `main()` on the last line; a function '
                'whose last statement calls the function. Variant 0 = the ending alone, others = behind a random prefix block; every third '
                'with keyword-like identifiers. Implementation vs Lean machine / ticked / plain semantics; oracles: reference lowering, '
                'structured reading Ref; non-trivial = the run completes',
                lambda stats: True, reading=run_ref)


def disagreement_known(d, known):
    return False


def search(ctx):
    """A proof obligation / table / correspondence stream broke and the streams produced no witness: spend a larger budget on the
    property's own oracle (independent structured reading vs the implementation), deeper programs, more seeds."""
    parser = fw.impl()['parser']
    rng = ctx.rng('search')
    for turn in range(ctx.scale(2500, 20000)):
        # grammar-directed programs and call-heavy programs (per-call frames, re-entered loops, keyword-named variables) in turn
        gen = Gen2(rng, max_depth=rng.choice([3, 4, 5, 6])) if turn % 2 == 0 else CallGen(rng)
        prog = gen.program()
        g = keyword_globals(progen.random_globals(rng), rng)
        if turn % 4 >= 2 and not progen.has_while_continue(prog):
            # the same kinds of program with keyword-like identifiers, injected call statements and, half of the time, a call
            # statement with a non-null value as the last statement instead of the final return
            counter = [0]
            prog = inject_calls(prog, rng, counter)
            if rng.random() < 0.5:
                prog = (prog[:-1] if prog and prog[-1]['k'] == 'ret' else prog) + [_note_call(rng, counter, bare_ok=False)]
            prog = [_note_def()] + prog
            m = choose_names(prog, rng, p=0.8)
            prog, g = progen.assign_fids(rename_prog(prog, m)), {m.get(k, k): v for k, v in g.items()}
        text = '\n'.join(progen.render(prog))
        try:
            model = parser.parse_script(text)
        except Exception as exc:  # pylint: disable=broad-except
            ctx.witness('generated-program-parses', {'text': text, 'globals': g}, 'a model', f'{type(exc).__name__}: {exc}')
            return
        impl = progen.run_impl(model, g, max_statements=600)
        if 'hostexc' in impl or impl.get('error', '').startswith(('Exceeded maximum', 'ParserError')):
            continue
        if 'error' in impl:
            # a run that ends with a runtime error: log and globals up to the failing call are the reading's
            ref = run_ref(prog, g, budget=3000)
            if ref is not None and ref != progen.strip_hidden(impl) and not progen.has_while_continue(prog):
                ctx.witness('structured-reading-failing-run', _w_input(text, g, prog), ref, progen.strip_hidden(impl), explained_by_f7=False)
                return
            continue
        ref = run_ref(prog, g) if turn % 2 else progen.run_reference(prog, g)
        if ref is not None and ref != progen.strip_hidden(impl):
            ref7 = progen.run_reference(prog, g, f7_quirk=True) if progen.has_while_continue(prog) else None
            if ref7 is None or ref7 != progen.strip_hidden(impl):
                ctx.witness('structured-reading', _w_input(text, g, prog), ref, progen.strip_hidden(impl),
                            explained_by_f7=False)
                return


def _history_steps(inp):
    return [dict(s, kind='replay') for s in inp['steps']]


def replay(witness):
    parser = fw.impl()['parser']
    inp = witness['input']
    oracle = witness.get('oracle')
    if oracle == 'print-parse-lowering':
        try:
            got = progen.canon_script(parser.parse_script(inp['text']), with_fid=False)
        except Exception as exc:  # pylint: disable=broad-except
            got = {'error': f'{type(exc).__name__}: {getattr(exc, "error", exc)}'}
        return _digest(got) != witness['expected_digest']
    if oracle == 'chunked-parse':
        return parse_spelled(parser, inp['text'], inp['spelling']) != parser.parse_script(inp['text'])
    if oracle == 'options-reuse':
        return run_history(inp['mode'], inp['limit'], _history_steps(inp), parser) is not None
    if oracle in ('options-reuse-budget', 'options-reuse-reading', 'options-reuse-parse'):
        got, _ = History(inp['mode'], inp['limit']).run(_history_steps(inp), parser)
        if oracle != 'options-reuse-reading':
            return got.get('error', '').startswith('Exceeded maximum script statements' if oracle == 'options-reuse-budget' else 'ParserError')
        return progen.strip_hidden(got) != witness['expected']
    if oracle == 'host-subclass-transparent':
        model = parser.parse_script(inp['text'])
        return outcomes_differ(progen.run_impl(model, wrap_globals(inp['globals'], inp['wrap_seed']), max_statements=400),
                               progen.run_impl(model, inp['globals'], max_statements=400))
    if oracle == 'host-options-minimal':
        log = []
        model = parser.parse_script(inp['text'])
        return outcomes_differ(run_on({'maxStatements': 400, 'logFn': log.append, 'debug': False, 'statementCount': 10 ** 6}, log, model),
                               progen.run_impl(model, {}, max_statements=400))
    if oracle == 'generated-program-parses':
        try:
            parser.parse_script(inp['text'])
        except Exception:  # pylint: disable=broad-except
            return True
        return False
    if oracle == 'session-reading':
        return progen.strip_hidden(run_session(inp['session'], parser)[witness['step']]) != witness['expected']
    if oracle == 'structured-reading-scale':
        _, expect, text = scale_case(inp['family'], inp['n'], inp['seed'])
        try:
            got = big_stack(lambda: progen.strip_hidden(progen.run_impl(parser.parse_script(text), {}, max_statements=inp['max'])))
        except parser.BareScriptParserError:
            return True
        return got.get('result') != expect if witness.get('closed_form') else _digest(got) != witness['expected_digest']
    if oracle == 'structured-reading-host':
        return progen.strip_hidden(run_with_host(parser.parse_script(inp['text']), inp['globals'], inp['wrap_seed'])) != witness['expected']
    model = parser.parse_script(inp['text'])
    impl = progen.strip_hidden(progen.run_impl(model, inp['globals'], max_statements=400))
    return impl != witness['expected']
