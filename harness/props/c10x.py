"""C10 extension: a logical line broken with a trailing backslash at ANY blank run - in the statement part or inside the expression -
for every statement kind (BareProofs/C10Break.lean: frames `frame_*`, `classifyL_*`, `SameStmt`/`sameStmt_classify`,
`continuation_break_statement` and its instances).  Attached to harness/props/C10.py with `fw.attach_extension`.

Stream `break-any-blank`: lines of every statement kind are built from their tokens with a random blank run at every place where the
pattern has `\\s+` / `\\s*` (and between the tokens of the expression); every non-empty run of the line is taken as the break site:
physical lines `p ws1 \\ tr` / `ind q` against the unbroken `p ws q`.
* implementation oracle (the property, independent of the model): `parse_script` of the script with the broken line and of the script
  with the unbroken line give the identical model (same error text if rejected) - `ctx.witness('break-at-blank', ...)` otherwise;
* correspondence: the logical lines the implementation offers to its cascade = `Text.loopL` (drv_c10x), the pattern that matches and its
  groups (recorded regex matches) = `Scan.shape` for both spellings, and the conclusion of the theorem (classified lines equal up to the
  column) holds on the model.
"""

import fw

THEOREMS = [
    'C10.frame_header', 'C10.frame_for', 'C10.frame_return', 'C10.frame_jumpif', 'C10.frame_assign',
    'C10.classifyL_jump', 'C10.classifyL_else', 'C10.classifyL_include', 'C10.classifyL_include_system', 'C10.classifyL_function',
    'C10.classifyL_call', 'C10.sameExpr_parse', 'C10.frame_layout', 'C10.sameStmt_classify',
    'C10.continuation_break_statement', 'C10.continuation_break_irrelevant_frame', 'C10.continuation_break_irrelevant_header',
    'C10.continuation_break_irrelevant_if', 'C10.continuation_break_irrelevant_elif', 'C10.continuation_break_irrelevant_while',
    'C10.continuation_break_irrelevant_for', 'C10.continuation_break_irrelevant_return', 'C10.continuation_break_irrelevant_jumpif',
    "C10.continuation_break_irrelevant_assign'", 'C10.continuation_break_irrelevant_call',
    'C10.layout_header', 'C10.layout_for', 'C10.layout_return', 'C10.layout_jumpif', 'C10.layout_assign', 'C10.layout_function',
    'C10.shapeS_if', 'C10.shapeS_elif', 'C10.shapeS_while', 'C10.shapeS_for', 'C10.shapeS_return', 'C10.shapeS_jump', 'C10.shapeS_jumpif',
    'C10.shapeS_assign', 'C10.shapeS_else', 'C10.shapeS_include', 'C10.shapeS_include_system', 'C10.shapeS_function', 'C10.shapeS_call',
    'C10.shapeS_nonident',
]
LEAN_TARGETS = ['BareProofs.C10Break']
EXTRA_TARGETS = ['drv_c10x']

STREAM = 'break-any-blank'
BLANKS = [' ', ' ', ' ', ' ', '\t', '\t', '\u3000', '\xa0', '\x0c', '\u2003']
NAMES = ['x', 'y', 'i', 'n', 'foo', 'bar_1', '_t', 'value', 'ifx', 'returned', 'jumper', 'inn', 'e1', 'done']
FUNCS = ['arrayNew', 'mathMax', 'systemLog', 'objectGet', 'gg', 'f1', 'stringNew']
STRINGS = ["'a  b'", "'it\\'s  x'", '"two  blanks"', "''", "'# not a comment'", "'colon : here:'", "'paren ) ('", "' \\\\'", "'x = 1'"]


def blank_run(rng, kind):
    """'+' = the pattern has \\s+ (non-empty), '*' = \\s* (may be empty)"""
    if kind == '*' and rng.random() < 0.4:
        return ''
    return ''.join(rng.choice(BLANKS) for _ in range(rng.choice([1, 1, 1, 2, 2, 3, 5])))


def gen_expr(rng, depth=0):
    """an expression as a list of tokens; a blank run may stand between any two of them (sites '*')"""
    if depth == 0 and rng.random() < 0.1:        # malformed: the error branch (same error text on both spellings)
        return gen_expr(rng, 1) + [rng.choice(['+', ')', 'x', "'open", '(', ','])] + ([] if rng.random() < 0.5 else gen_expr(rng, 1))
    r = rng.random() * 0.88
    if depth > 2 or r < 0.25:
        return [rng.choice(NAMES + ['1', '2.5', '10', 'true', 'null', '[a  b]', '[x\\] y]'] + STRINGS)]
    if r < 0.5:
        return gen_expr(rng, depth + 1) + [rng.choice(['+', '-', '*', '&&', '||', '==', '<=', '!=', '**', '%'])] + gen_expr(rng, depth + 1)
    if r < 0.7:
        args = []
        for k in range(rng.randint(0, 3)):
            args += ([','] if k else []) + gen_expr(rng, depth + 1)
        return [rng.choice(FUNCS) + '('] + args + [')']
    if r < 0.8:
        return ['('] + gen_expr(rng, depth + 1) + [')']
    return [rng.choice(['!', '-'])] + gen_expr(rng, depth + 1)


def expr_items(rng):
    """tokens and '*' sites of an expression, tagged 'expr'"""
    toks = gen_expr(rng)
    items = []
    for k, t in enumerate(toks):
        if k:
            items.append(('site', '*', 'expr'))
        items.append(('tok', t))
    return items


def T(*xs):
    """template -> items; '+' / '*' are sites of the statement part"""
    return [('site', x, 'stmt') if x in ('+', '*') else ('tok', x) for x in xs]


def gen_statement(rng):
    """(kind, items, lines before, lines after)"""
    kind = rng.choice(['assign', 'if', 'elif', 'while', 'for', 'for2', 'return', 'jump', 'jumpif', 'function', 'include', 'include2', 'else', 'call'])
    nm = rng.choice(NAMES)
    if kind == 'assign':
        return kind, T(nm, '*', '=', '*') + expr_items(rng), [], []
    if kind in ('if', 'while'):
        return kind, T(kind, '+') + expr_items(rng) + T('*', ':'), [], ['end' + kind]
    if kind == 'elif':
        return kind, T('elif', '+') + expr_items(rng) + T('*', ':'), ['if x:'], ['endif']
    if kind == 'else':
        return kind, T('else', '*', ':'), ['if x:'], ['endif']
    if kind == 'for':
        return kind, T('for', '+', nm, '+', 'in', '+') + expr_items(rng) + T('*', ':'), [], ['endfor']
    if kind == 'for2':
        return kind, T('for', '+', nm, '*', ',', '*', rng.choice(NAMES), '+', 'in', '+') + expr_items(rng) + T('*', ':'), [], ['endfor']
    if kind == 'return':
        return kind, T('return', '+') + expr_items(rng), [], []
    if kind == 'jump':
        return kind, T('jump', '+', nm), [], [nm + ':']
    if kind == 'jumpif':
        return kind, T('jumpif', '*', '(', '*') + expr_items(rng) + T('*', ')', '+', nm), [], [nm + ':']
    if kind == 'function':
        items = (T('async', '*') if rng.random() < 0.4 else []) + T('function', '+', rng.choice(FUNCS), '*', '(', '*')
        nargs = rng.randint(0, 3)
        for k in range(nargs):
            items += (T('*', ',', '*') if k else []) + T(rng.choice(NAMES))
        if rng.random() < 0.4:
            items += T('*', '...')
        return kind, items + T('*', ')', '*', ':'), [], ['endfunction']
    if kind == 'include':
        return kind, T('include', '+', rng.choice(["'lib  one.bare'", "'it\\'s.bare'", "'a.bare'"])), [], []
    if kind == 'include2':
        return kind, T('include', '+', rng.choice(['<args.bare>', '<two  blanks.bare>'])), [], []
    args = expr_items(rng)
    if rng.random() < 0.6:
        args += [('site', '*', 'expr'), ('tok', ','), ('site', '*', 'expr')] + expr_items(rng)
    return kind, [('tok', rng.choice(FUNCS) + '('), ('site', '*', 'expr')] + args + [('site', '*', 'expr'), ('tok', ')')], [], []


def render(rng, items):
    """-> list of (text, site-or-None) pieces with a concrete run at every site"""
    out = []
    for it in items:
        if it[0] == 'tok':
            out.append((it[1], None))
        elif out and out[-1][1] is None:        # two sites in a row (an empty parameter list) are one run
            out.append((blank_run(rng, it[1]), it[2]))
    return out


def eq_up_to_column(a, b):
    if 'error' in a or 'error' in b:
        return 'error' in a and 'error' in b and a['error'] == b['error']
    return a == b


def streams(ctx):
    from props import C10 as base           # lazily: C10.py imports this module
    drv = fw.Driver('drv_c10x')
    rng = ctx.rng(STREAM)
    st = ctx.stream(STREAM, 'lines of every statement kind built from tokens with a random blank run (blank, tab, U+3000, NBSP, FF, EM SPACE; 1-5 '
                            'characters; possibly empty where the pattern has \\s*) at every site of the statement part and between the tokens of '
                            'the expression (string literals and bracketed names with inner blank runs, ~10% malformed expressions); EVERY '
                            'non-empty run of the line is a break site: physical lines `p ws1 \\ tr` / `ind q` vs the unbroken `p ws q`; '
                            'parse_script on both spellings (oracle), logical lines / matched pattern and groups / model conclusion; '
                            'non-trivial = the site is in the statement part, or the expression is not a single token')
    n = ctx.scale(260, 4000)
    cases = []
    for _ in range(n):
        kind, items, before, after = gen_statement(rng)
        pieces = render(rng, items)
        indent = rng.choice(['', '', '  ', '\t', '    '])
        sites = [k for k, (text, site) in enumerate(pieces) if site is not None and text != '' and k > 0]
        for k in sites:
            p = indent + ''.join(t for t, _ in pieces[:k])
            q = ''.join(t for t, _ in pieces[k + 1:])
            if not q or q.startswith('#'):
                continue
            cases.append({'kind': kind, 'site': pieces[k][1], 'p': p, 'ws': pieces[k][0], 'q': q,
                          'ws1': rng.choice(['', '', ' ', '\t ', '  ']), 'tr': rng.choice(['', '', ' ', '\t']),
                          'ind': rng.choice(['', '  ', '\t', '        ', ' \u3000']), 'before': before, 'after': after,
                          'ntok': sum(1 for it in items if it[0] == 'tok')})
    resps = drv.batch([dict(op='break', p=c['p'], q=c['q'], ws=c['ws'], ws1=c['ws1'], tr=c['tr'], ind=c['ind']) for c in cases])
    ctx.driver.requests += drv.requests
    for c, r in zip(cases, resps):
        phys = [c['p'] + c['ws1'] + '\\' + c['tr'], c['ind'] + c['q']]
        unbroken = c['p'] + c['ws'] + c['q']
        joined = c['p'] + ' ' + c['q']
        case = {'kind': c['kind'], 'site': c['site'], 'physical': phys, 'unbroken': unbroken}
        # the property, on the implementation
        res_u = base.run_parse(c['before'] + [unbroken] + c['after'])
        res_b = base.run_parse(c['before'] + phys + c['after'])
        if not base.same_program(res_u, res_b):
            ctx.witness('break-at-blank', {'unbroken': c['before'] + [unbroken] + c['after'], 'broken': c['before'] + phys + c['after']},
                        base.jsonable(res_u)[:2], base.jsonable(res_b)[:2])
        # correspondence
        ctx.compare(STREAM, dict(case, what='logical lines of the two physical lines'), base.impl_logical_lines(phys)[0],
                    [ln[1] for ln in r['lines']])
        for text, key in ((unbroken, 'unbrokenShape'), (joined, 'joinedShape')):
            shape, _ = base.impl_shape(text)
            ctx.compare(STREAM, dict(case, what='matched pattern and groups of ' + key[:-5], line=text), base.jsonable(shape), r[key])
        ctx.compare(STREAM, dict(case, what='model: classified lines equal up to the column (continuation_break_statement)'), True,
                    eq_up_to_column(r['joined'], r['unbroken']))
        st.case({'p': c['p'], 'ws': c['ws'], 'q': c['q']}, nontrivial=c['site'] == 'stmt' or c['ntok'] > 3,
                tags=[c['kind'], 'site:' + c['site'], 'accepted' if res_u[0] == 'ok' else 'rejected'])


def replay(witness):
    if not isinstance(witness, dict) or witness.get('oracle') != 'break-at-blank':
        return None
    from props import C10 as base
    inp = witness['input']
    return not base.same_program(base.run_parse(list(inp['unbroken'])), base.run_parse(list(inp['broken'])))


LEVEL_TEXT_EXT = ('C10Break: a line broken with a trailing backslash at ANY blank run classifies identically, for every statement kind, with no hypothesis about the statement pattern (continuation_break_statement); counterexamples where a blank is not allowed.')
