"""C19 extension streams: the text-level CSV model (BareModel/CsvText.lean: line splitter, the csv reader state machine with
skipinitialspace and the field-size limit, DictReader, typing; an RFC 4180 writer as specification; theorems in
BareProofs/C19CsvText.lean, main: csv_text_roundtrip) run by `drv_c19x` against the real dataParseCSV.  Imported by harness/props/C19.py.

Wire (Drv/C19X.lean): values {"t":"null"|"bool"|"num"|"str"|"dt","v":..} (numbers [num,den], datetimes microseconds since 0001-01-01);
typed cells {"t":"null"} | {"t":"bool","v":b} | {"t":"int","v":n} | {"t":"float","v":"<repr text>"} | {"t":"dt","v":[y,mo,d,h,mi,s,ms]} |
{"t":"str","v":s}.  The stream runs with the process zone set to UTC (offsets 0): zones are C16's business.
"""

import contextlib
import csv
import datetime
import io
import os
import re
import time
from fractions import Fraction

import fw

THEOREMS = [
    'C19CsvText.csv_text_roundtrip', 'C19CsvText.csv_text_roundtrip_lineend', 'C19CsvText.csv_records_roundtrip', 'C19CsvText.run_writeRecords',
    'C19CsvText.events_splitLines', 'C19CsvText.validate_table', 'C19CsvText.lookup_detectTypes', 'C19CsvText.columnOK_sound',
    'C19CsvText.column_convert', 'C19CsvText.parseDatetime_int', 'C19CsvText.parseDatetime_float', 'C19CsvText.cell_textOK',
    'C19CsvText.csv_field_limit', 'C19CsvText.run_field_limit', 'C19CsvText.datelike_column_ok', 'C19CsvText.exTable_ok',
]
LEAN_TARGETS = ['BareProofs.C19CsvText']
EXTRA_TARGETS = ['drv_c19x']

EPOCH1 = datetime.datetime(1, 1, 1)
US = datetime.timedelta(microseconds=1)
SCALE = [0, 1, 2, 9, 10, 11, 12, 16, 17, 64, 100, 128, 129, 300]         # the row-count axis (= C19.SCALE)


@contextlib.contextmanager
def utc_zone():
    old = os.environ.get('TZ')
    os.environ['TZ'] = 'UTC'
    time.tzset()
    try:
        yield
    finally:
        if old is None:
            os.environ.pop('TZ', None)
        else:
            os.environ['TZ'] = old
        time.tzset()


def enc(v):
    if v is None:
        return {'t': 'null'}
    if isinstance(v, bool):
        return {'t': 'bool', 'v': v}
    if isinstance(v, str):
        return {'t': 'str', 'v': v}
    if isinstance(v, (int, float)):
        fr = Fraction(v)
        return {'t': 'num', 'v': [fr.numerator, fr.denominator]}
    if isinstance(v, datetime.datetime):
        return {'t': 'dt', 'v': (v.replace(tzinfo=None) - EPOCH1) // US}
    return {'t': 'other', 'v': repr(v)}


def round_nums(e):
    """model numbers are the exact rationals of the text: round to the double float() returns"""
    if isinstance(e, dict) and e.get('t') == 'num':
        p, q = e['v']
        try:
            fr = Fraction(p / q)
        except OverflowError:
            return e
        return {'t': 'num', 'v': [fr.numerator, fr.denominator]}
    if isinstance(e, dict):
        return {k: round_nums(v) for k, v in e.items()}
    if isinstance(e, list):
        return [round_nums(x) for x in e]
    return e


def L():
    return fw.impl()['library']


def impl_lines(args):
    return [ln for a in args if a is not None for ln in L()._R_DATA_PARSE_CSV_LINES.split(a) if ln]      # pylint: disable=protected-access


def impl_records(args):
    try:
        return {'records': list(csv.reader(impl_lines(args), skipinitialspace=True))}
    except csv.Error as e:
        return {'error': 'fieldLimit' if 'field limit' in str(e) else 'newline'}


def impl_parse(args):
    """same shape as the answer of csvtext_parse"""
    header = csv.DictReader(impl_lines(args), skipinitialspace=True).fieldnames if impl_records(args).get('records') is not None else None
    try:
        data = L().SCRIPT_FUNCTIONS['dataParseCSV'](list(args), None)
    except csv.Error as e:
        return {'error': {'csv': 'fieldLimit' if 'field limit' in str(e) else 'newline'}}
    except TypeError as e:
        m = re.match(r'Invalid "(.*)" field value .*, expected type (\w+)$', str(e), re.S)
        if not m:
            return {'error': {'typeError': str(e)[:80]}}
        return {'error': {'field': m.group(1), 'type': m.group(2)}}
    except Exception as e:  # pylint: disable=broad-except
        return {'error': {'exception': type(e).__name__}}
    if data is None:
        return {'error': 'null result'}
    return {'header': header, 'rows': [{'row': [[k, enc(v)] for k, v in d.items() if k is not None], 'rest': d.get(None)} for d in data]}


def cell_wire(v):
    if v is None:
        return {'t': 'null'}
    if isinstance(v, bool):
        return {'t': 'bool', 'v': v}
    if isinstance(v, int):
        return {'t': 'int', 'v': v}
    if isinstance(v, float):
        return {'t': 'float', 'v': repr(v)}
    if isinstance(v, datetime.datetime):
        return {'t': 'dt', 'v': [v.year, v.month, v.day, v.hour, v.minute, v.second, v.microsecond // 1000]}
    return {'t': 'str', 'v': v}


def py_write(header, rows, le, trailing):
    """independent RFC 4180 writer (oracle for the text)"""
    def q(s, lone):
        return '"' + s.replace('"', '""') + '"' if (lone and s == '') or any(c in s for c in ',"\r\n') else s
    recs = [','.join(q(s, len(r) == 1) for s in r) for r in [header] + rows]
    return le.join(recs) + (le if trailing and recs else '')


ATOMS = ['a', '1', ',', ',', '"', '"', '\n', '\r', '\r\n', ' ', 'é', ' ', '\x0b', '\x85', 'true', 'null', '2024-02-30', '2024-02-29', '1e5', '\U0001F600',
         '\x00', '\t', ' ', '\x1c']
STRS = ['a,b', 'say "hi"', 'x\ny', 'x\r\ny', '\r', '', ' lead', ' lead,q', 'né \U0001F600', '2024-02-30', '12', 'true', 'null', 'abc', '"', ',', '2024-02-29', ' ',
        '.5', 'inf', '\n', 'x\n\ny', 'x\n \ny', '\t', 'a b', 'tab\there', '""', "'", 'back\\slash']


def gen_cell(rng, kind):
    if rng.random() < 0.2:
        return None
    if kind == 'number':
        return rng.choice([0, -1, 17, 10 ** 22, rng.randint(-10 ** 6, 10 ** 6), 0.5, 1e300, 5e-324, 1.5e-7, 123.0, 1e16, rng.random() * 10 ** rng.randint(-20, 20)])
    if kind == 'boolean':
        return rng.random() < 0.5
    if kind == 'datetime':
        return datetime.datetime(rng.randint(1900, 2100), rng.randint(1, 12), rng.randint(1, 28), rng.randint(0, 23), rng.randint(0, 59), rng.randint(0, 59),
                                 rng.choice([0, 1000, 999000]))
    return rng.choice(STRS)


def streams(ctx):
    drv = fw.Driver('drv_c19x')
    with utc_zone():
        _streams(ctx, drv)
    ctx.driver.requests += drv.requests


def _streams(ctx, drv):
    rng = ctx.rng('csvtext')
    val = fw.impl()['value']
    n = ctx.scale(1500, 20000)
    st = ctx.stream('csvtext-reader', 'CsvText reader (drv_c19x csvtext_lines / csvtext_records / csvtext_parse) on hostile CSV texts - one or several text '
                                      'arguments, null arguments, quotes, all line-end conventions, other Unicode line separators, blanks, the 131072 field '
                                      'limit - against the real line regex, csv.reader(skipinitialspace) and dataParseCSV; non-trivial = text with a quote or '
                                      'a line end')
    cases = [[None if rng.random() < 0.05 else ''.join(rng.choice(ATOMS) for _ in range(rng.randint(0, 14))) for _ in range(rng.choice([1, 1, 2, 3]))]
             for _ in range(n)]
    cases += [['a\n' + 'x' * 131072], ['a\n' + 'x' * 131073], ['a,b', '1,2', None, '3,4\n5,6'], ['\na,b\n1,2'], ['a,b\n1,2,3'], ['a,a\n1,2'],
              ['a\n"x\n\ny"'], ['a\n"x\n \ny"'], ['a\n\t'], ['a,b\n"1\r\n\r\n2",3']]
    joined = [''.join(a or '' for a in c) for c in cases]
    for c, j, r in zip(cases, joined, drv.batch([{'op': 'csvtext_lines', 'text': j} for j in joined])):
        st.case(['lines', j if len(j) < 200 else len(j)], nontrivial=any(ch in j for ch in '"\r\n'), tags=['op:lines'])
        ctx.compare('csvtext-reader', {'op': 'lines', 'text': j if len(j) < 300 else f'<{len(j)} chars>'}, impl_lines([j]), r['lines'])
    for c, r in zip(cases, drv.batch([{'op': 'csvtext_records', 'args': c} for c in cases])):
        big = sum(len(a or '') for a in c) > 300
        st.case(['records', c if not big else len(c)], nontrivial=any(ch in (a or '') for a in c for ch in '"\r\n'), tags=['op:records'])
        ctx.compare('csvtext-reader', {'op': 'records', 'args': c if not big else '<long>'}, impl_records(c), r)
    for c, r in zip(cases, drv.batch([{'op': 'csvtext_parse', 'args': c, 'off': 0} for c in cases])):
        big = sum(len(a or '') for a in c) > 300
        imp = impl_parse(c)
        st.case(['parse', c if not big else len(c)], nontrivial=any(ch in (a or '') for a in c for ch in '"\r\n'),
                tags=['op:parse', 'parse:' + ('error' if 'error' in imp else 'ok')])
        ctx.compare('csvtext-reader', {'op': 'parse', 'args': c if not big else '<long>'}, imp, round_nums(r))

    st2 = ctx.stream('csvtext-roundtrip', 'typed tables (numbers, booleans, datetimes, strings incl. commas, quotes, CR/LF/CRLF, blank interior lines, astral and '
                                          'separator characters, nulls as "" or null) -> text by the model writer (= independent RFC 4180 writer = csv.writer) -> '
                                          'REAL dataParseCSV; whenever the theorem\'s decidable hypothesis tableOK holds the real result must be the original typed '
                                          'values (csv_text_roundtrip on the implementation); 0-5 rows, plus the ROW-COUNT axis 0, 1, 2, 9, 10, 11, 12, 16, 17, 64, 100, '
                                          '128, 129, 300 rows with columns that are null in every row before a row drawn from the same axis (the column type shows '
                                          'late); non-trivial = tableOK and >= 1 row')
    tabs = []
    for _ in range(n):
        names = rng.sample(['a', 'b', 'c d', 'x,y', 'q"', ' sp', '', 'é', 'l\nf'], rng.randint(1, 4))
        kinds = [rng.choice(['number', 'boolean', 'datetime', 'string', 'string']) for _ in names]
        tabs.append({'header': names, 'rows': [[gen_cell(rng, k) for k in kinds] for _ in range(rng.randint(0, 5))], 'nullText': rng.choice(['', 'null']),
                     'lineEnd': rng.choice(['lf', 'crlf', 'cr']), 'trailing': rng.random() < 0.4})
    # the ROW-COUNT axis (C19.SCALE): tables of exactly 0 ... 300 rows; a column is dense (20% nulls) or LATE: null in every row before row
    # `start` (drawn from the same axis), so that its type shows only there
    rng2 = ctx.rng('csvtext-scale')
    for size in SCALE:
        for _ in range(ctx.scale(6, 20) if size < 300 else ctx.scale(2, 6)):
            names = rng2.sample(['a', 'b', 'c d', 'x,y', 'q"', ' sp', 'é'], rng2.randint(1, 4))
            kinds = [rng2.choice(['number', 'boolean', 'datetime', 'string', 'number']) for _ in names]
            starts = [0 if rng2.random() < 0.5 or not size else rng2.choice([s for s in SCALE if s < size] + [size - 1]) for _ in names]
            rows = [[None if r < start else gen_cell(rng2, k) for k, start in zip(kinds, starts)] for r in range(size)]
            for c, (k, start) in enumerate(zip(kinds, starts)):
                while start and rows[start][c] is None:
                    rows[start][c] = gen_cell(rng2, k)
            tabs.append({'header': names, 'rows': rows, 'nullText': rng2.choice(['', 'null']), 'lineEnd': rng2.choice(['lf', 'crlf', 'cr']),
                         'trailing': rng2.random() < 0.5, 'scale': ['n%d' % size] + sorted({'first-value-row-%d' % s for s in starts if s})})
    res = drv.batch([{'op': 'csvtext_roundtrip', 'header': t['header'], 'rows': [[cell_wire(v) for v in r] for r in t['rows']], 'nullText': t['nullText'],
                      'offL': 0, 'offU': 0, 'lineEnd': t['lineEnd'], 'trailing': t['trailing']} for t in tabs])
    for t, r in zip(tabs, res):
        texts = [[t['nullText'] if v is None else val.value_string(v) for v in row] for row in t['rows']]
        case = {'header': t['header'], 'rows': [[cell_wire(v) for v in row] for row in t['rows']], 'nullText': t['nullText'], 'lineEnd': t['lineEnd'],
                'trailing': t['trailing']}
        st2.case(case, nontrivial=bool(r['ok']) and bool(t['rows']), tags=['tableOK:' + str(bool(r['ok'])), 'le:' + t['lineEnd']] + t.get('scale', []))
        ctx.compare('csvtext-roundtrip', dict(case, what='writer model = RFC 4180 writer'),
                    py_write(t['header'], texts, {'lf': '\n', 'crlf': '\r\n', 'cr': '\r'}[t['lineEnd']], t['trailing']), r['text'])
        imp = impl_parse([r['text']])
        ctx.compare('csvtext-roundtrip', dict(case, what='reader model = dataParseCSV on the written text'), imp, round_nums(r['parsed']))
        if r['ok']:
            orig = [[[h, enc(v)] for h, v in zip(t['header'], row)] for row in t['rows']]
            got = [d['row'] for d in imp['rows']] if 'rows' in imp else imp
            if got != orig or imp.get('header') != t['header']:
                ctx.witness('csv-text-roundtrip', dict(case, text=r['text']), orig, got)
            ctx.compare('csvtext-roundtrip', dict(case, what='expectedRows of the theorem'), orig, round_nums(r['expected']))
    for t, r in zip(tabs, drv.batch([{'op': 'csvtext_write', 'header': t['header'],
                                      'rows': [[t['nullText'] if v is None else val.value_string(v) for v in row] for row in t['rows']],
                                      'lineEnd': 'crlf', 'trailing': True} for t in tabs])):
        buf = io.StringIO(newline='')
        w = csv.writer(buf)
        w.writerow(t['header'])
        for row in t['rows']:
            w.writerow([t['nullText'] if v is None else val.value_string(v) for v in row])
        ctx.compare('csvtext-roundtrip', {'header': t['header'], 'what': 'writer model = csv.writer (excel dialect)'}, buf.getvalue(), r['text'])


def replay(witness):
    if witness['oracle'] != 'csv-text-roundtrip':
        return None
    inp = witness['input']
    with utc_zone():
        imp = impl_parse([inp['text']])
    got = [d['row'] for d in imp['rows']] if 'rows' in imp else imp
    return got != witness['expected'] or imp.get('header') != inp['header']
