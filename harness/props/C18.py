"""C18 - lint is pure, never fails, and its warnings are semantically justified.

Streams (model `Lint.lintScript` vs `model.lint_script`, exact list equality of the warning texts):
  lint-corpus      hand-picked nasty models (harness/corpus/C18.jsonl), run first
  lint-structured  grammar-directed random BareScript source parsed by the real `parse_script`
  lint-jump        random hand-built jump-level models (schema-validated) with user labels, duplicate labels, dangling
                   jumps, duplicate functions / arguments, unused labels, effect-free expression statements
  lint-flow-sites  read-site matrix: one function-local variable / argument x how it is bound x the ONE syntactic site that
                   reads it x the expression context of the read x textual order; every read reaches a sink (log, global,
                   result), so a wrong 'unused' verdict for it changes a run (quick: all pairs + sample, thorough: full product)
  lint-flow-random random data-flow functions: small variable pools with per-variable read profiles (never read / only in
                   own updates / only in conditions / only as callee / ...), reads routed through sinks
  lint-names       hostile names (the schema's own member / type names whole and as substrings, host-language attribute names,
                   empty / blank / numeric / very long / non-ASCII names, message fragments) at every name position of a
                   small script: labels, jump targets, variables, function names, callees, parameters, include urls
  lint-names-random  programs of the other generators with their names consistently replaced by hostile spellings
  lint-unicode-names names over the non-ASCII part of \\w (superscript / circled / other No digits, non-digit numerics, Nd digits of
                   other scripts, special letters, letters with combining marks) x placement in the name (end, after / before an
                   ASCII digit, run, middle, start, whole) x name position; hand-built and as source text through parse_script
  lint-scale       SCALE axis n = 0 .. 300 (thorough: .. 1001) on the number of labels / jumps / redefinitions / pointless statements /
                   variables / parameters / functions (and so of warnings) of one model, each ending in a tail whose exact-kind
                   warnings come last; names numbered in ASCII and non-ASCII digit styles
  lint-lazy-operands  ONE expression statement built from the lazy constructs (if with 0-5 operands, &&, ||, one nested in every operand
                   of another) x the operand position(s) holding a call x kind of call x expression context x scope, executed under
                   every truth assignment of its call-free tests / left operands (each operand position is the evaluated one in
                   some pass of the run); tests as variables and as literals of every spelling
  lint-shipped     every shipped include/*.bare
  lint-nested      jump-level models with function statements nested in function bodies (known finding F19)
  lint-optional-members  every presence combination of the schema's optional members (flag without args, flags present and false,
                   calls without / with empty args, return / jump without expression, include system false), hand-built and parsed
  lint-noop-lookalikes   statements that look removable and are not: self-assignments by binding state of the name, calls of
                   side-effect-free library functions whose name the script re-binds, dead stores, jumps to the next statement
  lint-shared-nodes      (host-only) programs with twin functions linted as object graphs with shared nodes (one expression / statement /
                   list object referenced from several scopes) and in other host representations of the same value
  lint-history     (host-only) episodes on long-lived model objects: re-lint, lint after in-place modification, after failing calls,
                   after the caller modified the returned list; every value again in fresh interpreters with other hash seeds
  (every stream lints its cases also in one of the host representations REPRS, in turn)

Oracles run on the real implementation for every case (independent of the Lean model):
  lint-raises / lint-impure          lint never raises on a schema-valid model, does not modify it, twice = same list
  exact:<kind>                       unknown / unused / redefined labels, redefined functions, duplicate arguments are
                                     re-computed from the model by their set-theoretic definition and compared
  semantic:<edit>                    for each reported unused variable / argument the name is replaced by a fresh one,
                                     for each unused label / pointless statement the statement is deleted; the script is
                                     executed before and after (fixed globals, log capture, statement budget) and result /
                                     error, log and final globals must agree
  runtime:unknown-jump               taking a jump to a reported unknown label raises 'Unknown jump label', and a run that
                                     raises it names a label that lint reported
  lint-representation                the same model value as another object graph (shared nodes, dict / list / str / float subclasses,
                                     read-only containers, other member order, OrderedDict) gets the same warnings; lint-raises /
                                     lint-impure / exact:* / semantic:* are applied to what lint says about that representation
                                     (witness input carries 'repr'; realise() rebuilds it deterministically)
  lint-history                       a lint of a long-lived object equals the lint of a fresh copy of its current value
  lint-fresh-process                 ... and the lint of the same value in a fresh interpreter process (PYTHONHASHSEED 0 / 4242)
"""

import copy
import glob
import json
import os
import re
import sys
from fractions import Fraction

import fw

ID = 'C18'
LEVEL = 'proof'
LEAN_TARGETS = ['BareProofs.C18', 'BareProofs.C18Sem']
DRIVER = 'drv_c18'
DRIVER_ROOT = 'Drv.C18'
GEN = []
THEOREMS = [
    'C18.lint_total_pure',
    'C18.unknown_label_exact', 'C18.unknown_label_mem_lint',
    'C18.unknown_label_iff_findLabel_none', 'C18.jump_reported_iff_findLabel_none',
    'C18.findLabel_some', 'C18.findLabel_none', 'C18.lastJump_spec',
    'C18.unused_label_exact', 'C18.unused_label_mem_lint',
    'C18.redefinition_exact_labels', 'C18.redefinition_exact_functions', 'C18.redefinition_exact_args',
    'C18.redefined_iff_defined_twice',
    'C18.pointless_exact', 'C18.lint_function_block', 'C18.mem_lint_scoped',
    # semantic half (BareProofs/C18Sem.lean): acting on a warning preserves every run
    'C18.evalExpr_pointless', 'C18.evalExpr_sim', 'C18.runTree_sim', 'C18.exec_step_sim',
    'C18.delete_sim', 'C18.delete_sim_call', 'C18.delete_sim_count', 'C18.delete_runs', 'C18.delete_runs_budget',
    'C18.delete_skippable_runs',
    'C18.delete_unused_label', 'C18.delete_unused_label_findLabel', 'C18.delete_unused_label_fn',
    'C18.delete_pointless_stmt', 'C18.delete_pointless_stmt_fn',
    'C18.rename_sim', 'C18.rename_unused_local', 'C18.rename_unused_arg',
    'C18.runsTo_mirror', 'C18.rename_unused_local_mirror', 'C18.rename_unused_arg_mirror',
    'C18.unused_variable_exact', 'C18.unused_argument_exact',
    'C18.lint_unused_label_sound', 'C18.lint_pointless_sound', 'C18.lint_delete_sound_budget',
    'C18.lint_unused_variable_sound', 'C18.lint_unused_argument_sound',
    'C18.Tiny.delete_changes_count_only', 'C18.Tiny.delete_budget_counterexample',
    'C18.Tiny.rename_read_target_counterexample',
]
ASSUMPTIONS = [
    'Python str order (sorted) = code-point lexicographic order = Lean String order on the rendered names (tied by the correspondence, '
    'which includes non-ASCII and mixed-case label names)',
    'The semantic theorems (renaming / deleting preserves every run) are not part of this module yet: they are stated over '
    'Machine.execM and are carried here by the before/after execution oracle on the real interpreter',
    'Semantic oracle runs use a statement budget; deletions are compared only for runs in which the budget is not the deciding factor',
]
TRUSTED = [
    'BareModel/SyntaxJson.lean (JSON -> Stmt decoding in the driver) and canon_script in harness/props/C18.py',
]

CORPUS = os.path.join(fw.VERIF, 'harness', 'corpus', 'C18.jsonl')
BUDGET = 300          # maxStatements of a semantic run
FRESH = 'zzFresh'     # prefix of fresh names (never generated)


# ---------------------------------------------------------------------------------------------------------------------
# canonical protocol form
# ---------------------------------------------------------------------------------------------------------------------

def canon_expr(e):
    """Implementation expression model -> protocol form (numbers as exact [num, den])."""
    (k, v), = e.items()
    if k == 'number':
        fr = Fraction(v)
        return {'number': [fr.numerator, fr.denominator]}
    if k in ('string', 'variable'):
        return {k: v}
    if k == 'group':
        return {'group': canon_expr(v)}
    if k == 'unary':
        return {'unary': {'expr': canon_expr(v['expr']), 'op': v['op']}}
    if k == 'binary':
        return {'binary': {'left': canon_expr(v['left']), 'op': v['op'], 'right': canon_expr(v['right'])}}
    if k == 'function':
        d = {'name': v['name']}
        if 'args' in v:
            d['args'] = [canon_expr(a) for a in v['args']]
        return {'function': d}
    raise ValueError(k)


def canon_stmt(s):
    (k, v), = s.items()
    if k == 'expr':
        d = {'expr': canon_expr(v['expr'])}
        if 'name' in v:
            d['name'] = v['name']
        return {'expr': d}
    if k == 'jump':
        d = {'label': v['label']}
        if 'expr' in v:
            d['expr'] = canon_expr(v['expr'])
        return {'jump': d}
    if k == 'return':
        return {'return': {'expr': canon_expr(v['expr'])} if 'expr' in v else {}}
    if k == 'label':
        return {'label': v}
    if k == 'function':
        d = {'name': v['name'], 'statements': [canon_stmt(x) for x in v['statements']]}
        for opt in ('args', 'async', 'lastArgArray'):
            if opt in v:
                d[opt] = v[opt]
        return {'function': d}
    if k == 'include':
        return {'include': {'includes': [dict(i) for i in v['includes']]}}
    raise ValueError(k)


def canon_script(model):
    """Implementation script model -> protocol form accepted by Syntax.scriptOfJson."""
    return {'statements': [canon_stmt(s) for s in model['statements']]}


# ---------------------------------------------------------------------------------------------------------------------
# reading the implementation's warnings back (the harness only ever *interprets* texts the implementation produced)
# ---------------------------------------------------------------------------------------------------------------------

N = r'"((?:[^"]|"(?! ))*)"'   # a quoted name (generated names never contain a quote)
PATTERNS = [
    ('empty', re.compile(r'^Empty script$')),
    ('uba-global', re.compile(r'^Global variable ' + N + r' used \(index (\d+)\) before assignment \(index (\d+)\)$')),
    ('uba-fn', re.compile(r'^Variable ' + N + ' of function ' + N + r' used \(index (\d+)\) before assignment \(index (\d+)\)$')),
    ('redef-fn', re.compile(r'^Redefinition of function ' + N + r' \(index (\d+)\)$')),
    ('unused-var', re.compile(r'^Unused variable ' + N + ' defined in function ' + N + r' \(index (\d+)\)$')),
    ('dup-arg', re.compile(r'^Duplicate argument ' + N + ' of function ' + N + r' \(index (\d+)\)$')),
    ('unused-arg', re.compile(r'^Unused argument ' + N + ' of function ' + N + r' \(index (\d+)\)$')),
    ('pointless-fn', re.compile(r'^Pointless statement in function ' + N + r' \(index (\d+)\)$')),
    ('pointless-global', re.compile(r'^Pointless global statement \(index (\d+)\)$')),
    ('redef-label-fn', re.compile(r'^Redefinition of label ' + N + ' in function ' + N + r' \(index (\d+)\)$')),
    ('redef-label-global', re.compile(r'^Redefinition of global label ' + N + r' \(index (\d+)\)$')),
    ('unused-label-fn', re.compile(r'^Unused label ' + N + ' in function ' + N + r' \(index (\d+)\)$')),
    ('unused-label-global', re.compile(r'^Unused global label ' + N + r' \(index (\d+)\)$')),
    ('unknown-label-fn', re.compile(r'^Unknown label ' + N + ' in function ' + N + r' \(index (\d+)\)$')),
    ('unknown-label-global', re.compile(r'^Unknown global label ' + N + r' \(index (\d+)\)$')),
]


def parse_warnings(model, warnings):
    """-> list of dicts {kind, scope (None = global | index of the top-level function statement), name?, index?}.

    Function-scoped warnings name the function, not its statement; the block of the k-th definition of a name starts with
    'Redefinition of function "<name>" (index k)', which is what attributes a warning to its statement.
    """
    first = {}
    for ix, st in enumerate(model['statements']):
        if 'function' in st:
            first.setdefault(st['function']['name'], ix)
    cur = dict(first)
    out = []
    for w in warnings:
        for kind, rx in PATTERNS:
            m = rx.match(w)
            if not m:
                continue
            g = m.groups()
            if kind == 'empty':
                out.append({'kind': kind, 'scope': None})
            elif kind == 'uba-global':
                out.append({'kind': 'uba', 'scope': None, 'name': g[0]})
            elif kind == 'uba-fn':
                out.append({'kind': 'uba', 'scope': cur.get(g[1]), 'name': g[0]})
            elif kind == 'redef-fn':
                cur[g[0]] = int(g[1])
                out.append({'kind': 'redef-fn', 'scope': None, 'name': g[0], 'index': int(g[1])})
            elif kind in ('pointless-global', ):
                out.append({'kind': 'pointless', 'scope': None, 'index': int(g[0])})
            elif kind == 'pointless-fn':
                out.append({'kind': 'pointless', 'scope': cur.get(g[0]), 'index': int(g[1])})
            elif kind.endswith('-global'):
                out.append({'kind': kind[:-len('-global')], 'scope': None, 'name': g[0], 'index': int(g[1])})
            elif kind.endswith('-fn'):
                out.append({'kind': kind[:-len('-fn')], 'scope': cur.get(g[1]), 'name': g[0], 'index': int(g[2])})
            else:  # unused-var, dup-arg, unused-arg
                out.append({'kind': kind, 'scope': cur.get(g[1]), 'name': g[0], 'index': int(g[2])})
            break
        else:
            out.append({'kind': 'UNRECOGNISED', 'scope': None, 'text': w})
    return out


# ---------------------------------------------------------------------------------------------------------------------
# reference computation of the exactness part of the property (written from the statement, not from the code)
# ---------------------------------------------------------------------------------------------------------------------

def scopes_of(model, nested):
    """[(scope id, statements)]: scope id None = global, int = index of a top-level function statement,
    tuple = path of a nested function (only with nested=True)."""
    out = [(None, model['statements'])]

    def walk(path, stmts):
        for ix, st in enumerate(stmts):
            if 'function' in st:
                p = path + (ix,)
                out.append((p[0] if len(p) == 1 else p, st['function']['statements']))
                if nested:
                    walk(p, st['function']['statements'])
    if nested:
        walk((), model['statements'])
    else:
        for ix, st in enumerate(model['statements']):
            if 'function' in st:
                out.append((ix, st['function']['statements']))
    return out


def functions_of(model, nested):
    """[(scope id of the defining list, index in it, function dict)]"""
    out = []

    def walk(scope, path, stmts):
        for ix, st in enumerate(stmts):
            if 'function' in st:
                out.append((scope, ix, st['function']))
                if nested:
                    p = path + (ix,)
                    walk(p[0] if len(p) == 1 else p, p, st['function']['statements'])
    walk(None, (), model['statements'])
    return out


def skey(x):
    return json.dumps(x, sort_keys=True)


def expected_sets(model, nested):
    exp = {'unknown-label': [], 'unused-label': [], 'redef-label': [], 'redef-fn': [], 'dup-arg': []}
    for sid, stmts in scopes_of(model, nested):
        defs = [(ix, s['label']) for ix, s in enumerate(stmts) if 'label' in s]
        jumps = [(ix, s['jump']['label']) for ix, s in enumerate(stmts) if 'jump' in s]
        defined = {l for _, l in defs}
        targeted = {l for _, l in jumps}
        for l in targeted - defined:
            exp['unknown-label'].append([sid, l])
        for l in defined - targeted:
            exp['unused-label'].append([sid, l])
        seen = set()
        for ix, l in defs:
            if l in seen:
                exp['redef-label'].append([sid, l, ix])
            seen.add(l)
    by_list = {}
    for sid, ix, fn in functions_of(model, nested):
        seen = by_list.setdefault(skey(sid), set())
        if fn['name'] in seen:
            exp['redef-fn'].append([sid, fn['name'], ix])
        seen.add(fn['name'])
        fsid = ix if sid is None else ((sid,) if isinstance(sid, int) else tuple(sid)) + (ix,)
        args = fn.get('args') or []
        for pos, a in enumerate(args):
            if a in args[:pos]:
                exp['dup-arg'].append([fsid, a])
    return {k: sorted(v, key=skey) for k, v in exp.items()}


def actual_sets(parsed):
    act = {'unknown-label': [], 'unused-label': [], 'redef-label': [], 'redef-fn': [], 'dup-arg': []}
    for w in parsed:
        k = w['kind']
        if k in ('unknown-label', 'unused-label'):
            act[k].append([w['scope'], w['name']])
        elif k == 'redef-label':
            act[k].append([w['scope'], w['name'], w['index']])
        elif k == 'redef-fn':
            act[k].append([None, w['name'], w['index']])
        elif k == 'dup-arg':
            act[k].append([w['index'], w['name']])
    return {k: sorted(v, key=skey) for k, v in act.items()}


def jsonable(x):
    return json.loads(json.dumps(x))


def has_nested_function(model):
    return any('function' in s2 for s in model['statements'] if 'function' in s for s2 in s['function']['statements'])


# ---------------------------------------------------------------------------------------------------------------------
# executing a model on the real interpreter
# ---------------------------------------------------------------------------------------------------------------------

INCLUDE_TEXT = "gInc = 7\nsystemLog('inc')\n"


def fixed_globals():
    return {'ga': 1.0, 'gb': 2.5, 'gc': None, 'gd': True, 'garr': [1.0, 2.0, 3.0], 'cnt': 0.0, 'x': 0.0, 'a': 0.0}


def canon_value(v, depth=0):
    if depth > 6:
        return '<deep>'
    if v is None or isinstance(v, (bool, str)):
        return v
    if isinstance(v, (int, float)):
        return ['num', repr(v)]
    if isinstance(v, list):
        return [canon_value(x, depth + 1) for x in v]
    if isinstance(v, dict):
        return {'obj': sorted((k, canon_value(x, depth + 1)) for k, x in v.items())}
    if callable(v):
        fn = getattr(v, 'args', None)
        if fn and isinstance(fn[0], dict) and 'name' in fn[0]:
            return 'scriptfn:' + fn[0]['name']
        return 'libfn:' + getattr(v, '__name__', '?')
    return 'other:' + type(v).__name__


def run_model(model, budget):
    """-> {'outcome': [...], 'log': [...], 'globals': {...}, 'exceeded': bool, 'unknown_jump': label or None}"""
    rt = fw.impl()['runtime']
    log = []
    options = {'globals': fixed_globals(), 'logFn': log.append, 'maxStatements': budget,
               'fetchFn': lambda req: INCLUDE_TEXT}
    old = sys.getrecursionlimit()
    sys.setrecursionlimit(max(old, 12000))
    exceeded = False
    unknown_jump = None
    try:
        outcome = ['ok', canon_value(rt.execute_script(model, options))]
    except rt.BareScriptRuntimeError as exc:
        msg = str(exc)
        exceeded = msg.startswith('Exceeded maximum script statements')
        m = re.match(r'^Unknown jump label "(.*)"$', msg, re.S)
        if m:
            unknown_jump = m.group(1)
        outcome = ['error', msg]
    except Exception as exc:  # pylint: disable=broad-except
        outcome = ['host', type(exc).__name__]
    finally:
        sys.setrecursionlimit(old)
    lib = fw.impl()['library'].SCRIPT_FUNCTIONS
    glob_ = {k: canon_value(v) for k, v in options['globals'].items() if not (k in lib and v is lib[k])}
    return {'outcome': outcome, 'log': log, 'globals': glob_, 'exceeded': exceeded, 'unknown_jump': unknown_jump}


def same_run(a, b):
    return a['outcome'] == b['outcome'] and a['log'] == b['log'] and a['globals'] == b['globals']


def scope_statements(model, scope):
    return model['statements'] if scope is None else model['statements'][scope]['function']['statements']


def all_names(model):
    return json.dumps(model)


def fresh_name(model, n=0):
    text = all_names(model)
    while f'{FRESH}{n}' in text:
        n += 1
    return f'{FRESH}{n}'


def fast_copy(model):
    return json.loads(json.dumps(model))


def apply_edit(model, w):
    """The edit a warning suggests -> (edited model, needs_budget_care) or None if the warning suggests none."""
    m = fast_copy(model)
    kind = w['kind']
    if kind in ('unused-var', 'unused-arg') and w['scope'] is not None:
        fn = m['statements'][w['scope']]['function']
        new = fresh_name(model)
        if kind == 'unused-var':
            hit = False
            for st in fn['statements']:
                if 'expr' in st and st['expr'].get('name') == w['name']:
                    st['expr']['name'] = new
                    hit = True
            return (m, False) if hit else None
        if w['name'] not in fn.get('args', []):
            return None
        fn['args'] = [new if a == w['name'] else a for a in fn['args']]
        return m, False
    if kind in ('unused-label', 'pointless') and (w['scope'] is None or isinstance(w['scope'], int)):
        stmts = scope_statements(m, w['scope'])
        ix = w['index']
        if ix >= len(stmts):
            return None
        st = stmts[ix]
        if kind == 'unused-label' and st.get('label') != w['name']:
            return None
        # 'pointless': whatever statement stands at the reported index is deleted (the property speaks of "a reported pointless
        # statement", not of its syntactic form: an assignment, jump or return that is reported must be deletable too)
        del stmts[ix]
        return m, True
    return None


def semantic_check(model, w, report, stats):
    ed = apply_edit(model, w)
    name = 'semantic:' + w['kind']
    if ed is None:
        if w['kind'] in ('unused-var', 'unused-arg', 'unused-label', 'pointless'):
            report(name, {'model': model, 'warning': w}, 'the warning names something present in the model', 'nothing to edit')
        return
    edited, deletion = ed
    budget = run_budget(model)
    before = run_model(model, budget)
    after = run_model(edited, budget)
    stats['runs'] = stats.get('runs', 0) + 2
    if deletion:
        if before['exceeded'] and not after['exceeded']:
            before = run_model(model, budget * 50)   # the deleted statement alone may have cost the budget
        if before['exceeded'] and after['exceeded']:
            stats['budget-bound'] = stats.get('budget-bound', 0) + 1
            return
    if not same_run(before, after):
        report(name, {'model': model, 'warning': w, 'edited': edited},
               {k: before[k] for k in ('outcome', 'log', 'globals')}, {k: after[k] for k in ('outcome', 'log', 'globals')})
    else:
        stats['semantic-ok'] = stats.get('semantic-ok', 0) + 1
        if before['log'] or before['outcome'] != ['ok', None]:
            stats['semantic-observable'] = stats.get('semantic-observable', 0) + 1


def unknown_jump_check(model, w, report):
    """Taking the reported jump raises 'Unknown jump label': jump straight to (an unconditional copy of) it."""
    scope = w['scope']
    if not (scope is None or isinstance(scope, int)):
        return
    m = fast_copy(model)
    stmts = scope_statements(m, scope)
    ix = w['index']
    if ix >= len(stmts) or 'jump' not in stmts[ix] or stmts[ix]['jump']['label'] != w['name']:
        report('runtime:unknown-jump', {'model': model, 'warning': w}, 'index of a jump to the reported label', 'no such jump')
        return
    tramp = fresh_name(model)
    stmts[ix] = {'jump': {'label': w['name']}}
    stmts.insert(ix, {'label': tramp})
    stmts.insert(0, {'jump': {'label': tramp}})
    if scope is not None:
        fn = m['statements'][scope]['function']
        fn['name'] = tramp + 'Fn'      # the probe calls the body under a fresh name (a function named `if` is shadowed by the builtin)
        m = {'statements': [m['statements'][scope], {'expr': {'expr': {'function': {'name': fn['name'], 'args': []}}}}]}
    else:
        m = {'statements': stmts}
    res = run_model(m, BUDGET)
    want = ['error', f'Unknown jump label "{w["name"]}"']
    if res['outcome'] != want:
        report('runtime:unknown-jump', {'model': model, 'warning': w, 'probe': m}, want, res['outcome'])


# ---------------------------------------------------------------------------------------------------------------------
# all implementation-side oracles for one model
# ---------------------------------------------------------------------------------------------------------------------

def judge_warnings(model, warnings, report, stats, semantic_cap, only=None, spread=False):
    """Exactness + semantic oracles for one warning list that lint produced for (an object equal to) the tree `model`.
    `only`: restrict the semantic oracles to these warning texts (used for the extra warnings of a representation).
    `spread`: the (at most semantic_cap) warnings of a kind that go through the semantic oracles are the first, the last and
    evenly spaced ones between them instead of the first ones (models with hundreds of warnings of one kind)."""
    parsed = parse_warnings(model, warnings)
    nested = has_nested_function(model)
    # exactness of the label / redefinition warnings
    act = actual_sets(parsed)
    exp = jsonable(expected_sets(model, nested=True))
    flat = jsonable(expected_sets(model, nested=False)) if nested else exp
    act = jsonable(act)
    for kind in exp:
        if exp[kind] != act[kind]:
            report('exact:' + kind, {'model': model}, exp[kind], act[kind], flat_expected=flat[kind], nested=nested)
    # every warning is one of the justified kinds
    for w in parsed:
        if w['kind'] == 'UNRECOGNISED':
            stats['unrecognised'] = stats.get('unrecognised', 0) + 1

    # semantic justification on the real interpreter
    done = {}
    chosen = None
    if spread:
        by_kind = {}
        for pos, w in enumerate(parsed):
            by_kind.setdefault(w['kind'], []).append(pos)
        chosen = set()
        for positions in by_kind.values():
            m = len(positions)
            picks = range(m) if m <= semantic_cap else sorted({round(j * (m - 1) / (semantic_cap - 1)) for j in range(semantic_cap)} if semantic_cap > 1 else {m - 1})
            chosen.update(positions[j] for j in picks)
    for pos, (text, w) in enumerate(zip(warnings, parsed)):
        if only is not None and text not in only:
            continue
        if chosen is not None and pos not in chosen:
            continue
        k = w['kind']
        if k in ('unused-var', 'unused-arg', 'unused-label', 'pointless'):
            if done.get(k, 0) < semantic_cap:
                done[k] = done.get(k, 0) + 1
                semantic_check(model, w, report, stats)
        elif k == 'unknown-label':
            if done.get(k, 0) < semantic_cap:
                done[k] = done.get(k, 0) + 1
                unknown_jump_check(model, w, report)
    return parsed, nested


def check_model(model, report, stats, semantic_cap=8, reprs=(), spread=False):
    """Runs every oracle on the real implementation. -> the warning list (or {'error': ...}).

    `model` is linted as the object it is; `reprs` names further host representations of the SAME model value (REPRS: shared
    nodes, dict / list / str subclasses, read-only containers, other key orders) that are built from it and linted too."""
    impl_model = fw.impl()['model']
    snapshot = fast_copy(model)
    snap_text = json.dumps(model)
    try:
        warnings = impl_model.lint_script(model)
        again = impl_model.lint_script(model)
    except Exception as exc:  # pylint: disable=broad-except
        report('lint-raises', {'model': snapshot}, 'a list of warnings', f'{type(exc).__name__}: {exc}')
        return {'error': type(exc).__name__}
    if model != snapshot or json.dumps(model) != snap_text:
        report('lint-impure', {'model': snapshot}, 'model unchanged', jsonable(model))
        model = snapshot
    if warnings != again or not isinstance(warnings, list) or not all(isinstance(w, str) for w in warnings):
        report('lint-impure', {'model': snapshot}, warnings, again)
        return warnings

    parsed, nested = judge_warnings(model, warnings, report, stats, semantic_cap, spread=spread)
    # a run that raises 'Unknown jump label' names a reported label
    base = run_model(model, run_budget(model))
    stats['runs'] = stats.get('runs', 0) + 1
    if base['unknown_jump'] is not None:
        stats['unknown-jump-raised'] = stats.get('unknown-jump-raised', 0) + 1
        warned = {w['name'] for w in parsed if w['kind'] == 'unknown-label'}
        if base['unknown_jump'] not in warned:
            report('runtime:unknown-jump', {'model': model}, f'a warning for label {base["unknown_jump"]!r}', sorted(warned),
                   nested=nested)
    for kind in reprs:
        check_representation(snapshot, warnings, kind, report, stats, max(semantic_cap, 8))
    return warnings


# ---------------------------------------------------------------------------------------------------------------------
# host representations of one model value
#
# Every generator builds a fresh JSON-like tree (and the oracles work on json round-trips of it), so lint only ever saw plain
# dict / list / str / float objects, each referenced exactly once.  A host builds models programmatically: one expression
# object is re-used wherever the same expression is needed (the parser does it for the test of a while-do loop), two functions
# share a statement list, containers are dict / list subclasses or read-only views, names are str subclasses, dict members
# arrive in another order.  All of these are THE SAME schema-valid model; the warnings must be the same and justified.
# `realise(tree, kind)` is deterministic, so a witness {'model': tree, 'repr': kind} replays.
# ---------------------------------------------------------------------------------------------------------------------

class ModelMutated(Exception):
    """lint tried to modify a read-only model"""


class DictSub(dict):
    pass


class ListSub(list):
    pass


class StrSub(str):
    pass


class FloatSub(float):
    pass


def _refuse(self, *args, **kwargs):
    raise ModelMutated('lint_script modified the model (%s)' % type(self).__name__)


class FrozenDict(dict):
    __setitem__ = __delitem__ = pop = popitem = clear = update = setdefault = __ior__ = _refuse


class FrozenList(list):
    __setitem__ = __delitem__ = append = extend = insert = pop = remove = clear = sort = reverse = __iadd__ = __imul__ = _refuse


REPRS = ['share-expr', 'share-all', 'subclass', 'frozen', 'reversed-keys', 'sorted-keys', 'ordered']


def is_compound_expr(d):
    if not isinstance(d, dict) or len(d) != 1:
        return False
    (k, v), = d.items()
    return k in ('binary', 'unary', 'group') or (k == 'function' and isinstance(v, dict) and 'statements' not in v)


def realise(tree, kind):
    """A fresh object graph with the value of `tree` in the host representation `kind`."""
    import collections
    if kind in ('share-expr', 'share-all'):
        # hash-consing: structurally equal nodes become ONE object, wherever they occur (share-expr: the compound expression
        # nodes only; share-all: every dict and list - leaf expressions, statements, statement / argument lists, function bodies)
        memo = {}       # structure key -> (structure number, the one object)
        everything = kind == 'share-all'

        def build(x):
            # -> (object, structure number): equal numbers <=> structurally equal values
            if isinstance(x, dict):
                parts = [(k, build(v)) for k, v in x.items()]
                key = ('d',) + tuple(sorted((k, num) for k, (_, num) in parts))
                share = everything or is_compound_expr(x)
            elif isinstance(x, list):
                parts = [build(v) for v in x]
                key = ('l',) + tuple(num for _, num in parts)
                share = everything
            else:
                key = (type(x).__name__, x)
                hit = memo.get(key)
                if hit is None:
                    hit = memo[key] = (len(memo), x)
                return x, hit[0]
            hit = memo.get(key)
            if hit is not None and share:
                return hit[1], hit[0]
            obj = {k: o for k, (o, _) in parts} if isinstance(x, dict) else [o for o, _ in parts]
            if hit is None:
                hit = memo[key] = (len(memo), obj)
            return obj, hit[0]
        return build(tree)[0]

    def conv(x):
        if isinstance(x, dict):
            items = [(k, conv(v)) for k, v in x.items()]
            if kind == 'reversed-keys':
                return dict(reversed(items))
            if kind == 'sorted-keys':
                return dict(sorted(items, key=lambda p: p[0]))
            if kind == 'ordered':
                return collections.OrderedDict(items)
            return (DictSub if kind == 'subclass' else FrozenDict)(items)
        if isinstance(x, list):
            vals = [conv(v) for v in x]
            return vals if kind in ('reversed-keys', 'sorted-keys', 'ordered') else (ListSub if kind == 'subclass' else FrozenList)(vals)
        if kind == 'subclass' and isinstance(x, str):
            return StrSub(x)
        if kind == 'subclass' and isinstance(x, float):
            return FloatSub(x)
        return x
    return conv(tree)


def representation_valid(obj):
    """Does the implementation's own validator accept this very object as a script model?"""
    try:
        fw.impl()['model'].validate_script(obj)
        return True
    except Exception:  # pylint: disable=broad-except
        return False


def check_representation(tree, tree_warnings, kind, report, stats, semantic_cap=8):
    """Lint the model in another host representation: no exception, not modified, the warnings of the plain tree; warnings that
    only this representation gets are also put to the semantic oracles (rename / delete and run)."""
    impl_model = fw.impl()['model']
    obj = realise(tree, kind)
    stats['repr:' + kind] = stats.get('repr:' + kind, 0) + 1

    def rreport(oracle, input_, expected, actual, **extra):
        if not representation_valid(realise(tree, kind)):
            stats['repr-not-schema-valid:' + kind] = stats.get('repr-not-schema-valid:' + kind, 0) + 1
            return
        report(oracle, dict(input_, repr=kind), expected, actual, **extra)
    try:
        got = impl_model.lint_script(obj)
        again = impl_model.lint_script(obj)
    except ModelMutated as exc:
        rreport('lint-impure', {'model': tree}, 'model unchanged', str(exc))
        return
    except Exception as exc:  # pylint: disable=broad-except
        rreport('lint-raises', {'model': tree}, 'a list of warnings', f'{type(exc).__name__}: {exc}')
        return
    if obj != tree:
        rreport('lint-impure', {'model': tree}, 'model unchanged', jsonable(obj))
        return
    if got != again:
        rreport('lint-impure', {'model': tree}, got, again)
        return
    if got != tree_warnings:
        rreport('lint-representation', {'model': tree}, tree_warnings, got)
        extra = [w for w in got if w not in tree_warnings] if isinstance(got, list) else []
        if extra and all(isinstance(w, str) for w in got):
            judge_warnings(tree, got, rreport, stats, semantic_cap, only=set(extra))


# ---------------------------------------------------------------------------------------------------------------------
# generators
# ---------------------------------------------------------------------------------------------------------------------

GVARS = ['ga', 'gb', 'gc', 'gd', 'garr']
LVARS = ['a', 'b', 'c', 'x', 'y', 'tmp', 'cnt', 'u1', 'u2']
FUNCS = ['fnA', 'fnB', 'fnC', 'fnD']
LABELS = ['top', 'done', 'L1', 'skip', '__bareScriptDone0', '__bareScriptLoop0', '__bareScriptIf1']
CMP = ['<=', '<', '>=', '>', '==', '!=']
NUMS = ['0', '1', '2', '3', '0.5', '2.25', '10', '7']


class SrcGen:
    """Grammar-directed BareScript source."""

    def __init__(self, rng):
        self.rng = rng
        self.lines = []

    def var(self, scope_args):
        r = self.rng
        if r.random() < 0.06:
            return r.choice(FUNCS)          # a script function passed around as a value
        pool = LVARS + GVARS + list(scope_args)
        return r.choice(pool)

    def expr(self, args, depth=0, calls=True):
        r = self.rng
        k = r.random()
        if depth >= 3 or k < 0.25:
            return r.choice(NUMS) if r.random() < 0.45 else self.var(args)
        if k < 0.45:
            op = r.choice(['+', '-', '+', '-', '/', '%', '&&', '||'] + CMP)
            return f'{self.expr(args, depth + 1, calls)} {op} {self.expr(args, depth + 1, calls)}'
        if k < 0.52:
            return f'{self.expr(args, depth + 1, calls)} * {r.choice(NUMS)}'
        if k < 0.55:
            return f'{r.choice(NUMS)} ** {r.choice(["0", "1", "2", "0.5"])}'
        if k < 0.62:
            return f'{self.var(args)} == \'{r.choice(["s", "", "a b"])}\''
        if k < 0.70:
            return f'{r.choice(["!", "-"])}{self.var(args)}'
        if k < 0.78:
            return f'({self.expr(args, depth + 1, calls)})'
        if not calls:
            return self.var(args)
        if k < 0.90:
            n = r.randint(0, 2)
            callee = r.choice(FUNCS) if r.random() < 0.8 else r.choice(['cb', 'tmp', 'cnt'] + [a for a in args if len(a) > 1])
            return f'{callee}({", ".join(self.expr(args, depth + 1) for _ in range(n))})'
        if k < 0.94:
            return f'if({self.expr(args, depth + 1)}, {self.expr(args, depth + 1)}, {self.expr(args, depth + 1)})'
        if k < 0.97:
            return f'arrayGet(garr, {r.choice(["0", "1", "2", "5"])})'
        return f'arrayNew({", ".join(r.choice(NUMS) for _ in range(r.randint(0, 3)))})'

    def block(self, args, depth, in_loop, in_fn, n):
        for _ in range(n):
            self.stmt(args, depth, in_loop, in_fn)

    def stmt(self, args, depth, in_loop, in_fn):
        r = self.rng
        k = r.random()
        ind = '    ' * depth
        if k < 0.30:
            self.lines.append(f'{ind}{self.var(args)} = {self.expr(args)}')
        elif k < 0.40:
            self.lines.append(f'{ind}systemLog({self.expr(args) if r.random() < 0.8 else repr(r.choice(["hi", "x y"]))})')
        elif k < 0.46:
            self.lines.append(f'{ind}{r.choice(FUNCS)}({", ".join(self.expr(args, 1) for _ in range(r.randint(0, 2)))})')
        elif k < 0.53:
            # an expression statement without effect (never starts with `name =`)
            e = self.expr(args, 1, calls=False)
            self.lines.append(f'{ind}({e})' if r.random() < 0.5 else f'{ind}{r.choice(NUMS)} + {e}')
        elif k < 0.56:
            self.lines.append(f'{ind}{self.var(args)}')
        elif k < 0.66 and depth < 3:
            self.lines.append(f'{ind}if {self.expr(args)}:')
            self.block(args, depth + 1, in_loop, in_fn, r.randint(0, 3))
            for _ in range(r.choice([0, 0, 1, 2])):
                self.lines.append(f'{ind}elif {self.expr(args)}:')
                self.block(args, depth + 1, in_loop, in_fn, r.randint(0, 2))
            if r.random() < 0.5:
                self.lines.append(f'{ind}else:')
                self.block(args, depth + 1, in_loop, in_fn, r.randint(0, 2))
            self.lines.append(f'{ind}endif')
        elif k < 0.72 and depth < 3:
            v = r.choice(['cnt', 'x', 'a'])
            self.lines.append(f'{ind}while {v} < {r.choice(["2", "3", "5"])}:')
            self.block(args, depth + 1, True, in_fn, r.randint(0, 3))
            if r.random() < 0.8:
                self.lines.append(f'{ind}    {v} = {v} + 1')
            self.lines.append(f'{ind}endwhile')
        elif k < 0.78 and depth < 3:
            head = r.choice(['v', 'x', 'u1']) + (', ' + r.choice(['i', 'u2']) if r.random() < 0.4 else '')
            self.lines.append(f'{ind}for {head} in {r.choice(["garr", "arrayNew(1, 2)", "a", "arrayNew()"])}:')
            self.block(args, depth + 1, True, in_fn, r.randint(0, 3))
            self.lines.append(f'{ind}endfor')
        elif k < 0.82 and in_loop:
            self.lines.append(ind + r.choice(['break', 'continue']))
        elif k < 0.87:
            self.lines.append(ind + ('return' if r.random() < 0.3 else f'return {self.expr(args)}'))
        elif k < 0.91:
            self.lines.append(f'{ind}{r.choice(LABELS)}:')
        elif k < 0.95:
            lab = r.choice(LABELS)
            self.lines.append(f'{ind}jump {lab}' if r.random() < 0.4 else f'{ind}jumpif ({self.expr(args)}) {lab}')
        else:
            self.lines.append(f'{ind}{self.var(args)} = {self.expr(args)}')

    def function(self):
        r = self.rng
        name = r.choice(FUNCS)
        nargs = r.choice([0, 1, 1, 2, 2, 3])
        args = [r.choice(['p', 'q', 'cb', 'a', 'x']) for _ in range(nargs)]
        dots = '...' if args and r.random() < 0.2 else ''
        pre = 'async ' if r.random() < 0.1 else ''
        self.lines.append(f'{pre}function {name}({", ".join(args)}{dots}):')
        self.block(args, 1, False, True, r.randint(0, 7))
        self.lines.append('endfunction')

    def script(self):
        r = self.rng
        defined = []
        for _ in range(r.randint(0, 9)):
            if r.random() < 0.3:
                self.function()
                defined.append(self.lines[-1] and [ln for ln in self.lines if ln.lstrip().startswith(('function ', 'async function '))][-1])
                # call the function right after its definition, so that its body is exercised by the semantic oracle
                if r.random() < 0.7:
                    name = defined[-1].split('function ')[1].split('(')[0]
                    args = ', '.join(r.choice(NUMS + ['garr', 'ga', 'fnB']) for _ in range(r.randint(0, 3)))
                    self.lines.append(f'systemLog({name}({args}))')
            else:
                self.stmt([], 0, False, False)
        return '\n'.join(self.lines) + '\n'


JLABELS = ['a', 'b', 'L', 'end', 'Z', '_x', 'é', 'loop1', 'loop10', 'loop2', '__bareScriptIf0', '__bareScriptIf00', 'a b']
JVARS = ['a', 'b', 'x', 'y', 'ga', 'gb', 'garr', 'u', 'tmp', 'fnA', 'null', 'true']
JARGS = ['p', 'q', 'a', 'x', 'rest']
JNUMS = [0.0, 1.0, 2.0, 3.0, 0.5, -1.0, 10.0]


class JumpGen:
    """Hand-built jump-level models."""

    def __init__(self, rng, nested=False):
        self.rng = rng
        self.nested = nested

    def expr(self, depth=0, calls=True):
        r = self.rng
        k = r.random()
        if depth >= 3 or k < 0.3:
            if r.random() < 0.4:
                return {'number': r.choice(JNUMS)}
            if r.random() < 0.06:
                return {'variable': r.choice(FUNCS)}
            return {'variable': r.choice(JVARS + JARGS)}
        if k < 0.5:
            op = r.choice(['+', '-', '/', '%', '&&', '||'] + CMP)
            return {'binary': {'op': op, 'left': self.expr(depth + 1, calls), 'right': self.expr(depth + 1, calls)}}
        if k < 0.55:
            return {'binary': {'op': '*', 'left': self.expr(depth + 1, calls), 'right': {'number': r.choice(JNUMS)}}}
        if k < 0.58:
            return {'binary': {'op': '**', 'left': {'number': r.choice(JNUMS)}, 'right': {'number': r.choice([0.0, 1.0, 2.0, 0.5])}}}
        if k < 0.63:
            return {'binary': {'op': r.choice(['==', '!=']), 'left': {'variable': r.choice(JVARS)}, 'right': {'string': r.choice(['s', ''])}}}
        if k < 0.72:
            return {'unary': {'op': r.choice(['!', '-']), 'expr': self.expr(depth + 1, calls)}}
        if k < 0.8:
            return {'group': self.expr(depth + 1, calls)}
        if not calls:
            return {'variable': r.choice(JVARS)}
        if k < 0.93:
            fn = {'name': r.choice(FUNCS + ['fnA', 'x', 'p', 'q', 'tmp'])}
            if r.random() < 0.85:
                fn['args'] = [self.expr(depth + 1) for _ in range(r.randint(0, 2))]
            return {'function': fn}
        if k < 0.97:
            return {'function': {'name': 'if', 'args': [self.expr(depth + 1) for _ in range(r.randint(0, 3))]}}
        return {'function': {'name': 'systemLog', 'args': [self.expr(depth + 1)]}}

    def statements(self, n, in_fn, depth=0):
        r = self.rng
        out = []
        for _ in range(n):
            k = r.random()
            if k < 0.22:
                out.append({'expr': {'name': r.choice(JVARS + JARGS), 'expr': self.expr()}})
            elif k < 0.27:
                out.append({'expr': {'expr': self.expr(1, calls=False)}})
            elif k < 0.32:
                # an unassigned expression that may hold calls anywhere (pointless only if it holds none)
                out.append({'expr': {'expr': self.expr(0, calls=True)}})
            elif k < 0.42:
                out.append({'expr': {'expr': {'function': {'name': r.choice(FUNCS + ['systemLog']), 'args': [self.expr(1)]}}}})
            elif k < 0.60:
                j = {'label': r.choice(JLABELS)}
                if r.random() < 0.7:
                    j['expr'] = self.expr(1)
                out.append({'jump': j})
            elif k < 0.78:
                out.append({'label': r.choice(JLABELS)})
            elif k < 0.84:
                out.append({'return': {'expr': self.expr()} if r.random() < 0.7 else {}})
            elif k < 0.86:
                inc = [{'url': r.choice(['x.bare', 'y/z.bare'])} for _ in range(r.randint(1, 2))]
                if r.random() < 0.3:
                    inc[0]['system'] = True
                out.append({'include': {'includes': inc}})
            elif (not in_fn) or (self.nested and depth < 2):
                fn = {'name': r.choice(FUNCS), 'statements': self.statements(r.randint(0, 8), True, depth + 1)}
                if r.random() < 0.8:
                    fn['args'] = [r.choice(JARGS) for _ in range(r.randint(1, 4))]
                    if r.random() < 0.2:
                        fn['lastArgArray'] = True
                if r.random() < 0.1:
                    fn['async'] = True
                out.append({'function': fn})
            else:
                out.append({'expr': {'name': r.choice(JVARS), 'expr': self.expr()}})
        return out

    def model(self):
        r = self.rng
        out = []
        for st in self.statements(r.randint(0, 12), False):
            out.append(st)
            if 'function' in st and r.random() < 0.6:
                # call the function right after its definition, so that its body is exercised by the semantic oracle
                args = [r.choice([{'number': 1.0}, {'number': 0.0}, {'variable': 'garr'}, {'variable': 'fnB'}]) for _ in range(r.randint(0, 3))]
                out.append({'expr': {'expr': {'function': {'name': 'systemLog', 'args': [
                    {'function': {'name': st['function']['name'], 'args': args}}]}}}})
        return {'statements': out}


# ---------------------------------------------------------------------------------------------------------------------
# data-flow programs: every read of a function-local variable / argument reaches an observable sink
#
# The grammar-directed generators above draw assignment targets and reads from one large pool and have almost no
# value-dependent effects inside expressions, so a variable whose value is *observably* read at exactly one kind of
# syntactic site (only in its own update, only in a loop condition, only as a callee, only deep inside a call argument ...)
# practically never occurs there.  That is the class a wrong 'Unused variable / argument' warning lives in: lint decides
# "used" purely from where reads occur.  The two families below make the read site the generated dimension and route
# every read into a sink (log line, global array, global variable, result, error), so that the rename oracle sees it.
# ---------------------------------------------------------------------------------------------------------------------

FLOW_HEAD = ['trace = arrayNew()',
             'function note(v):',                       # logs and records its argument, returns it
             '    arrayPush(trace, v)',
             "    systemLog('note ' + jsonStringify(v))",
             '    return v',
             'endfunction',
             'function twice(f, v):',                   # calls its first argument
             '    return f(f(v))',
             'endfunction']

# expression contexts around ONE read of the variable (each exercises another branch of the use scan)
FLOW_WRAPS = [
    ('bare', '{v}'), ('group', '({v})'), ('not', '!{v}'), ('neg', '-{v}'), ('bin-left', '{v} + 1'), ('bin-right', "'<' + {v}"),
    ('cmp', '{v} == 7'), ('and', '{v} && 1'), ('or', '0 || {v}'), ('if-cond', 'if({v}, 1, 2)'), ('if-value', 'if(true, {v}, 0)'),
    ('arg-2nd', 'arrayNew(0, {v})'), ('arg-nested', 'note({v})'), ('deep', '(1 + -(({v}) * 2))'), ('obj', "objectNew('k', {v})"),
    ('both-sides', '{v} + {v}'), ('user-arg', 'twice(note, {v})'),
]

# read sites ({V} the variable, {E} a wrapped read of it); every site makes the value read observable
FLOW_SITES = [
    ('self-update-call', ['{V} = note({E})']),
    ('self-update-chain', ['{V} = note({E})', '{V} = note({V})']),
    ('self-update-lib', ["{V} = systemGlobalSet('gOut', {E})"]),
    ('self-update-push', ['{V} = arrayPush(trace, {E})']),
    ('self-update-then-pure', ['{V} = note({E})', '{V} = {V} + 1']),
    ('other-assign', ['w = {E}', 'note(w)']),
    ('return', ['return {E}']),
    ('call-stmt', ['note({E})']),
    ('lib-stmt', ["systemGlobalSet('gOut', {E})"]),
    ('if-cond', ['if {E}:', "    note('then')", 'else:', "    note('else')", 'endif']),
    ('elif-cond', ['if gc:', "    note('then')", 'elif {E}:', "    note('elif')", 'else:', "    note('else')", 'endif']),
    ('while-cond', ['k = 0', 'while {E} && k < 2:', '    k = k + 1', '    note(k)', 'endwhile']),
    ('jumpif-cond', ['jumpif ({E}) flowSkip', "note('fall')", 'flowSkip:']),
    ('for-values', ['for e in arrayNew({E}, 0):', '    note(e)', 'endfor']),
]
# sites in which the variable holds a function and is read in callee position
FLOW_CALLEE_SITES = [
    ('callee-stmt', ["{V}('called')"]),
    ('callee-self-update', ["{V} = {V}('called')"]),
    ('callee-return', ["return {V}('called')"]),
    ('callee-nested', ["note(1 + {V}('called'))"]),
    ('callee-passed', ['twice({V}, 1)']),
]
# how the variable is bound: (kind, parameter list, actual arguments, binding lines, (loop header, footer) around the sites)
FLOW_BINDS = [
    ('local', '', '', ['{V} = {VAL}'], None),
    ('local-twice', '', '', ['{V} = 1', '{V} = {VAL}'], None),
    ('local-conditional', '', '', ['if ga:', '    {V} = {VAL}', 'endif'], None),
    ('arg', '{V}', '{VAL}', [], None),
    ('arg-2nd', 'p, {V}', '0, {VAL}', ['note(p)'], None),
    ('arg-reassigned', '{V}', '1', ['{V} = {VAL}'], None),
    ('arg-rest', 'p, {V}...', '0, {VAL}', ['note(p)'], None),
    ('for-value', '', '', [], ('for {V} in arrayNew({VAL}, {VAL}):', 'endfor')),
    ('for-index', '', '', [], ('for fe, {V} in arrayNew({VAL}, {VAL}):', 'endfor')),
]


def flow_program(vname, bind, site, wrap, loop_carried=False, callee=False):
    """One function `work` with the variable bound as `bind`, read once at `site` inside the expression context `wrap`, next
    to a variable that really is unused."""
    _, params, actuals, bind_lines, around = bind
    val = 'note' if callee else '7'
    sub = {'V': vname, 'VAL': val}
    sub['E'] = wrap[1].format(v=vname)
    site_lines = [ln.format(**sub) for ln in site[1]]
    bind_lines = [ln.format(**sub) for ln in bind_lines]
    body = ['spare = 99']
    if around:
        body += [around[0].format(**sub)] + ['    ' + ln for ln in site_lines] + [around[1]]
    elif loop_carried:
        # the read precedes the binding textually and is reached on the second turn of a loop
        body += ['turn = 0', 'while turn < 2:'] + ['    ' + ln for ln in site_lines + bind_lines] + ['    turn = turn + 1', 'endwhile']
    else:
        body += bind_lines + site_lines
    lines = FLOW_HEAD + [f'function work({params.format(**sub)}):'] + ['    ' + ln for ln in body] + ["    return 'end'", 'endfunction',
                                                                                                  f'systemLog(jsonStringify(work({actuals.format(**sub)})))']
    return '\n'.join(lines) + '\n'


def flow_matrix(rng, full):
    """(id, source) of the read-site matrix: variable name x binding x site x expression context x textual order.
    `full` = the whole product; otherwise all pairs with the third dimension at its default, plus a random sample of the rest."""
    names = ['cur', 'x']        # 'x' is also a global of the run: a renamed binding leaves the reads to the global
    out = []
    for vname in names:
        for bind in FLOW_BINDS:
            for site in FLOW_SITES:
                for wrap in FLOW_WRAPS:
                    for carried in (False, True):
                        if carried and not bind[0].startswith('local'):
                            continue
                        defaults = (vname == 'cur') + (bind[0] == 'local') + (site[0] == 'self-update-call') + (wrap[0] == 'bare') + (not carried)
                        if full or defaults >= 3 or rng.random() < 0.04:
                            out.append((f'flow:{vname}:{bind[0]}:{site[0]}:{wrap[0]}:{"carried" if carried else "after"}',
                                        flow_program(vname, bind, site, wrap, carried)))
            for site in FLOW_CALLEE_SITES:
                for carried in (False, True):
                    if bind[0] in ('arg-rest', 'for-index') or (carried and not bind[0].startswith('local')):
                        continue
                    out.append((f'flow:{vname}:{bind[0]}:{site[0]}:callee:{"carried" if carried else "after"}',
                                flow_program(vname, bind, site, ('callee', '{v}'), carried, callee=True)))
    return out


class FlowGen:
    """Random data-flow functions over a small variable pool.  Every variable has a *read profile*: the set of site kinds at
    which it may be read (often a single one, sometimes none); expressions are built from reads, sinks and calls."""

    KINDS = ['self', 'other', 'return', 'cond', 'stmt', 'callee']

    def __init__(self, rng):
        self.rng = rng
        self.label_n = 0

    def profile(self):
        r = self.rng
        k = r.random()
        if k < 0.12:
            return set()                                   # never read: lint must say so, renaming must not matter
        if k < 0.55:
            return {r.choice(self.KINDS[:5])}
        if k < 0.62:
            return {'callee'} | ({'self'} if r.random() < 0.5 else set())
        return {x for x in self.KINDS[:5] if r.random() < 0.5} or {'stmt'}

    def readable(self, kind, target=None):
        """variables whose profile allows a read at a site of this kind (a 'self' read only in an assignment to itself)"""
        out = []
        for v, prof in self.profiles.items():
            if v in self.fnvars:
                continue
            if kind == 'self':
                if v == target and 'self' in prof:
                    out.append(v)
            elif kind in prof:
                out.append(v)
        return out

    def leaf(self, kind, target):
        r = self.rng
        pool = self.readable(kind, target)
        if pool and r.random() < 0.8:
            return r.choice(pool)
        return r.choice(['1', '2', '7', 'true', 'ga', 'gb', 'null'])

    def expr(self, kind, target=None, depth=0):
        r = self.rng
        k = r.random()
        if depth >= 3 or k < 0.30:
            return self.leaf(kind, target)
        sub = lambda: self.expr(kind, target, depth + 1)   # noqa: E731
        if k < 0.45:
            return f'note({sub()})'
        if k < 0.55:
            return f'{sub()} {r.choice(["+", "-", "*", "&&", "||", "==", "<"])} {sub()}'
        if k < 0.61:
            return f'{r.choice(["!", "-"])}{self.leaf(kind, target)}'
        if k < 0.66:
            return f'({sub()})'
        if k < 0.72:
            return f'if({sub()}, {sub()}, {sub()})'
        if k < 0.78:
            n = r.randint(1, 3)     # a call argument at any position; one element is handed on (values never grow: a loop that
            return f'arrayGet(arrayNew({", ".join(sub() for _ in range(n))}), {r.randrange(n)})'   # runs into the budget stays cheap)
        if k < 0.83:
            return f"systemGlobalSet('gOut', {sub()})"
        if k < 0.87:
            return f'arrayLength(arrayPush(trace, {sub()}))'     # (never hands out `trace` itself: no cyclic arrays)
        if k < 0.91 and self.helper:
            return f'{self.helper}({", ".join(sub() for _ in range(r.randint(0, 2)))})'
        callees = [v for v in self.fnvars if (kind == 'self' and v == target and 'self' in self.profiles[v]) or
                   (kind != 'self' and 'callee' in self.profiles[v])]
        if k < 0.95:
            return f'twice({r.choice(callees) if callees and r.random() < 0.5 else "note"}, {sub()})'
        if callees:
            return f'{r.choice(callees)}({sub()})'
        return f'note({sub()})'

    def stmts(self, n, depth, in_loop):
        r = self.rng
        out = []
        ind = '    ' * depth
        for _ in range(n):
            k = r.random()
            if k < 0.34:
                t = r.choice(self.pool)
                if t in self.fnvars:
                    out.append(f'{ind}{t} = ' + (r.choice(['note', 'note', self.helper or 'note']) if r.random() < 0.7 else
                                                 f"{t}({self.expr('self', t, 2)})" if 'self' in self.profiles[t] else 'note'))
                else:
                    kind = 'self' if ('self' in self.profiles[t] and r.random() < 0.6) else 'other'
                    out.append(f'{ind}{t} = {self.expr(kind, t)}')
            elif k < 0.50:
                out.append(f"{ind}{self.expr('stmt', None, 0) if r.random() < 0.5 else 'note(' + self.expr('stmt', None, 1) + ')'}")
            elif k < 0.60 and depth < 3:
                out.append(f"{ind}if {self.expr('cond', None, 1)}:")
                out += self.stmts(r.randint(1, 3), depth + 1, in_loop)
                if r.random() < 0.4:
                    out.append(f"{ind}elif {self.expr('cond', None, 1)}:")
                    out += self.stmts(r.randint(1, 2), depth + 1, in_loop)
                if r.random() < 0.4:
                    out.append(f'{ind}else:')
                    out += self.stmts(r.randint(1, 2), depth + 1, in_loop)
                out.append(f'{ind}endif')
            elif k < 0.68 and depth < 3:
                self.label_n += 1
                c = f'turn{self.label_n}'
                out.append(f'{ind}{c} = 0')
                cond = f' && {self.expr("cond", None, 2)}' if r.random() < 0.3 else ''
                out.append(f'{ind}while {c} < 2{cond}:')
                out += self.stmts(r.randint(1, 3), depth + 1, True)
                out.append(f'{ind}    {c} = {c} + 1')
                out.append(f'{ind}endwhile')
            elif k < 0.75 and depth < 3:
                head = r.choice(self.pool) + (', ' + r.choice(self.pool) if r.random() < 0.3 else '')
                if any(h.strip() in self.fnvars for h in head.split(',')) or len(set(h.strip() for h in head.split(','))) < len(head.split(',')):
                    head = 'fe'
                out.append(f"{ind}for {head} in arrayNew({self.expr('other', None, 2)}, {r.choice(['3', '4'])}):")
                out += self.stmts(r.randint(1, 3), depth + 1, True)
                out.append(f'{ind}endfor')
            elif k < 0.79 and in_loop:
                out.append(ind + r.choice(['break', 'continue']))
            elif k < 0.86:
                out.append(f"{ind}return {self.expr('return', None, 1)}")
            elif k < 0.92:
                self.label_n += 1
                lab = f'flowL{self.label_n}'
                out.append(f"{ind}jumpif ({self.expr('cond', None, 1)}) {lab}")
                out += self.stmts(r.randint(0, 2), depth, in_loop)
                out.append(f'{ind}{lab}:')
            else:
                t = r.choice(self.pool)
                if t in self.fnvars:
                    out.append(f'{ind}{t} = note')
                else:
                    out.append(f'{ind}{t} = {r.choice(["3", "4", "5", "6"])}')
        return out

    def function(self, name, helper):
        r = self.rng
        self.helper = helper
        locals_ = r.sample(['u', 'v', 'w', 'x', 'ga', 'cnt'], r.randint(1, 3))
        args = r.sample(['p', 'q', 'a'], r.choice([0, 1, 1, 2]))
        self.pool = locals_ + args
        self.profiles = {v: self.profile() for v in self.pool}
        self.fnvars = [v for v in self.pool if 'callee' in self.profiles[v]]     # a list: iteration order must not depend on hashing
        body = []
        for v in locals_:
            if r.random() < 0.7:     # most locals are bound before anything reads them; the others are bound later / in a loop
                body.append(f'    {v} = ' + ('note' if v in self.fnvars else r.choice(['3', '4', '5', '6'])))
        body += self.stmts(r.randint(2, 7), 1, False)
        if r.random() < 0.6:
            body.append(f"    return {self.expr('return', None, 1)}")
        dots = '...' if args and r.random() < 0.1 else ''
        actuals = ['note' if a in self.fnvars else r.choice(['8', '9', 'false']) for a in args]
        return [f'function {name}({", ".join(args)}{dots}):'] + body + ['endfunction'], actuals

    def script(self):
        r = self.rng
        lines = list(FLOW_HEAD)
        helper = None
        if r.random() < 0.4:
            fn, _ = self.function('aux', None)
            lines += fn
            helper = 'aux'
        fn, actuals = self.function('work', helper)
        lines += fn
        lines.append(f'systemLog(jsonStringify(work({", ".join(actuals)})))')
        if r.random() < 0.3:
            lines.append(f'systemLog(jsonStringify(work({", ".join(reversed(actuals))})))')
        return '\n'.join(lines) + '\n'


def flow_random_cases(rng, n):
    parser = fw.impl()['parser']
    out = []
    tries = 0
    while len(out) < n and tries < 3 * n:
        tries += 1
        text = FlowGen(rng).script()
        try:
            out.append((text, parser.parse_script(text)))
        except parser.BareScriptParserError:
            continue
    return out


def binding_liveness(model, stats, only=None):
    """For every variable assigned in / argument of a top-level function (`only`: just this name; the generators' loop counters
    are skipped): does renaming its binding sites change the run?  (That is the observable meaning of 'used'; a warning for
    such a variable is what the semantic oracle rejects.)  -> number of bindings whose renaming is observable."""
    base = None
    live = 0
    for ix, st in enumerate(model['statements']):
        if 'function' not in st:
            continue
        fn = st['function']
        assigned = sorted({s['expr']['name'] for s in fn['statements'] if 'expr' in s and 'name' in s['expr']})
        for kind, names in (('unused-var', assigned), ('unused-arg', sorted(set(fn.get('args') or [])))):
            for nm in names:
                if (nm != only) if only else nm.startswith(('turn', 'fe', '__bareScript')):
                    continue
                ed = apply_edit(model, {'kind': kind, 'scope': ix, 'name': nm})
                if ed is None:
                    continue
                if base is None:
                    base = run_model(model, BUDGET)
                stats['liveness-runs'] = stats.get('liveness-runs', 0) + 1
                if not same_run(base, run_model(ed[0], BUDGET)):
                    live += 1
    return live


# ---------------------------------------------------------------------------------------------------------------------
# hostile names: every name position of the model (label, jump target, assigned / read variable, function name, callee,
# parameter, include url) filled with spellings an implementation may trip over
#
# The generators above take names from small fixed pools of ordinary identifiers.  Lint handles names as dictionary keys,
# set members, sort keys and message fragments, and walks the model by its member names, so the interesting names are those
# that coincide with (or contain) the model's own member / type names, names of dict / object attributes of the host
# language, empty-ish, very long and non-ASCII names, and fragments of lint's own messages.
# ---------------------------------------------------------------------------------------------------------------------

def schema_words():
    """Every type, member and enumeration-value name of the script model's schema (read from the implementation)."""
    words = set()
    for tname, tdef in fw.impl()['model'].BARE_SCRIPT_TYPES.items():
        words.add(tname)
        for d in tdef.values():
            for key in ('members', 'values'):
                for m in (d.get(key) or []) if isinstance(d, dict) else []:
                    words.add(m['name'])
    return sorted(words)


HOST_WORDS = ['keys', 'get', 'items', 'values', 'pop', 'update', 'setdefault', 'copy', 'clear', 'sort', 'append', 'index', 'count',
              '__class__', '__dict__', '__len__', '__contains__', '__getitem__', '__init__', '__iter__', '__hash__', '__eq__',
              'self', 'None', 'True', 'False', 'true', 'false', 'null', 'if', 'NaN', 'Infinity', 'undefined', 'constructor',
              'prototype', '__proto__', 'toString', 'hasOwnProperty', 'length', 'script', 'statement', 'statements0', 'globals',
              'options', 'locals']
ODD_WORDS = ['', ' ', '  ', '\t', '_', '__', '0', '1', '-1', '1.5', '1e3', '00', 'a b', ' a', 'a ', 'a\nb', '.', '..', '/', '\\', "'", 'a"b', '#', ':',
             '{0}', '{name}', '%s', '%(name)s', '$1', '(index 0)', 'index 3)', 'Unused variable', 'Empty script', 'in function',
             'a' * 300, 'expr' * 64, 'x' * 5000, '_' * 257,
             '\u00e9', 'e\u0301', '\u00df', 'SS', '\u0131', '\u0130', 'I', 'i', '\u03a9', '\u2126', '\u540d\u524d', '\U0001d4b3', '\U0001f600', '\u200b', '\u00a0',
             '\u202eabc', '\ufeff', '\uff41', '\u0430', 'A', 'a', 'Z', 'z', '\uffff', '\U00010000']


def hostile_names():
    """(core, rest): core = the schema's own words, whole and as a substring of a longer name; rest = all other spellings."""
    words = schema_words()
    core = list(words)
    for w in words:
        if w[:1].isalpha():
            core += [w + 'Loop', 'sub' + w + 'ion', 'my_' + w, w.upper(), w.capitalize() + '2', w + w]
    seen = set()
    core = [w for w in core if not (w in seen or seen.add(w))]
    # (no library function names: a user function that takes the name of the logging function it calls recurses, and the logged
    #  text doubles on every level)
    lib = fw.impl()['library'].SCRIPT_FUNCTIONS
    core = [w for w in core if w not in lib]
    rest = [w for w in HOST_WORDS + ODD_WORDS if w not in lib and not (w in seen or seen.add(w))]
    return core, rest


NAME_SLOTS = {'gl': 'L', 'gj': 'L', 'gv': 'v', 'gr': 'v', 'fn': 'f', 'call': 'f', 'arg': 'p', 'argr': 'p', 'fl': 'M', 'fj': 'M', 'fv': 'w',
              'fr': 'w', 'url': 'u.bare'}
NAME_VARIANTS = [(k,) for k in NAME_SLOTS] + [('gl', 'gj'), ('gv', 'gr'), ('fn', 'call'), ('arg', 'argr'), ('fl', 'fj'), ('fv', 'fr'),
                                              tuple(NAME_SLOTS)]


def name_template(n):
    """A small script with one name slot per name position (definition and use separately)."""
    log = lambda e: {'expr': {'expr': {'function': {'name': 'systemLog', 'args': [e]}}}}   # noqa: E731
    return {'statements': [
        {'include': {'includes': [{'url': n['url']}]}},
        {'expr': {'name': n['gv'], 'expr': {'number': 1.0}}},
        {'jump': {'label': n['gj'], 'expr': {'variable': n['gr']}}},
        log({'string': 'not jumped'}),
        {'label': n['gl']},
        {'function': {'name': n['fn'], 'args': [n['arg'], 'other'], 'statements': [
            {'expr': {'name': n['fv'], 'expr': {'binary': {'op': '+', 'left': {'variable': n['argr']}, 'right': {'number': 1.0}}}}},
            {'jump': {'label': n['fj'], 'expr': {'variable': n['fr']}}},
            log({'variable': 'other'}),
            {'label': n['fl']},
            {'return': {'expr': {'variable': n['fr']}}}]}},
        log({'function': {'name': n['call'], 'args': [{'number': 2.0}, {'number': 3.0}]}}),
    ]}


def name_sweep(rng, full):
    """(id, model): a hostile name at one position / at a definition-use pair / at every position of the template.
    The schema's member names take every variant; the other spellings 'all' + two sampled variants unless `full`."""
    core, rest = hostile_names()
    members = {w for w in schema_words() if w[:1].islower()}     # member names: the keys lint itself looks up
    out = []
    for group, names in (('core', core), ('rest', rest)):
        for h in names:
            variants = NAME_VARIANTS
            if not full and not (h in members):
                variants = [NAME_VARIANTS[-1]] + rng.sample(NAME_VARIANTS[:-1], 2)
            for var in variants:
                n = dict(NAME_SLOTS)
                for k in var:
                    n[k] = h
                out.append((f'names:{"+".join(var) if len(var) < len(NAME_SLOTS) else "all"}:{h[:40]!r}', name_template(n)))
    return out


def rename_model(model, vmap, lmap, umap):
    """Consistent renaming: variables / functions / parameters by vmap, labels and jump targets by lmap, include urls by umap."""
    def ex(e):
        (k, v), = e.items()
        if k == 'variable':
            return {k: vmap.get(v, v)}
        if k in ('number', 'string'):
            return {k: v}
        if k == 'group':
            return {k: ex(v)}
        if k == 'unary':
            return {k: {'op': v['op'], 'expr': ex(v['expr'])}}
        if k == 'binary':
            return {k: {'op': v['op'], 'left': ex(v['left']), 'right': ex(v['right'])}}
        d = {'name': vmap.get(v['name'], v['name'])}
        if 'args' in v:
            d['args'] = [ex(a) for a in v['args']]
        return {k: d}

    def stm(s):
        (k, v), = s.items()
        if k == 'expr':
            d = {'name': vmap.get(v['name'], v['name'])} if 'name' in v else {}
            d['expr'] = ex(v['expr'])
            return {k: d}
        if k == 'jump':
            d = {'label': lmap.get(v['label'], v['label'])}
            if 'expr' in v:
                d['expr'] = ex(v['expr'])
            return {k: d}
        if k == 'return':
            return {k: {'expr': ex(v['expr'])} if 'expr' in v else {}}
        if k == 'label':
            return {k: lmap.get(v, v)}
        if k == 'include':
            return {k: {'includes': [dict(i, url=umap.get(i['url'], i['url'])) for i in v['includes']]}}
        d = dict(v, name=vmap.get(v['name'], v['name']), statements=[stm(x) for x in v['statements']])
        if 'args' in v:
            d['args'] = [vmap.get(a, a) for a in v['args']]
        return {k: d}
    return {'statements': [stm(s) for s in model['statements']]}


def names_of(model):
    """-> (variable / function / parameter names, label names, urls) of a model; library function names are left out."""
    lib = fw.impl()['library'].SCRIPT_FUNCTIONS
    vs, ls, us = set(), set(), set()

    def ex(e):
        (k, v), = e.items()
        if k == 'variable':
            vs.add(v)
        elif k == 'group':
            ex(v)
        elif k == 'unary':
            ex(v['expr'])
        elif k == 'binary':
            ex(v['left'])
            ex(v['right'])
        elif k == 'function':
            if v['name'] not in lib and v['name'] != 'if':
                vs.add(v['name'])
            for a in v.get('args', []):
                ex(a)

    def stm(s):
        (k, v), = s.items()
        if k == 'expr':
            if 'name' in v:
                vs.add(v['name'])
            ex(v['expr'])
        elif k == 'jump':
            ls.add(v['label'])
            if 'expr' in v:
                ex(v['expr'])
        elif k == 'return':
            if 'expr' in v:
                ex(v['expr'])
        elif k == 'label':
            ls.add(v)
        elif k == 'include':
            us.update(i['url'] for i in v['includes'])
        else:
            vs.add(v['name'])
            vs.update(v.get('args', []))
            for x in v['statements']:
                stm(x)
    for s in model['statements']:
        stm(s)
    return sorted(vs - set(lib)), sorted(ls), sorted(us)


def hostile_renaming(rng, model, pool):
    """The same program with (most of) its names replaced, consistently and injectively per name space, by hostile spellings."""
    vs, ls, us = names_of(model)
    maps = []
    for names in (vs, ls, us):
        chosen = [x for x in names if rng.random() < 0.75]
        free = [h for h in pool if h not in names and not h.startswith(FRESH)]
        maps.append(dict(zip(chosen, rng.sample(free, len(chosen)))))
    return rename_model(model, *maps)


def hostile_random_cases(rng, n):
    core, rest = hostile_names()
    pool = core + rest
    out = []
    for i in range(n):
        k = i % 3
        if k == 0:
            base = JumpGen(rng).model()
        else:
            got = flow_random_cases(rng, 1) if k == 1 else structured_cases(rng, 1)
            if not got:
                continue
            base = got[0][1]
        out.append((f'hostile{i}', hostile_renaming(rng, base, pool)))
    return out


# ---------------------------------------------------------------------------------------------------------------------
# optional members of the schema: every presence combination
#
# The generators above only produce the combinations the parser commonly emits: a `lastArgArray` flag only next to a
# non-empty `args`, flags only with the value true, ...  The schema makes every optional member independent of the others,
# so {lastArgArray without args, flags present with the value false, a call without / with an empty `args`, a return / jump
# without expression, an include with system false} are all schema-valid models (several of them parser output: the line
# `function f(...):` has a rest marker and no names).
# ---------------------------------------------------------------------------------------------------------------------

def schema_optional_members():
    """['Struct.member', ...] of all optional members of the script model's schema (read from the implementation)."""
    out = []
    for tname, tdef in fw.impl()['model'].BARE_SCRIPT_TYPES.items():
        for d in tdef.values():
            for m in (d.get('members') or []) if isinstance(d, dict) else []:
                if m.get('optional'):
                    out.append(f'{tname}.{m["name"]}')
    return sorted(out)


OPT_COVERED = ['ExpressionStatement.name', 'FunctionExpression.args', 'FunctionStatement.args', 'FunctionStatement.async',
               'FunctionStatement.lastArgArray', 'IncludeScript.system', 'JumpStatement.expr', 'ReturnStatement.expr']


def _call(name, *args):
    return {'function': {'name': name, 'args': list(args)}}


def _log(e):
    return {'expr': {'expr': _call('systemLog', _call('jsonStringify', e))}}


def optional_member_cases():
    """(id, model): the product of the optional members of each struct, hand-built and (where the parser can produce the
    combination) as source text."""
    out = []
    # FunctionStatement: args x lastArgArray x async x what the body reads
    for args in (None, ['p'], ['p', 'q'], ['p', 'q', 'p'], ['q', 'p', 'r']):
        for last in (None, False, True):
            for asyn in (None, False, True):
                for body in ('empty', 'none', 'first', 'last', 'all'):
                    names = args or ['p']
                    read = {'empty': [], 'none': [], 'first': names[:1], 'last': names[-1:], 'all': names}[body]
                    stmts = [_log({'variable': v}) for v in read]
                    if body != 'empty':
                        stmts.append({'return': {'expr': _call('arrayNew', *[{'variable': v} for v in read])}})
                    fn = {'name': 'f', 'statements': stmts}
                    if args is not None:
                        fn['args'] = list(args)
                    if last is not None:
                        fn['lastArgArray'] = last
                    if asyn is not None:
                        fn['async'] = asyn
                    calls = [] if asyn else [_log(_call('f', {'number': 1.0}, {'number': 2.0}, {'number': 3.0}, {'number': 4.0})),
                                             _log({'function': {'name': 'f'}}), _log(_call('f', {'variable': 'garr'}))]
                    out.append((f'opt:fn:args={args}:last={last}:async={asyn}:body={body}', {'statements': [{'function': fn}] + calls}))
    # the headers the parser accepts (names, blanks and the rest marker are independently optional)
    parser = fw.impl()['parser']
    for head in ('f()', 'f( )', 'f(...)', 'f( ... )', 'f(p...)', 'f(p ...)', 'f(p, q...)', 'f(p,q ... )', 'f(p)', 'f(p, q)', 'f(p, p...)'):
        for pre in ('', 'async '):
            for body in (['return 7'], ["systemLog('p ' + jsonStringify(p))", 'return p'], []):
                text = '\n'.join([f'{pre}function {head}:'] + ['    ' + ln for ln in body] + ['endfunction'] +
                                 ([] if pre else ['systemLog(jsonStringify(f(1, 2, 3)))', 'systemLog(jsonStringify(f()))'])) + '\n'
                try:
                    out.append((f'opt:text:{pre}{head}:{len(body)}', parser.parse_script(text)))
                except parser.BareScriptParserError:
                    pass
    # the other structs: one statement variant in a fixed context, at top level and inside a function
    exprs = [{'number': 1.0}, {'string': 's'}, {'variable': 'v'}, {'function': {'name': 'note'}}, {'function': {'name': 'note', 'args': []}},
             _call('note', {'variable': 'v'}), {'group': {'function': {'name': 'note'}}}, {'unary': {'op': '-', 'expr': {'variable': 'v'}}},
             {'binary': {'op': '+', 'left': {'variable': 'v'}, 'right': {'function': {'name': 'note'}}}}]
    variants = []
    for ix, e in enumerate(exprs):
        variants.append((f'expr{ix}', {'expr': {'expr': e}}))
        variants.append((f'assign{ix}', {'expr': {'name': 'w', 'expr': e}}))
        variants.append((f'return{ix}', {'return': {'expr': e}}))
        variants.append((f'jumpif{ix}', {'jump': {'label': 'L', 'expr': e}}))
    variants += [('return', {'return': {}}), ('jump', {'jump': {'label': 'L'}}), ('jump-unknown', {'jump': {'label': 'M'}}),
                 ('jumpif-unknown', {'jump': {'label': 'M', 'expr': {'variable': 'gc'}}})]
    for inc in ([{'url': 'x.bare'}], [{'url': 'x.bare', 'system': False}], [{'url': 'x.bare', 'system': True}],
                [{'url': 'x.bare', 'system': False}, {'url': 'y.bare'}, {'url': 'x.bare', 'system': True}]):
        variants.append((f'include{len(variants)}', {'include': {'includes': inc}}))
    note = {'function': {'name': 'note', 'args': ['nv'], 'statements': [
        {'expr': {'expr': _call('systemLog', {'binary': {'op': '+', 'left': {'string': 'note '}, 'right': _call('jsonStringify', {'variable': 'nv'})}})}},
        {'return': {'expr': {'variable': 'nv'}}}]}}
    for vid, st in variants:
        ctxt = [{'expr': {'name': 'v', 'expr': {'number': 5.0}}}, st, _log({'string': 'fall'}), {'label': 'L'}, _log({'variable': 'v'})]
        for where in ('top', 'fn', 'fn-last'):
            if where == 'top':
                model = {'statements': [note] + fast_copy(ctxt)}
            else:
                body = fast_copy(ctxt if where == 'fn' else [{'label': 'L'}] + ctxt[:2])
                model = {'statements': [note, {'function': {'name': 'g', 'statements': body}}, _log({'function': {'name': 'g'}})]}
            out.append((f'opt:{vid}:{where}', model))
    out.append(('opt:no-statements', {'statements': []}))
    out.append(('opt:fn-no-statements', {'statements': [{'function': {'name': 'f', 'statements': []}}]}))
    return out


# ---------------------------------------------------------------------------------------------------------------------
# statements that look removable / names that look unused, but are not
#
# 'Pointless statement' / 'Unused ...' verdicts are syntactic.  This family holds the statements on which a syntactic verdict
# is tempting and wrong: an assignment of a variable to itself (it BINDS the name: in a function it snapshots a global into a
# local, at top level it creates the global), a dead store, a call of a side-effect-free library function whose name is
# re-bound by the script (function definition, local, global), a jump to the next statement, a trailing return.  Whatever lint
# reports here goes through the rename / delete-and-run oracle; the binding state of the name is the generated dimension.
# ---------------------------------------------------------------------------------------------------------------------

NOOP_HEAD = ['function note(nv):', "    systemLog('note ' + jsonStringify(nv))", '    return nv', 'endfunction',
             'function bump(name):', '    systemGlobalSet(name, systemGlobalGet(name, 0) + 1)', 'endfunction']
SELF_FORMS = ['{v} = {v}', '{v} = ({v})', '{v} = (({v}))', '{v} = {v} + 0', '{v} = if(true, {v}, {v})', '{v} = {v} || {v}', '{v} = -(-{v})',
              '{v} = note({v})', '{v} = 1 * {v}']
PURE_LIB = ['mathAbs', 'arrayLength', 'stringLength', 'mathFloor', 'arrayCopy', 'objectNew']


def noop_lookalike_cases():
    """(id, source)"""
    out = []
    for fi, form in enumerate(SELF_FORMS):
        for v in ('ga', 'x', 'zz'):       # a number global of the run / another one / a name bound nowhere
            stmt = form.format(v=v)
            tail = [f"bump('{v}')", f'note({v})', f"note(systemGlobalGet('{v}'))"]
            # in a function: the name is only a global / already a local / an argument / bound on another path
            for state, pre, params, actual in (('global-only', [], '', ''), ('local', [f'{v} = 40'], '', ''), ('arg', [], v, '41'),
                                               ('conditional', ['if gc:', f'    {v} = 42', 'endif'], '', '')):
                body = pre + [stmt] + tail + [f'return {v}']
                out.append((f'noop:self{fi}:{v}:fn:{state}',
                            NOOP_HEAD + [f'function work({params}):'] + ['    ' + ln for ln in body] + ['endfunction', f'note(work({actual}))']))
            # at top level: never assigned / a global of the run / assigned before / assigned later
            for state, pre, post in (('first', [], []), ('assigned', [f'{v} = 50'], []), ('later', [], [f'{v} = 51', f'note({v})'])):
                out.append((f'noop:self{fi}:{v}:top:{state}', NOOP_HEAD + pre + [stmt] + tail + post))
    for name in PURE_LIB:
        arg = {'arrayLength': 'garr', 'arrayCopy': 'garr', 'stringLength': "'abc'", 'objectNew': "'k', 1"}.get(name, '-3')
        call = f'{name}({arg})'
        redefine = [f'function {name}(av, bv):', f"    systemLog('user {name} ' + jsonStringify(av))", "    bump('ga')", '    return 1', 'endfunction']
        for where in ('top', 'fn'):
            for bound in ('library', 'script-function', 'global-var', 'local-var', 'arg'):
                for stmt in (call, f'1 + {call}', f'({call})', f'unusedV = {call}', f'!{call}'):
                    if bound == 'local-var' and where == 'top':
                        continue
                    if bound == 'arg' and where == 'top':
                        continue
                    pre = redefine if bound == 'script-function' else [f'{name} = note'] if bound == 'global-var' else []
                    if where == 'top':
                        lines = NOOP_HEAD + pre + [stmt, 'note(ga)']
                    else:
                        params, actual = (name, 'note') if bound == 'arg' else ('', '')
                        body = ([f'{name} = note'] if bound == 'local-var' else []) + [stmt, 'note(ga)', 'return 2']
                        lines = NOOP_HEAD + pre + [f'function work({params}):'] + ['    ' + ln for ln in body] + ['endfunction', f'note(work({actual}))']
                    out.append((f'noop:pure:{name}:{where}:{bound}:{stmt}', lines))
    others = [
        ('dead-store', ['v = note(1)', 'v = 2', 'return v']),
        ('dead-store-read-between', ['v = 1', 'v = v + 1', 'v = 5', 'return v']),
        ('store-read-by-callee-global', ["systemGlobalSet('gk', 1)", 'gk = 2', "return systemGlobalGet('gk')"]),
        ('jump-next', ['jump nxt', 'nxt:', 'return 1']),
        ('jumpif-next', ['jumpif (note(1)) nxt', 'nxt:', 'return 1']),
        ('trailing-return', ['note(1)', 'return']),
        ('return-null', ['note(1)', 'return null']),
        ('early-return-hides', ['return note(1)', 'note(2)', 'v = 3']),
        ('label-only', ['only:']),
        ('variable-statement', ['v = 1', 'v', 'ga', 'return v']),
        ('assign-from-unbound', ['v = zz', 'return note(v)']),
        ('shadow-global', ['ga = ga', "bump('ga')", 'return ga']),
        ('shadow-then-unused', ['ga = 9', 'return note(1)']),
        ('arg-self', ['return 1']),
    ]
    for oid, body in others:
        out.append((f'noop:{oid}:fn', NOOP_HEAD + ['function work(ua, ub):'] + ['    ' + ln for ln in body] + ['endfunction', 'note(work(1))', 'note(ga)']))
        if not any(ln.startswith('return') and ln != 'return' for ln in body[:-1]):
            out.append((f'noop:{oid}:top', NOOP_HEAD + body + ['note(ga)']))
    return [(cid, '\n'.join(lines) + '\n') for cid, lines in out]


# ---------------------------------------------------------------------------------------------------------------------
# one scope's expressions occurring in another scope as well (-> shared objects under realise(.., 'share-*'))
# ---------------------------------------------------------------------------------------------------------------------

def calls_name(e, name):
    (k, v), = e.items()
    if k == 'function':
        return v['name'] == name or any(calls_name(a, name) for a in v.get('args', []))
    if k == 'group':
        return calls_name(v, name)
    if k == 'unary':
        return calls_name(v['expr'], name)
    if k == 'binary':
        return calls_name(v['left'], name) or calls_name(v['right'], name)
    return k == 'variable' and v == name


def cross_scope_shared(model):
    """number of distinct compound expressions that occur in at least two scopes (top level, each top-level function)"""
    count = {}

    def walk(x, acc):
        if isinstance(x, dict):
            if is_compound_expr(x):
                acc.add(json.dumps(x, sort_keys=True))
            for k, v in x.items():
                if k != 'function' or 'statements' not in v:
                    walk(v, acc)
        elif isinstance(x, list):
            for v in x:
                walk(v, acc)
    scopes = [[s for s in model['statements'] if 'function' not in s]] + [s['function']['statements'] for s in model['statements'] if 'function' in s]
    for stmts in scopes:
        acc = set()
        walk(stmts, acc)
        for key in acc:
            count[key] = count.get(key, 0) + 1
    return sum(1 for v in count.values() if v > 1)


def with_twins(model, rng):
    """The same program with, for (most) top-level functions, an equal twin under a fresh name defined in front of it and called
    wherever the original is called from top level; sometimes a few of its expression statements are repeated at top level too.
    Every compound expression of the function then also occurs in an earlier scope."""
    out = []
    twins = {}
    for st in model['statements']:
        if 'function' in st and rng.random() < 0.8:
            fn = st['function']
            twin = fast_copy(fn)
            twin['name'] = twins.setdefault(fn['name'], fn['name'] + 'Twin')
            if rng.random() < 0.3:
                out += [fast_copy(s) for s in fn['statements'] if 'expr' in s][:3]
            if rng.random() < 0.7:
                out.append({'function': twin})
                out.append(st)
            else:
                out.append(st)
                out.append({'function': twin})
            continue
        out.append(st)
        if 'expr' in st:
            for name, twin in twins.items():
                if calls_name(st['expr']['expr'], name):
                    out.append(rename_model({'statements': [st]}, {name: twin}, {}, {})['statements'][0])
                    break
    return {'statements': out}


# ---------------------------------------------------------------------------------------------------------------------
# histories: the same process lints many models, re-lints objects that were modified in place, survives failing calls;
# the same models in a fresh interpreter (other string-hash seeds) give the same warnings
# ---------------------------------------------------------------------------------------------------------------------

BAD_INPUTS = [None, {}, {'statements': None}, {'statements': [{}]}, {'statements': [{'expr': {}}]}, {'statements': [{'function': {'name': 'f'}}]},
              {'statements': [{'jump': {}}]}, {'statements': [{'bogus': 1}]}, {'statements': [{'function': {'name': 'f', 'statements': [{'expr': None}]}}]},
              [], 'script', {'statements': [{'expr': {'expr': {'binary': {'op': '+'}}}}]}]


def history_episode(rng, pool):
    """{'models': [tree ...], 'ops': [[op, model index, argument] ...]}"""
    models = [fast_copy(rng.choice(pool)) for _ in range(rng.randint(1, 3))]
    ops = []
    for _ in range(rng.randint(5, 12)):
        i = rng.randrange(len(models))
        k = rng.random()
        if k < 0.35:
            ops.append(['lint', i, None])
        elif k < 0.45:
            ops.append(['spoil', i, rng.choice(['clear', 'append', 'reverse'])])
        elif k < 0.57:
            ops.append(['fail', 0, rng.randrange(len(BAD_INPUTS))])
        else:
            edit = rng.choice(['del-first', 'del-last', 'append-label', 'append-jump', 'append-pointless', 'pop-arg', 'push-arg', 'rename-fn',
                               'fn-append-label', 'fn-append-jump', 'fn-del-last', 'fn-assign', 'graft', 'swap'])
            ops.append(['edit', i, [edit, rng.randrange(len(models)), rng.choice(JLABELS), rng.choice(JARGS)]])
            ops.append(['lint', i, None])
    ops.append(['lint', rng.randrange(len(models)), None])
    return {'models': models, 'ops': ops}


def history_edit(objs, i, arg):
    """In-place modification of objs[i] that keeps it schema-valid (and may make it share statements with another model)."""
    edit, j, label, name = arg
    m = objs[i]
    stmts = m['statements']
    fns = [s['function'] for s in stmts if 'function' in s]
    if edit == 'del-first' and stmts:
        del stmts[0]
    elif edit == 'del-last' and stmts:
        stmts.pop()
    elif edit == 'append-label':
        stmts.append({'label': label})
    elif edit == 'append-jump':
        stmts.append({'jump': {'label': label, 'expr': {'variable': 'gc'}}})
    elif edit == 'append-pointless':
        stmts.insert(0, {'expr': {'expr': {'variable': name}}})
    elif edit == 'pop-arg' and fns and len(fns[0].get('args', [])) > 1:
        fns[0]['args'].pop()
    elif edit == 'push-arg' and fns:
        fns[-1].setdefault('args', []).append(name)
    elif edit == 'rename-fn' and fns:
        fns[0]['name'] = fns[-1]['name']
    elif edit == 'fn-append-label' and fns:
        fns[0]['statements'].append({'label': label})
    elif edit == 'fn-append-jump' and fns:
        fns[-1]['statements'].append({'jump': {'label': label}})
    elif edit == 'fn-del-last' and fns and fns[0]['statements']:
        fns[0]['statements'].pop()
    elif edit == 'fn-assign' and fns:
        fns[-1]['statements'].insert(0, {'expr': {'name': name, 'expr': {'number': 1.0}}})
    elif edit == 'graft' and objs[j]['statements']:
        stmts.append(objs[j]['statements'][0])        # the same statement OBJECT is now part of two models
    elif edit == 'swap' and len(stmts) > 1:
        stmts[0], stmts[-1] = stmts[-1], stmts[0]


def run_history(ep, observed=None):
    """Runs one episode on the implementation. -> [(step, expected, actual)] where a lint of an object differs from the lint of a
    fresh copy of its current value.  observed: list collecting (value, warnings) of every lint step."""
    lint = fw.impl()['model'].lint_script
    objs = [fast_copy(m) for m in ep['models']]
    bad = []
    for step, (op, i, arg) in enumerate(ep['ops']):
        if op == 'fail':
            try:
                lint(fast_copy(BAD_INPUTS[arg]))
            except Exception:  # pylint: disable=broad-except
                pass
            continue
        if op == 'edit':
            history_edit(objs, i, arg)
            continue
        value = fast_copy(objs[i])
        try:
            got = lint(objs[i])
            if op == 'spoil':               # the caller does what it likes with the list it was given
                keep = list(got)
                if arg == 'clear':
                    got.clear()
                elif arg == 'append':
                    got.append('caller text')
                else:
                    got.reverse()
                got = keep
            want = lint(fast_copy(value))
        except Exception as exc:  # pylint: disable=broad-except
            bad.append((step, 'a list of warnings', f'{type(exc).__name__}: {exc}'))
            continue
        if objs[i] != value:
            bad.append((step, 'model unchanged', jsonable(objs[i])))
            objs[i] = value
        if got != want:
            bad.append((step, want, got))
        if observed is not None:
            observed.append((value, want))
    return bad


_FRESH_LINT_SRC = r"""
import json, sys
sys.path.insert(0, sys.argv[1])
from bare_script import model
out = []
for tree in json.load(sys.stdin):
    try:
        out.append(model.lint_script(tree))
    except Exception as exc:
        out.append({'error': type(exc).__name__})
json.dump(out, sys.stdout)
"""


def fresh_lint(trees, hashseed):
    """The trees linted IN ORDER by a fresh interpreter process with the given string-hash seed."""
    import subprocess
    env = dict(os.environ, PYTHONHASHSEED=str(hashseed))
    res = subprocess.run([sys.executable, '-c', _FRESH_LINT_SRC, fw.REPO_SRC], input=json.dumps(trees), capture_output=True, text=True,
                         timeout=300, check=False, env=env)
    if res.returncode != 0:
        raise fw.Infra('fresh lint process failed: ' + res.stderr[-400:])
    return json.loads(res.stdout)


HASHSEEDS = [0, 4242]


# ---------------------------------------------------------------------------------------------------------------------
# names over the non-ASCII part of the identifier alphabet, and the SCALE axis
#
# The grammar takes identifiers as [A-Za-z_]\w*, and the host's \w is every alphanumeric character of Unicode: superscript and
# subscript digits, circled / parenthesised / dingbat digits (category No: str.isdigit() is true, str.isdecimal() is false and
# int() rejects them), numbers that are not digits at all (fractions, Roman numerals, CJK numerals: only str.isnumeric()),
# decimal digits of other scripts (Nd: int() accepts them), ordinal indicators, modifier and title-case letters; the schema puts
# no pattern on names at all, so letters followed by combining marks are names of hand-built models.  The classes are computed
# from the host's own str predicates (so the tags say what the host thinks of a character, not what this file believes).
# A name takes such a character at its END (where a 'natural order' key or a numbering scheme looks), after an ASCII digit, in a
# run, in the middle, in front of an ASCII digit, at the start and as the whole name.
# ---------------------------------------------------------------------------------------------------------------------

UNI_CHARS = ('²³¹⁰⁴⁹'                                       # superscript digits (No, isdigit)
             '₀₁₉'                                                         # subscript digits
             '①②⑨⓪⓵❶➀⒈⑴፩᧚\U00010a40'   # circled / dingbat / full stop / parenthesised / Ethiopic / Tham / Kharoshthi digits
             '⑩⑳½⅓௰㊉㊿\U00010107'                       # numbers that are no digits (No, isnumeric only)
             'Ⅷⅷ〇〡四十亿\U00012400'                       # Roman / ideographic / Hangzhou / CJK / cuneiform numerals (Nl, Lo)
             '٠٣٩۴०३৪๕０９\U0001d7ce\U0001d7d8\U0001d7ff߁\U0001e951'   # Nd of other scripts
             'ªºǅʰⁿℕµſ'                           # ordinal indicators, title-case / modifier letters, look-alikes
             'éǖṩệÅ')                                            # precomposed letters with marks, Angstrom sign
# letters with combining marks (Mn / Me / Mc are not \w: names of hand-built models only), canonical-reordering twins, keycap, ZWJ
UNI_MARKED = ['e\u0301', 'a\u0323\u0308', 'o\u0323\u0302', 'q\u0307\u0323', 'q\u0323\u0307', 'x\u20dd', 'n\u0303\u200d', '\u0915\u093e',
              '\u03b1\u0345', '2\ufe0f\u20e3', 'r\u0362\u00b2']
UNI_PLACEMENTS = [('end', 'r{c}'), ('end-after-digit', 'r2{c}'), ('run', 'r{c}{c}{d}'), ('middle', 'r{c}x'), ('before-digit', 'r{c}2'),
                  ('start', '{c}r'), ('whole', '{c}')]


def uni_class(unit):
    """What the host says about the last character of the unit."""
    import unicodedata
    c = unit[-1]
    flags = ('decimal' if c.isdecimal() else 'digit-not-decimal' if c.isdigit() else 'numeric-not-digit' if c.isnumeric() else
             'alnum' if c.isalnum() else 'not-word')
    return f'{unicodedata.category(c)}-{flags}' + ('-astral' if ord(c) > 0xffff else '') + ('-marked' if len(unit) > 1 else '')


def unicode_names():
    """[(placement, class, name)] - deterministic"""
    units = list(UNI_CHARS) + UNI_MARKED
    out = []
    for ix, unit in enumerate(units):
        other = UNI_CHARS[(ix + 7) % len(UNI_CHARS)]
        for pid, form in UNI_PLACEMENTS:
            out.append((pid, uni_class(unit), form.format(c=unit, d=other)))
    # digit runs at the host's limits (a suffix of more digits than int() converts) and numeral look-alikes at the end of a name
    for pid, name in (('end', 'v' + '1' * 4301), ('whole', '7' * 4400), ('end', 'v' + '٣' * 4301), ('end', 'v' + '0' * 5000 + '1'),
                      ('end', 'v²' + '3' * 20), ('end', 'v_1_000'), ('end', 'v1e5'), ('end', 'v-1'), ('end', 'v+1'), ('end', 'v 1'),
                      ('end', 'v1 '), ('end', 'v1_'), ('end', 'v0x1f'), ('end', 'v1.0'), ('end', 'v99999999999999999999999999'),
                      ('end', 'v007'), ('end', 'v7'), ('end', 'v07'), ('whole', '007'), ('whole', '-0'), ('whole', '1_0'), ('whole', ' 1'),
                      ('whole', '١٠'), ('whole', '10')):
        out.append((pid, 'limits', name))
    return out


UNI_SOURCE = """{gv} = 1
jumpif ({gr}) {gj}
systemLog('not jumped')
{gl}:
function {fn}({arg}, other):
    {fv} = {argr} + 1
    jumpif ({fr}) {fj}
    systemLog(other)
    {fl}:
    return {fr}
endfunction
systemLog({call}(2, 3))
"""


def unicode_name_cases(rng, full):
    """(id, model): every name of unicode_names() at every name position of the small template at once, at single positions and
    definition-use pairs (quick: a sample of those), and - where the real parser takes the name as an identifier - the same
    program as source text parsed by parse_script."""
    parser = fw.impl()['parser']
    out = []
    singles = NAME_VARIANTS[:-1]
    for pid, cls, name in unicode_names():
        if full:
            variants = NAME_VARIANTS
        else:
            variants = [NAME_VARIANTS[-1]] + rng.sample(singles, 3 if pid == 'end' else 1)
        for var in variants:
            n = dict(NAME_SLOTS)
            for k in var:
                n[k] = name
            out.append((f'uni:{pid}:{cls}:{"+".join(var) if len(var) < len(NAME_SLOTS) else "all"}:{name[:24]!r}', name_template(n)))
        if len(name) < 100:
            n = {k: name for k in NAME_SLOTS}
            try:
                parsed = parser.parse_script(UNI_SOURCE.format(**n))
            except parser.BareScriptParserError:
                continue
            # (the parser may read an odd name as something else: only programs that really carry the name count)
            vs, ls, _ = names_of(parsed)
            if name in vs and name in ls:
                out.append((f'uni:{pid}:{cls}:parsed:{name[:24]!r}', parsed))
    return out


# distinct names that a normalising / case-folding / numbering implementation takes for one (the runtime compares names as they are)
UNI_TWINS = [('x\u00b2', 'x2'), ('x\uff12', 'x2'), ('x\u0662', 'x2'), ('x\U0001d7d0', 'x2'), ('x2', 'x02'), ('x2', 'x2\u200d'), ('x\u2461', 'x2'),
             ('\u00e9', 'e\u0301'), ('q\u0307\u0323', 'q\u0323\u0307'), ('\u212b', '\u00c5'), ('\u2126', '\u03a9'), ('\u212a', 'K'), ('\u00b5', '\u03bc'),
             ('\u00df', 'ss'), ('\u017f', 's'), ('\u01c5', '\u01c6'), ('\ufb01', 'fi'), ('\u0131', 'i'), ('\u0130', 'i\u0307'), ('\u02b0', 'h'), ('\u207f', 'n'),
             ('\u00aa', 'a'), ('\u2167', 'VIII'), ('\u2177', '\u2167'), ('\u1e69', '\u1e61\u0323'), ('\uff58', 'x'), ('\u0445', 'x'), ('X', 'x'),
             ('x\u00b2', 'x\u00b2\u00b2'), ('x', 'x\u0301'), ('x1', 'x\u00b9'), ('x10', 'x1\u2070')]
TWIN_SLOT_PAIRS = [('gl', 'gj'), ('gv', 'gr'), ('fn', 'call'), ('arg', 'argr'), ('fl', 'fj'), ('fv', 'fr')]


def twin_cases(full=False):
    """(id, model): a pair of twin names, one at the definition and the other at the use of each kind of name of the small
    template (all at once both ways round, singly one way round unless `full`), and both as definitions in one scope (labels, functions, parameters, variables)."""
    out = []
    for a, b in UNI_TWINS:
        for way, (x, y) in enumerate(((a, b), (b, a))):
            for pairs in ([[p] for p in TWIN_SLOT_PAIRS] if way == 0 or full else []) + [TWIN_SLOT_PAIRS]:
                n = dict(NAME_SLOTS)
                for d, u in pairs:
                    n[d], n[u] = x, y
                out.append((f'uni:twins:def-use:{"+".join(d for d, _ in pairs) if len(pairs) == 1 else "all"}:{x!r}/{y!r}', name_template(n)))
            body = [{'label': x}, {'label': y}, _cjump(x), _cjump(y), {'expr': {'name': x, 'expr': {'number': 1.0}}},
                    {'expr': {'name': y, 'expr': {'number': 2.0}}}, _plog({'variable': x}), _plog({'variable': y}), _cjump(x + y)]
            fn = lambda name: {'function': {'name': name, 'args': [x, y], 'statements': fast_copy(body) + [{'return': {'expr': {  # noqa: E731
                'binary': {'op': '+', 'left': {'variable': x}, 'right': {'variable': y}}}}}]}}
            out.append((f'uni:twins:both-defined:all:{x!r}/{y!r}', {'statements': [fn('f' + x), fn('f' + y)] + fast_copy(body) + [
                _plog({'function': {'name': 'f' + x, 'args': [{'number': 3.0}, {'number': 4.0}]}}), _plog({'function': {'name': 'f' + y, 'args': [{'number': 5.0}]}})]}))
    return out


def uni_tags(cid, model):
    parts = cid.split(':')
    return ['place:' + parts[1], 'class:' + parts[2], 'slot:' + ('parsed' if parts[3] == 'parsed' else 'all' if parts[3] == 'all' else 'some')]


# ---- the SCALE axis: how many labels / jumps / variables / arguments / functions / warnings one model has ----------------
#
# Every generator above builds models of a few dozen statements that get a handful of warnings.  The property speaks of every
# model: a dispatch table of 300 labels, a generated script with 128 functions, a function with 101 parameters are models like
# any other, and 'exactly the labels / functions / arguments' holds for the 101st warning as for the first.  Each family below
# makes ONE count the generated dimension (sizes are geometric and sit on both sides of round numbers) and ends in a fixed tail
# whose warnings of every exact kind come LAST in lint's output (a late function with a duplicate argument, an unknown and a
# redefined label; a redefined function; an unknown and a redefined global label), so a warning that gets lost, truncated,
# merged or mis-attributed because of what came before it shows in the exact:* oracles.  The i-th name of a case is spelled in
# one of NAME_STYLES (ASCII numbering, zero-padded, and numbering in the non-ASCII digit classes above).
# ---------------------------------------------------------------------------------------------------------------------

SCALE_SIZES_QUICK = [0, 1, 2, 9, 10, 11, 16, 17, 64, 65, 100, 101, 128, 129, 300]
SCALE_SIZES_THOROUGH = SCALE_SIZES_QUICK + [255, 256, 257, 999, 1000, 1001]
_SUPER = '⁰¹²³⁴⁵⁶⁷⁸⁹'
_CIRCLED = '⓪①②③④⑤⑥⑦⑧⑨'
_ARABIC = ''.join(chr(0x660 + k) for k in range(10))
_DEVA = ''.join(chr(0x966 + k) for k in range(10))
_FULL = ''.join(chr(0xff10 + k) for k in range(10))
_MBOLD = ''.join(chr(0x1d7ce + k) for k in range(10))


def _digits(i, alphabet):
    return ''.join(alphabet[int(ch)] for ch in str(i))


NAME_STYLES = [
    ('ascii', lambda b, i: f'{b}{i}'),
    ('padded', lambda b, i: f'{b}{i:04d}'),
    ('superscript', lambda b, i: b + _digits(i, _SUPER)),
    ('ascii+superscript', lambda b, i: f'{b}{i // 10}' + _SUPER[i % 10]),
    ('circled', lambda b, i: b + _digits(i, _CIRCLED)),
    ('nd-arabic-indic', lambda b, i: b + _digits(i, _ARABIC)),
    ('nd-mixed-scripts', lambda b, i: b + ''.join((_DEVA, _FULL, _MBOLD, '0123456789')[(i + k) % 4][int(ch)] for k, ch in enumerate(str(i)))),
    ('marked', lambda b, i: f'{b}e\u0301{i}\u0323'),
    ('roman-fraction', lambda b, i: f'{b}{i}' + 'Ⅷ½四⑩〇'[i % 5]),
]


def _gc():
    return {'variable': 'gc'}      # a global of the run that is null: the conditional jumps below are never taken


def _cjump(label):
    return {'jump': {'label': label, 'expr': _gc()}}


def _plog(e):
    return {'expr': {'expr': {'function': {'name': 'systemLog', 'args': [e]}}}}


def scale_tail():
    """Statements whose warnings come last: one of every exact kind, in a late function and at the end of the global scope."""
    late = {'name': 'zzLate', 'args': ['zp', 'zq', 'zp'], 'statements': [
        _cjump('zzNowhere'), {'label': 'zzTwice'}, {'label': 'zzTwice'}, _cjump('zzTwice'), {'return': {'expr': {'variable': 'zp'}}}]}
    return [{'function': late}, _plog({'function': {'name': 'zzLate', 'args': [{'number': 5.0}, {'number': 6.0}]}}),
            {'function': {'name': 'zzLate', 'args': ['zq'], 'statements': [{'return': {'expr': {'variable': 'zq'}}}]}},
            _plog({'function': {'name': 'zzLate', 'args': [{'number': 7.0}]}}),
            _cjump('zzNowhereG'), {'label': 'zzTwiceG'}, {'label': 'zzTwiceG'}, _cjump('zzTwiceG'), _plog({'string': 'end'})]


def scale_body(family, n, nm):
    """-> (statements of the scope under test, argument names if the family is about parameters)"""
    num = lambda i: {'number': float(i % 7)}   # noqa: E731
    if family == 'unused-labels':
        return [{'label': nm('L', i)} for i in range(n)], None
    if family == 'used-labels':        # no warning at all: n definitions looked up by n jumps
        return [_cjump(nm('L', i)) for i in range(n)] + [{'label': nm('L', i)} for i in reversed(range(n))], None
    if family == 'unknown-labels':
        return [_cjump(nm('U', i)) for i in range(n)], None
    if family == 'redefined-label':    # ONE label defined n + 1 times
        return [{'label': nm('L', 0)} for _ in range(n + 1)] + [_cjump(nm('L', 0))], None
    if family == 'redefined-labels':   # n labels defined twice each
        return [{'label': nm('L', i)} for i in range(n)] + [_cjump(nm('L', i)) for i in range(n)] + [{'label': nm('L', i)} for i in range(n)], None
    if family == 'pointless':
        return [{'expr': {'expr': {'variable': nm('v', i)} if i % 2 else num(i)}} for i in range(n)], None
    if family == 'assigned-unread':    # in a function: n unused variables
        return [{'expr': {'name': nm('v', i), 'expr': num(i)}} for i in range(n)], None
    if family == 'assigned-read':      # no warning: n variables, each read once
        return ([{'expr': {'name': nm('v', i), 'expr': num(i)}} for i in range(n)] +
                [_plog({'variable': nm('v', i)}) for i in range(0, n, max(1, n // 8))] +
                [{'expr': {'name': 'acc', 'expr': {'binary': {'op': '+', 'left': {'variable': 'acc' if i else nm('v', 0)}, 'right': {'variable': nm('v', i)}}}}}
                 for i in range(n)] + ([_plog({'variable': 'acc'})] if n else [])), None
    if family == 'used-before-assigned':
        out = []
        for i in range(n):
            out += [_plog({'variable': nm('v', i)})] if i % 16 == 0 else [{'expr': {'name': 'sink', 'expr': {'variable': nm('v', i)}}}]
            out.append({'expr': {'name': nm('v', i), 'expr': num(i)}})
        return out + ([_plog({'variable': 'sink'})] if n else []), None
    if family == 'unused-args':
        return [{'return': {'expr': {'number': 1.0}}}], [nm('p', i) for i in range(n)]
    if family == 'read-args':
        return [_plog({'variable': nm('p', i)}) for i in range(n)], [nm('p', i) for i in range(n)]
    if family == 'duplicate-arg':      # ONE name n + 1 times
        return [{'return': {'expr': {'variable': nm('p', 0)}}}], [nm('p', 0)] * (n + 1)
    if family == 'duplicate-args':     # n names twice each
        return [_plog({'variable': nm('p', i)}) for i in range(n)], [nm('p', i) for i in range(n)] * 2
    if family == 'mixed':
        out = []
        for i in range(n):
            out.append([{'label': nm('L', i)}, _cjump(nm('U', i)), {'expr': {'expr': num(i)}}, {'expr': {'name': nm('v', i), 'expr': num(i)}},
                        {'label': nm('L', max(0, i - 4))}, _cjump(nm('L', max(0, i - 5)))][i % 6])
        return out, None
    raise ValueError(family)


SCALE_FAMILIES = ['unused-labels', 'used-labels', 'unknown-labels', 'redefined-label', 'redefined-labels', 'pointless', 'assigned-unread',
                  'assigned-read', 'used-before-assigned', 'unused-args', 'read-args', 'duplicate-arg', 'duplicate-args', 'mixed']
SCALE_FN_FAMILIES = ['functions-unused-arg', 'functions-clean', 'redefined-function', 'redefined-functions']


def scale_model(family, n, scope, nm):
    if family in SCALE_FN_FAMILIES:
        fn = lambda name, args, body: {'function': {'name': name, 'args': args, 'statements': body}}   # noqa: E731
        ret = lambda v: [{'return': {'expr': {'variable': v}}}]   # noqa: E731
        if family == 'functions-unused-arg':
            stmts = [fn(nm('f', i), ['u', 'w'], ret('w')) for i in range(n)]
        elif family == 'functions-clean':
            stmts = [fn(nm('f', i), ['w'], ret('w')) for i in range(n)]
        elif family == 'redefined-function':
            stmts = [fn(nm('f', 0), ['w'], ret('w')) for _ in range(n + 1)]
        else:
            stmts = fast_copy([fn(nm('f', i), ['w'], ret('w')) for i in range(n)] * 2)
        calls = [_plog({'function': {'name': nm('f', i), 'args': [{'number': 1.0}, {'number': 2.0}]}}) for i in sorted({0, n // 2, n - 1}) if 0 <= i < n]
        return {'statements': stmts + calls + scale_tail()}
    body, args = scale_body(family, n, nm)
    if scope == 'top':
        if args is not None:
            return None
        return {'statements': body + scale_tail()}
    fn = {'name': 'work', 'statements': body}
    if args:                       # (the schema wants a non-empty list: n = 0 is the function without the member)
        fn['args'] = args
    call = _plog({'function': {'name': 'work', 'args': [{'number': 3.0}]}})
    if scope == 'fn':
        return {'statements': [{'function': fn}, call] + scale_tail()}
    # 'fn-after': the function under test comes AFTER the tail's statements (its own warnings are the late ones)
    return {'statements': scale_tail()[:-1] + [{'function': fn}, call, _plog({'string': 'end'})]}


def scale_cases(sizes, styles=None, rotate=0, every_scope=False):
    """(id, model) in ascending size (the first failing case of a family is its smallest size on the axis).
    The scope 'fn-after' is built for the sizes just above a round number only unless every_scope."""
    out = []
    k = rotate
    for n in sizes:
        for family in SCALE_FAMILIES + SCALE_FN_FAMILIES:
            after = ('fn-after',) if every_scope or n in (0, 1, 11, 17, 65, 101, 129, 300, 1001) else ()
            for scope in (('top', 'fn') + after if family in SCALE_FAMILIES else ('top',)):
                chosen = styles if styles is not None else [NAME_STYLES[k % len(NAME_STYLES)]]
                k += 1
                for sid, style in chosen:
                    model = scale_model(family, n, scope, style)
                    if model is not None:
                        out.append((f'scale:{family}:{scope}:{sid}:{n}', model))
    return out


def scale_tags(cid, model):
    _, family, scope, style, n = cid.split(':')
    return ['family:' + family, 'scope:' + scope, 'names:' + style, 'n=' + n]


def count_statements(model):
    return len(model['statements']) + sum(len(s['function']['statements']) for s in model['statements'] if 'function' in s)


def run_budget(model):
    """Statement budget of a semantic run: BUDGET, and room for one pass over every statement of a large model."""
    n = count_statements(model)
    return BUDGET if n <= 100 else 3 * n + 100


# ---------------------------------------------------------------------------------------------------------------------
# streams
# ---------------------------------------------------------------------------------------------------------------------

def shape_exprs(depth, leaves):
    """all expression trees of depth <= `depth` with at most `leaves` leaves over the small alphabet of lint-pointless-shapes"""
    if leaves < 1:
        return
    yield 1, {'variable': 'n'}
    yield 1, {'number': 1.0}
    yield 1, {'function': {'name': 'bump', 'args': []}}
    if depth <= 0:
        return
    for n, e in shape_exprs(depth - 1, leaves):
        yield n, {'group': e}
        yield n, {'unary': {'op': '-', 'expr': e}}
        yield n, {'unary': {'op': '!', 'expr': e}}
    for nl, left in shape_exprs(depth - 1, leaves - 1):
        for nr, right in shape_exprs(depth - 1, leaves - nl):
            for op in ('+', '&&'):
                yield nl + nr, {'binary': {'op': op, 'left': left, 'right': right}}


def pointless_shape_cases(depth, leaves):
    bump = {'function': {'name': 'bump', 'statements': [
        {'expr': {'name': 'count', 'expr': {'function': {'name': 'systemGlobalGet', 'args': [{'string': 'count'}, {'number': 0.0}]}}}},
        {'expr': {'expr': {'function': {'name': 'systemGlobalSet', 'args': [
            {'string': 'count'}, {'binary': {'op': '+', 'left': {'variable': 'count'}, 'right': {'number': 1.0}}}]}}}},
        {'expr': {'expr': {'function': {'name': 'systemLog', 'args': [{'string': 'bump'}]}}}},
        {'return': {'expr': {'number': 2.0}}}]}}
    use_n = {'expr': {'expr': {'function': {'name': 'systemLog', 'args': [{'variable': 'n'}]}}}}
    seen = set()
    ix = 0
    for _, e in shape_exprs(depth, leaves):
        key = json.dumps(e, sort_keys=True)
        if key in seen:
            continue
        seen.add(key)
        ix += 1
        top = [bump, {'expr': {'name': 'n', 'expr': {'number': 3.0}}}, {'expr': {'expr': e}}, use_n]
        yield f'shape{ix}-top', {'statements': top}
        if ix % 4 == 0:
            body = [{'expr': {'name': 'n', 'expr': {'number': 3.0}}}, {'expr': {'expr': e}}, use_n]
            yield f'shape{ix}-fn', {'statements': [bump, {'function': {'name': 'g', 'statements': body}},
                                                   {'expr': {'expr': {'function': {'name': 'g', 'args': []}}}}]}


# ---- the LAZY constructs: if(...) with 0-5 operands, && and ||, with a call at EVERY operand position ---------------------------
#
# The runtime evaluates `if(test, a, b, ...)` in place: the test, then operand 1 OR operand 2; operands from index 3 on never.
# `l && r` / `l || r` evaluate r only for a truthy / falsy l.  Which operand of such a construct runs is decided by the VALUES of a
# run, so 'this statement is pointless' is justified only if no operand that SOME run evaluates holds a call.  The other streams
# put calls into lazy constructs at random and run every script under one set of globals: a call in the false-value operand was
# seldom alone there and the test in front of it was seldom false.  Here the position of the call is the generated dimension:
# every frame (if with 0..5 operands, &&, ||, and one frame nested in every operand of another) x every operand position holding
# the only call (and none, all, thorough: every subset) x the kind of call x the expression context of the frame x the scope, and
# the ONE expression statement is executed under every truth assignment of the call-free tests / left operands (the values come
# in as parameters of the enclosing function or from a list the top-level loop walks), so each operand position is the evaluated
# one in some pass of the run.  The call-free value operands are chosen so that a frame is truthy exactly when its test / left
# operand is (if: truthy true-value, falsy false-value; &&: truthy right; ||: falsy right): a frame nested in a test position passes
# both truth values on.  Judged by the delete-and-run oracle (semantic:pointless) - the Lean mirror says 'a statement with a call is
# never reported', which is stricter than the property (a call in a never-evaluated operand may be reported).
# ---------------------------------------------------------------------------------------------------------------------

LAZY_WRAPS = ['bare', 'group', 'not', 'neg', 'plus-left', 'plus-right', 'eq-null', 'not-group', 'call-arg']
LAZY_KINDS = ['script', 'fnvar', 'lib-log', 'lib-set', 'lib-push', 'undefined']
LAZY_TRUTHY = [('true', {'variable': 'true'}), ('1', {'number': 1.0}), ("'a'", {'string': 'a'})]
LAZY_FALSY = [('false', {'variable': 'false'}), ('0', {'number': 0.0}), ("''", {'string': ''}), ('null', {'variable': 'null'})]
LAZY_LITS = ([('t', e) for _, e in LAZY_TRUTHY] + [('t', {'string': '0'}), ('t', {'number': -1.0}), ('t', {'number': 0.5}), ('t', {'string': ' '})] +
             [('f', e) for _, e in LAZY_FALSY] + [('f', {'variable': 'zzUnset'})])     # literal tests (value_boolean: '0' and ' ' are true)
LAZY_HEAD = ['function emit(tag, v):', "    systemLog('emit ' + tag)", "    systemGlobalSet('count', systemGlobalGet('count', 0) + 1)",
             '    return v', 'endfunction', 'fv = emit', 'n = 3']
LAZY_INFO = {}      # case id -> {'evaluated': bool, 'roles': [...]}  (filled by lazy_cases, read by lazy_tags)


def _lazy_base():
    return ([('if%d' % k, ['if'] + [None] * k) for k in range(6)] + [('and', ['&&', None, None]), ('or', ['||', None, None])])


def lazy_templates(depth):
    """[(id, template)]; a template is ['if', operand...] / ['&&', left, right] / ['||', left, right], an operand is None (a slot) or a
    template."""
    out = list(_lazy_base())
    if depth >= 2:
        for oid, outer in _lazy_base():
            for pos in range(1, len(outer)):
                for iid, inner in _lazy_base():
                    t = list(outer)
                    t[pos] = inner
                    out.append((f'{oid}.{pos - 1}-{iid}', t))
    return out


def lazy_slots(t, live=True):
    """roles of the slots of a template in left-to-right order: test / true-value / false-value / never (if operand 3+) / left /
    and-right / or-right; a slot below a never-evaluated operand is 'never'"""
    out = []
    for pos, child in enumerate(t[1:]):
        if t[0] == 'if':
            role = ['test', 'true-value', 'false-value'][pos] if pos < 3 else 'never'
        else:
            role = 'left' if pos == 0 else ('and-right' if t[0] == '&&' else 'or-right')
        ok = live and role != 'never'
        if child is None:
            out.append(role if ok else 'never')
        else:
            out.extend(lazy_slots(child, ok))
    return out


def lazy_call(kind, tag, v):
    if kind in ('script', 'fnvar'):
        return {'function': {'name': 'emit' if kind == 'script' else 'fv', 'args': [{'string': tag}, v]}}
    if kind == 'lib-log':
        return {'function': {'name': 'systemLog', 'args': [{'string': 'log ' + tag}]}}
    if kind == 'lib-set':
        return {'function': {'name': 'systemGlobalSet', 'args': [{'string': 'gs'}, v]}}
    if kind == 'lib-push':
        return {'function': {'name': 'arrayPush', 'args': [{'variable': 'garr'}, {'string': tag}]}}
    return {'function': {'name': 'lazyNope', 'args': [v]}}


def lazy_build(t, calls, kind, lits=None):
    """template -> (expression, names of the control variables it reads).  Slot i holds a call iff i in calls; a call-free test / left
    slot is the control variable c<j> (or the literal lits[j]), a call of a script function there passes c<j> through."""
    state = {'slot': 0, 'ctl': 0}

    def walk(node, role):
        if node is None:
            ix = state['slot']
            state['slot'] += 1
            if role in ('test', 'left'):
                j = state['ctl']
                state['ctl'] += 1
                v = fast_copy(lits[j]) if lits is not None else {'variable': f'c{j}'}
            elif role in ('true-value', 'and-right'):
                v = {'number': 1.0}
            elif role == 'false-value':
                v = {'variable': 'null'}
            elif role == 'or-right':
                v = {'number': 0.0}
            else:
                v = {'variable': 'n'}
            return lazy_call(kind, f's{ix}', v) if ix in calls else v
        if node[0] == 'if':
            roles = ['test', 'true-value', 'false-value']
            return {'function': {'name': 'if', 'args': [walk(c, roles[p] if p < 3 else 'never') for p, c in enumerate(node[1:])]}}
        return {'binary': {'op': node[0], 'left': walk(node[1], 'left'), 'right': walk(node[2], 'and-right' if node[0] == '&&' else 'or-right')}}
    expr = walk(t, 'top')
    text = json.dumps(expr)
    return expr, [f'c{j}' for j in range(state['ctl']) if f'"variable": "c{j}"' in text], state['ctl']


def lazy_wrap(e, wrap):
    if wrap == 'group':
        return {'group': e}
    if wrap in ('not', 'neg'):
        return {'unary': {'op': '!' if wrap == 'not' else '-', 'expr': e}}
    if wrap == 'not-group':
        return {'unary': {'op': '!', 'expr': {'group': e}}}
    if wrap == 'plus-left':
        return {'binary': {'op': '+', 'left': e, 'right': {'number': 1.0}}}
    if wrap == 'plus-right':
        return {'binary': {'op': '+', 'left': {'number': 1.0}, 'right': e}}
    if wrap == 'eq-null':
        return {'binary': {'op': '==', 'left': e, 'right': {'variable': 'null'}}}
    if wrap == 'call-arg':       # (a call: never pointless, whatever its arguments are)
        return {'function': {'name': 'arrayNew', 'args': [{'number': 1.0}, e]}}
    return e


def lazy_envs(m, salt):
    """all truth assignments of m control variables as source text; the spelling of true / false rotates"""
    out = []
    for bits in range(2 ** m):
        env = []
        for j in range(m):
            pool = LAZY_TRUTHY if (bits >> (m - 1 - j)) & 1 == 0 else LAZY_FALSY
            env.append(pool[(salt + bits + j) % len(pool)][0])
        out.append(env)
    return out


def lazy_probe_path(model):
    for path in statement_paths(model):
        st = model['statements'][path[0]]
        for ix in path[1:]:
            st = st['function']['statements'][ix]
        if 'expr' in st and st['expr']['expr'].get('function', {}).get('name') == 'lazyProbe':
            return path, st
    raise ValueError('no probe statement')


def lazy_model(expr, cvars, scope, salt):
    """The script around the ONE expression statement: the statement runs once per truth assignment of the control variables."""
    envs = lazy_envs(len(cvars), salt)
    if scope == 'fn':
        lines = LAZY_HEAD + ['function probe(%s):' % ', '.join(cvars), '    lazyProbe()', "    systemLog('after')", 'endfunction']
        lines += ['probe(%s)' % ', '.join(env) for env in envs]
    else:
        lines = LAZY_HEAD + ['envs = arrayNew(%s)' % ', '.join('arrayNew(%s)' % ', '.join(env) for env in envs), 'for env in envs:']
        lines += [f'    {c} = arrayGet(env, {j})' for j, c in enumerate(cvars)]
        lines += ['    lazyProbe()', "    systemLog('after')", 'endfor']
    model = fw.impl()['parser'].parse_script('\n'.join(lines) + '\n')
    path, st = lazy_probe_path(model)
    st['expr']['expr'] = expr
    return model, path


def lazy_placements(nslots, full):
    sets = [()] + [(i,) for i in range(nslots)] + ([tuple(range(nslots))] if nslots >= 2 else [])
    if full:
        sets = [tuple(i for i in range(nslots) if (bits >> i) & 1) for bits in range(2 ** nslots)]
    return sets


def lazy_cases(rng, full):
    """(case id, model) of the lint-lazy-operands stream; quick: depth-1 frames x placements x wraps x kinds (scope in turn), depth-2
    frames x placements (wrap, kind, scope in turn), literal tests; thorough: every subset of the slots, both scopes, every kind."""
    LAZY_INFO.clear()
    out = []
    turn = [0]

    def add(tid, t, calls, wrap, kind, scope, lits=None, litid=''):
        roles = lazy_slots(t)
        expr, cvars, _ = lazy_build(t, set(calls), kind, lits)
        model, path = lazy_model(lazy_wrap(expr, wrap), cvars, scope, turn[0])
        turn[0] += 1
        cid = f'lazy:{tid}:{"+".join(map(str, calls)) or "none"}:{wrap}:{kind}:{scope}{litid}'
        budget = run_budget(model)
        LAZY_INFO[cid] = {'roles': [roles[i] for i in calls], 'evaluated': not same_run(run_model(model, budget), run_model(without(model, path), budget))}
        LAZY_INFO[json.dumps(model)] = LAZY_INFO[cid]['evaluated'] or not calls
        out.append((cid, model))

    for tid, t in lazy_templates(2):
        nested = '-' in tid
        nslots = len(lazy_slots(t))
        for pi, calls in enumerate(lazy_placements(nslots, full and nslots <= 5)):
            if not nested:
                for wi, wrap in enumerate(LAZY_WRAPS):
                    for ki, kind in enumerate(LAZY_KINDS if calls else LAZY_KINDS[:1]):
                        for scope in (('top', 'fn') if full else (('top', 'fn')[(pi + wi + ki) % 2],)):
                            add(tid, t, calls, wrap, kind, scope)
            else:
                for kind in (LAZY_KINDS if full and calls else [rng.choice(LAZY_KINDS)]):
                    for scope in (('top', 'fn') if full else (rng.choice(('top', 'fn')),)):
                        add(tid, t, calls, rng.choice(LAZY_WRAPS), kind, scope)
    # literal tests / left operands: the truth value of the control position is written into the statement
    for tid, t in lazy_templates(2 if full else 1):
        nslots = len(lazy_slots(t))
        nctl = lazy_build(t, set(), 'script')[2]
        if nctl == 0:
            continue
        if nctl == 1:       # single frames: every spelling of true and false
            combos = [(f'{truth}{i}', [lit]) for i, (truth, lit) in enumerate(LAZY_LITS)]
        else:
            combos = []
            for bits in range(2 ** nctl):
                pick = [rng.choice([x for x in LAZY_LITS if x[0] == ('f' if (bits >> j) & 1 else 't')]) for j in range(nctl)]
                combos.append((''.join(x[0] for x in pick) + str(bits), [x[1] for x in pick]))
        for litid, lits in combos:
            for calls in lazy_placements(nslots, False):
                add(tid, t, calls, rng.choice(LAZY_WRAPS), rng.choice(LAZY_KINDS), rng.choice(('top', 'fn')), lits, ':lit-' + litid)
    return out


def lazy_tags(cid, model):
    parts = cid.split(':')
    info = LAZY_INFO.get(cid, {'roles': [], 'evaluated': False})
    roles = info['roles']
    at = 'none' if not roles else roles[0] if len(roles) == 1 else 'several'
    return ['frame:' + parts[1].split('-')[0].split('.')[0] + ('-nested' if '-' in parts[1] else ''), 'call-at:' + at, 'wrap:' + parts[3],
            'call:' + parts[4], 'scope:' + parts[5], 'tests:' + ('literal' if len(parts) > 6 else 'variable'),
            'call-evaluated-in-some-pass' if info['evaluated'] else ('no-call' if not roles else 'call-never-evaluated')]


def statement_paths(model):
    """Paths of all statements: (i,) top level, (i, j) statement j of the function at i, (i, j, k) one level deeper."""
    out = []

    def walk(prefix, stmts):
        for ix, st in enumerate(stmts):
            out.append(prefix + (ix,))
            if 'function' in st:
                walk(prefix + (ix,), st['function']['statements'])
    walk((), model['statements'])
    return out


def without(model, path):
    m = fast_copy(model)
    stmts = m['statements']
    for ix in path[:-1]:
        stmts = stmts[ix]['function']['statements']
    del stmts[path[-1]]
    return m


def oracle_failures(model, reprs=()):
    found = []

    def report(oracle, input_, expected, actual, **extra):
        found.append(dict(extra, oracle=oracle, input=jsonable(input_), expected=jsonable(expected), actual=jsonable(actual)))
    check_model(fast_copy(model), report, {}, semantic_cap=1000, reprs=reprs)
    return found


def shrink_model(model, oracle, budget=600, reprs=()):
    """Delta debugging on statements: drop statements while the same oracle still fails on the implementation."""
    calls = 0
    changed = True
    while changed and calls < budget:
        changed = False
        for path in reversed(statement_paths(model)):
            if calls >= budget:
                break
            cand = without(model, path)
            calls += 1
            if any(f['oracle'] == oracle and f['input'].get('repr') == (reprs[0] if reprs else None) for f in oracle_failures(cand, reprs)):
                model = cand
                changed = True
    return model


def tags_of(parsed, model):
    tags = sorted({'w:' + w['kind'] for w in parsed}) or ['w:none']
    tags.append('fn%d' % min(3, sum(1 for s in model['statements'] if 'function' in s)))
    return tags


def run_cases(ctx, name, rule, cases, semantic_cap=8, liveness=False, reprs='rotate', extra_tags=None, nontrivial_fn=None, shrink=True,
              spread=False):
    """cases: [(case id / text, model)]; liveness: non-trivial = some binding of the case is observably used;
    reprs: host representations in which every case is linted as well ('rotate': one of REPRS per case, in turn);
    shrink=False: witnesses are reported as found (the scale stream: cases come in ascending size, the size IS the input);
    spread: see judge_warnings"""
    st = ctx.stream(name, rule)
    stats = {}
    models = []
    every = ctx.scale(4, 2)
    if os.environ.get('C18_TIMING'):
        print(f'[timing] {name}: start at {ctx.elapsed():.1f}s, cases', file=sys.stderr)
    for cid, model in cases:
        try:
            fw.impl()['model'].validate_script(fast_copy(model))
        except Exception:  # pylint: disable=broad-except
            stats['schema-invalid'] = stats.get('schema-invalid', 0) + 1
            continue
        models.append((cid, model))
    resps = ctx.driver.batch([{'op': 'lint', 'script': canon_script(m)} for _, m in models])

    for n, ((cid, model), resp) in enumerate(zip(models, resps)):
        if reprs == 'rotate':      # the big random streams: one representation per case, in turn (quick: for every fourth case, thorough: every second)
            case_reprs = [REPRS[(n // every) % len(REPRS)]] if n % every == 0 else []
        else:
            case_reprs = list(reprs) + [REPRS[2 + n % (len(REPRS) - 2)]]

        def report(oracle, input_, expected, actual, cid=cid, **extra):
            w = dict(extra, oracle=oracle, input=jsonable(input_), expected=jsonable(expected), actual=jsonable(actual))
            wr = [w['input']['repr']] if isinstance(w['input'], dict) and w['input'].get('repr') else []
            if F19(w):   # known finding: keep a few examples, do not let them crowd out other witnesses
                stats['F19-witness'] = stats.get('F19-witness', 0) + 1
                if stats['F19-witness'] > 25:
                    return
                ctx.witness(oracle, w['input'], w['expected'], w['actual'], stream=name, case=cid, **extra)
                return
            if shrink and stats.get('shrunk', 0) < 3 and isinstance(w['input'], dict) and 'model' in w['input']:
                # the first witnesses of a stream are minimised (so that the replay file holds a small input)
                stats['shrunk'] = stats.get('shrunk', 0) + 1
                small = shrink_model(w['input']['model'], oracle, reprs=wr)
                again = [f for f in oracle_failures(small, wr) if f['oracle'] == oracle and f['input'].get('repr') == (wr[0] if wr else None)]
                if again:
                    f = again[0]
                    rest = {k: v for k, v in f.items() if k not in ('oracle', 'input', 'expected', 'actual')}
                    ctx.witness(oracle, f['input'], f['expected'], f['actual'], stream=name, case=cid, shrunk=True, **rest)
                    return
            if not shrink:
                stats['witnesses'] = stats.get('witnesses', 0) + 1
                if stats['witnesses'] > 12:     # (large inputs: a dozen of them say it all)
                    return
            ctx.witness(oracle, w['input'], w['expected'], w['actual'], stream=name, case=cid, **extra)
        impl_out = check_model(model, report, stats, semantic_cap, reprs=case_reprs, spread=spread)
        model_out = resp.get('warnings', resp)
        ctx.compare(name, {'case': cid, 'model': model}, impl_out, model_out)
        parsed = parse_warnings(model, impl_out) if isinstance(impl_out, list) else []
        tags = tags_of(parsed, model) + (extra_tags(cid, model) if extra_tags else [])
        nontrivial = nontrivial_fn(model) if nontrivial_fn else bool(parsed)
        if liveness:
            focus = cid.split(':') if isinstance(cid, str) and cid.startswith('flow:') else None
            live = binding_liveness(model, stats, only=focus[1] if focus else None)
            nontrivial = live > 0
            if focus:    # the matrix: is the ONE read of the focus variable observable (would a wrong warning for it be noticed)?
                _, _, bind, site, wrap, order = focus
                tags += ['bind:' + bind, 'site:' + site, 'wrap:' + wrap, 'order:' + order] if live else ['read-not-observable']
            else:
                tags.append('live-bindings%d' % min(live, 4))
        st.case(canon_script(model), nontrivial=nontrivial, tags=tags)
    for k, v in sorted(stats.items()):
        st.hist['stat:' + k] = st.hist.get('stat:' + k, 0) + v
    return st


def load_corpus():
    out = []
    if os.path.exists(CORPUS):
        with open(CORPUS, encoding='utf-8') as fh:
            for n, line in enumerate(fh):
                line = line.strip()
                if line and not line.startswith('#'):
                    d = json.loads(line)
                    out.append((d.get('id', f'corpus{n}'), d))
    return out


def corpus_models():
    parser = fw.impl()['parser']
    cases = []
    for cid, d in load_corpus():
        if d.get('nested'):
            continue
        cases.append((cid, parser.parse_script(d['text']) if 'text' in d else d['model']))
    return cases


def structured_cases(rng, n):
    parser = fw.impl()['parser']
    out = []
    tries = 0
    while len(out) < n and tries < 3 * n:
        tries += 1
        text = SrcGen(rng).script()
        try:
            out.append((text, parser.parse_script(text)))
        except parser.BareScriptParserError:
            continue
    return out


def streams(ctx):
    run_cases(ctx, 'lint-corpus', 'hand-picked models (duplicate labels shared between scopes, last-statement jumps, names that '
              'collide with generated labels, re-assigned arguments, non-ASCII names, rest marker without names, flags present and false, '
              'self-assignments that bind, re-bound library names, twin functions, effectful operands of if / && / ||); each also linted with shared nodes; non-trivial = at '
              'least one warning', corpus_models(), reprs=['share-expr', 'share-all'])

    rng = ctx.rng('lint-structured')
    run_cases(ctx, 'lint-structured', 'random BareScript source (assignments, calls, if/elif/else, while, for, break/continue, '
              'functions with duplicate/unused arguments, returns, user labels and jumps, effect-free statements) parsed by the real '
              'parse_script; non-trivial = lint reports at least one warning', structured_cases(rng, ctx.scale(2500, 25000)))

    rng = ctx.rng('lint-jump')
    run_cases(ctx, 'lint-jump', 'random hand-built jump-level models, schema-validated: user labels (incl. non-ASCII, generated-name '
              'look-alikes), duplicate labels, dangling jumps, duplicate functions/arguments, unused labels, effect-free expression '
              'statements, includes; non-trivial = at least one warning',
              [(f'jump{i}', JumpGen(rng).model()) for i in range(ctx.scale(3500, 40000))])

    rng = ctx.rng('lint-flow-sites')
    flow = []
    for cid, text in flow_matrix(rng, full=not ctx.quick):
        flow.append((cid, fw.impl()['parser'].parse_script(text)))
    run_cases(ctx, 'lint-flow-sites', 'read-site matrix: one function-local variable or argument (plain name / name shared with a global) x '
              'how it is bound (assigned once / twice / under a condition, 1st / 2nd / rest / re-assigned argument, for-loop value / '
              'index) x the ONE site that reads it (its own update through a user / library call, a chain of own updates, another '
              "variable's assignment, return, call statement, if / elif / while / jumpif condition, for-loop values, callee position) x "
              'the expression context of the read (bare, group, unary, either side of a binary, call argument at any position / depth, '
              'builtin if) x textual order (read after the binding / before it, reached on the next turn of a loop); every read flows into '
              'a log line, a global or the result, and a genuinely unused variable stands next to it; quick = all pairs of dimensions + a '
              'sample, thorough = the full product; non-trivial = renaming the binding of at least one variable changes the run '
              '(lint may not call it unused)', flow, semantic_cap=1000, liveness=True)

    rng = ctx.rng('lint-flow-random')
    run_cases(ctx, 'lint-flow-random', 'random data-flow functions over a pool of 1-3 locals and 0-2 arguments, each with a read profile '
              '(never read / read only at one kind of site: own updates, other assignments, return, conditions, call statements, callee '
              'position / any mix); expressions route reads through sinks (logging user function, systemGlobalSet, arrayPush on a '
              'global array, a helper function, function-valued variables) inside if / elif / while / for / jumpif / break / continue; '
              'non-trivial = renaming the binding of at least one variable changes the run',
              flow_random_cases(rng, ctx.scale(1200, 12000)), semantic_cap=1000, liveness=True)

    rng = ctx.rng('lint-names')
    run_cases(ctx, 'lint-names', 'hostile names at every name position of a small script (global / function label, jump target, assigned / '
              'read variable, function name, callee, parameter, its read, include url; one position, a definition-use pair, or all at '
              "once): the schema's own type / member / operator names (read from BARE_SCRIPT_TYPES) whole and as substring of a longer "
              'name, dict / object attribute names of the host language (keys, get, __class__, ...), literals (true, null, if), empty and '
              'blank names, numerals, quotes / format directives / fragments of lint messages, names of 300-5000 characters, non-ASCII '
              '(composed / decomposed, case-folding pitfalls, astral, zero-width, bidi, U+FFFF); quick = every variant for the schema\'s '
              'member names + a sample for the others, thorough = every variant for every name; non-trivial = at least one warning',
              name_sweep(rng, full=not ctx.quick))

    rng = ctx.rng('lint-unicode-names')
    run_cases(ctx, 'lint-unicode-names', 'names over the non-ASCII part of the identifier alphabet (the grammar\'s \\w is every Unicode '
              'alphanumeric): superscript / subscript / circled / dingbat / parenthesised digits (No: str.isdigit() and not isdecimal(), '
              'int() rejects them), numbers that are no digits (fractions, Roman, CJK, cuneiform numerals: isnumeric() only), decimal '
              'digits of other scripts (Arabic-Indic, Devanagari, Bengali, Thai, fullwidth, mathematical, NKo, Adlam: int() accepts '
              'them), ordinal indicators, title-case / modifier letters, precomposed letters, and - hand-built models only - letters '
              'with combining marks (canonical-reordering twins, enclosing marks, keycap, ZWJ); each at the END of a name, after an ASCII '
              'digit, in a run, in the middle, before an ASCII digit, at the start and as the whole name; plus digit suffixes beyond '
              'the host\'s int-string limit and numeral look-alikes (v1e5, v_1_000, v0x1f, v 1); at every name position of the small '
              'template at once, at single positions / definition-use pairs (quick: 1-3 sampled, thorough: all 20), and as SOURCE TEXT '
              'through the real parse_script where the parser takes the name as an identifier (slot:parsed); class tags come from the '
              'host\'s own str predicates; oracles as everywhere (lint-raises, lint-impure, exact:*, semantic:*, runtime:unknown-jump); '
              'TWINS: ' + str(len(UNI_TWINS)) + ' pairs of distinct names that are equal after NFC / NFKC normalisation, case folding, digit '
              'value or removal of default-ignorable characters (x\u00b2 / x2, fullwidth / Arabic-Indic / mathematical 2 / 2, x2 / x02, composed / '
              'decomposed, reordered marks, Angstrom / Kelvin / Ohm / micro signs, sharp s / ss, long s / s, ligature fi, dotless i), one at '
              'the definition and the other at the use of each kind of name (both ways round) and both defined in one scope - the '
              'runtime keeps them apart, so must the warnings; non-trivial = at least one warning',
              unicode_name_cases(rng, full=not ctx.quick) + twin_cases(full=not ctx.quick), extra_tags=uni_tags)

    rng = ctx.rng('lint-names-random')
    run_cases(ctx, 'lint-names-random', 'programs of the jump-level, data-flow and source generators with 3/4 of their names (variables, '
              'functions, parameters / labels / include urls; each name space separately, consistently and injectively) replaced by '
              'hostile spellings from the same pool; non-trivial = at least one warning',
              hostile_random_cases(rng, ctx.scale(900, 9000)))

    run_cases(ctx, 'lint-pointless-shapes', 'ALL unassigned expression statements whose expression is a tree of depth <= 2 (thorough: 3) over '
              '{variable, number, call bump(), group, unary -, unary !, binary + and &&} with at most 3 leaves, in a script that defines '
              'bump (logs and counts), at top level and inside a function: pointless iff the tree holds no call; every reported '
              'statement is deleted and the run compared (semantic oracle); non-trivial = the expression holds a call or a warning is '
              'reported', pointless_shape_cases(ctx.scale(2, 3), 3), semantic_cap=100000)

    rng = ctx.rng('lint-lazy-operands')
    run_cases(ctx, 'lint-lazy-operands', 'ONE unassigned expression statement built from the LAZY constructs - the built-in if with 0, 1, 2, 3, 4, '
              '5 operands (operands 3+ are never evaluated), && and ||, each alone and with one of them nested in every operand of another '
              '(' + str(len(lazy_templates(2))) + ' frames) - x the operand position(s) that hold a call: none, each single position (test, '
              'true-value, false-value, never-evaluated operand, left, right), all (thorough: every subset) x the call {script function '
              'that logs, counts and passes its argument through; the same through a function-valued variable; systemLog; systemGlobalSet '
              '(effect only in the final globals); arrayPush on a global array; an undefined function (effect = the run fails)} x the '
              'context of the frame {bare, group, !, unary -, either side of +, == null, !(...), argument of a library call} x scope '
              '{top level, function body}; the statement is EXECUTED UNDER EVERY TRUTH ASSIGNMENT of its call-free tests / left operands '
              '(spelled true / 1 / \'a\' and false / 0 / \'\' / null in turn): as parameters of the enclosing function called once per '
              'assignment, or read from a list the enclosing top-level loop walks - so every operand position is the evaluated one in some '
              'pass; the call-free value operands make a frame truthy exactly when its test / left operand is; also with the truth values '
              'written into the statement as literals (single frames: every spelling incl. the strings 0 and blank, -1, 0.5, an unset variable; one case per spelling); quick: single frames in the full product of position x '
              'call x context, nested frames with call / context / scope drawn at random; oracle: every reported statement is deleted and '
              'the run compared (result, log, final globals) - a call in an operand that no run evaluates MAY be reported, the Lean mirror '
              '(no statement with a call is reported) is stricter than the property; tag call-evaluated-in-some-pass = deleting the '
              'statement changes the run, i.e. a wrong warning for it would be a witness; non-trivial = that, or the statement holds no call (and is reported)',
              lazy_cases(rng, full=not ctx.quick), semantic_cap=1000, extra_tags=lazy_tags,
              nontrivial_fn=lambda m: bool(LAZY_INFO.get(json.dumps(m))))

    sizes = ctx.scale(SCALE_SIZES_QUICK, SCALE_SIZES_THOROUGH)
    run_cases(ctx, 'lint-scale', 'SCALE axis: one count n in {' + ', '.join(map(str, sizes)) + '} is the generated dimension - n unused / '
              'used / unknown labels, one label defined n+1 times, n labels defined twice, n pointless statements, n assigned-and-unread / '
              'assigned-and-read variables, n variables used before assignment, n unused / read parameters, one parameter n+1 times, n '
              'parameters twice, a mix of all statement kinds (each in the global scope, in a function in front of and in a function '
              'behind the other statements - quick: behind for n = 0, 1, 11, 17, 65, 101, 129, 300 only), n functions with / without a warning, one function defined n+1 times, n functions defined '
              'twice; every model ends in a fixed tail whose warnings of every exact kind are the LAST of lint\'s output (late function: '
              'duplicate argument, unknown label, redefined label; redefined function; unknown and redefined global label), so warnings '
              'lost / truncated / merged after many others show in exact:*; the i-th name is numbered in one of ' +
              str(len(NAME_STYLES)) + ' styles in turn (quick; thorough: sizes up to 17 in every style): ' + ', '.join(sid for sid, _ in NAME_STYLES) +
              '; the semantic oracles take the first, last and evenly spaced warnings of each kind, runs get a statement budget of 3 x '
              'statements + 100; cases in ascending n, witnesses are not shrunk (the smallest failing n of the axis is reported first); '
              'non-trivial = n > 0',
              scale_cases(sizes, rotate=ctx.rng('lint-scale').randrange(len(NAME_STYLES)), every_scope=not ctx.quick) +
              ([] if ctx.quick else scale_cases([s for s in sizes if 2 <= s <= 17], styles=NAME_STYLES[1:])),
              semantic_cap=ctx.scale(2, 6), extra_tags=scale_tags, nontrivial_fn=lambda m: count_statements(m) > 24, shrink=False, spread=True)

    # ---- optional members, removable-looking statements, shared nodes, histories ----
    covered = schema_optional_members()
    st = run_cases(ctx, 'lint-optional-members', 'every presence combination of the optional members of each struct of the schema (read from '
                   'BARE_SCRIPT_TYPES: ' + ', '.join(covered) + '): function definitions args {absent, 1, 2, 3 names, a duplicate} x '
                   'lastArgArray {absent, false, true} x async {absent, false, true} x body reads {no statements, nothing, first, last, all '
                   'names}, called with 0 / 1 / 4 actuals; the headers the parser accepts with names, blanks and the rest marker independently '
                   'present (`function f(...):` = flag without names); expression / assignment / return / jump statements over every kind of '
                   'expression incl. calls without and with an empty args member, return / jump without expression, jumps to a defined / '
                   'undefined label, includes with system {absent, false, true}; each at top level, inside and at the end of a function; the '
                   'Lean model decodes all of these and is compared; non-trivial = at least one warning', optional_member_cases(),
                   semantic_cap=1000, reprs=ctx.scale(['share-all'], REPRS),
                   extra_tags=lambda cid, m: ['opt:' + ':'.join(cid.split(':')[1:2])])
    for missing in sorted(set(covered) - set(OPT_COVERED)):
        st.hist['schema-optional-member-not-in-generator:' + missing] = 1
    st.exhaustive = False

    parser = fw.impl()['parser']
    run_cases(ctx, 'lint-noop-lookalikes', 'statements that look removable and names that look unused but are not: self-assignment in 9 '
              'spellings (v = v, v = (v), v = v + 0, v = if(true, v, v), ...) x the name {a global of the run, bound nowhere} x its binding state '
              '(function: only a global / already a local / an argument / bound on one path; top level: never assigned / assigned before / '
              'later), followed by a callee that updates the global and reads of both; calls of side-effect-free library functions (plain, in '
              'a binary / group / unary, assigned to an unused variable) whose name is the library function / re-defined by the script / a '
              'global / local / argument holding a logging function; dead stores, jumps to the next statement, trailing returns, bare '
              'variable statements, shadowed globals; every warning goes through the rename / delete-and-run oracle (a reported statement of '
              'ANY form is deleted); non-trivial = at least one warning',
              [(cid, parser.parse_script(text)) for cid, text in noop_lookalike_cases()], semantic_cap=1000, reprs=ctx.scale(['share-expr'], REPRS))

    rng = ctx.rng('lint-shared-nodes')
    base = []
    sample = flow_matrix(rng, full=False)
    for cid, text in rng.sample(sample, min(len(sample), ctx.scale(150, 1500))):
        base.append((cid, parser.parse_script(text)))
    base += [(f'flow{i}', m) for i, (_, m) in enumerate(flow_random_cases(rng, ctx.scale(120, 1500)))]
    base += [(f'jump{i}', JumpGen(rng).model()) for i in range(ctx.scale(150, 1500))]
    base += [(f'src{i}', m) for i, (_, m) in enumerate(structured_cases(rng, ctx.scale(80, 1000)))]
    shared = [('twin:' + cid, with_twins(m, rng)) for cid, m in base]
    run_cases(ctx, 'lint-shared-nodes', 'HOST-ONLY representation (the Lean model has values, not object identity: it is compared on the '
              'value): programs of the read-site matrix, the data-flow, jump-level and source generators in which (most) functions have an '
              'equal twin under another name in front of / behind them and a few of their statements repeated at top level, linted as an '
              'object graph in which structurally equal compound expression nodes are ONE object (share-expr) and in which every equal dict '
              'and list - leaves, statements, statement lists, argument lists - is one object (share-all), plus one of {dict / list / str / '
              'float subclasses, read-only containers that raise on modification, reversed / sorted member order, OrderedDict} in turn '
              '(every other stream lints each case in ONE of the seven representations, in turn); oracles: no exception, model '
              'unchanged, same warnings as the plain tree (lint-representation), and every warning that only the representation gets is '
              'renamed / deleted and run (the warnings of the plain tree: one per kind, they are the business of the other streams); non-trivial = at least one compound expression occurs in two scopes (tag shared-exprs)', shared,
              semantic_cap=1, reprs=['share-expr', 'share-all'], nontrivial_fn=lambda m: cross_scope_shared(m) > 0,
              extra_tags=lambda cid, m: ['shared-exprs%d' % min(5, cross_scope_shared(m)), 'base:' + cid.split(':')[1].rstrip('0123456789')])

    history_stream(ctx)

    shipped = []
    inc_dir = os.path.join(os.path.dirname(fw.impl()['model'].__file__), 'include')
    for path in sorted(glob.glob(os.path.join(inc_dir, '*.bare'))):
        with open(path, encoding='utf-8') as fh:
            shipped.append((os.path.basename(path), fw.impl()['parser'].parse_script(fh.read())))
    st = run_cases(ctx, 'lint-shipped', 'every shipped include/*.bare (lint is expected to be silent on them); non-trivial = the file '
                   'defines at least one function', [])
    resps = ctx.driver.batch([{'op': 'lint', 'script': canon_script(m)} for _, m in shipped])
    for (cid, model), resp in zip(shipped, resps):
        def report(oracle, input_, expected, actual, cid=cid, **extra):
            ctx.witness(oracle, {'file': cid, **jsonable(input_)}, jsonable(expected), jsonable(actual), stream='lint-shipped', **extra)
        stats = {}
        impl_out = check_model(model, report, stats)
        ctx.compare('lint-shipped', cid, impl_out, resp.get('warnings', resp))
        nfn = sum(1 for s in model['statements'] if 'function' in s)
        st.case(cid, nontrivial=nfn > 0, tags=[f'warnings{len(impl_out)}', 'functions%d+' % (10 * (nfn // 10))])
    st.exhaustive = True

    rng = ctx.rng('lint-nested')
    nested = [(cid, d['model']) for cid, d in load_corpus() if d.get('nested')]
    nested += [(f'nested{i}', JumpGen(rng, nested=True).model()) for i in range(ctx.scale(300, 800))]
    run_cases(ctx, 'lint-nested', 'jump-level models in which function bodies may contain function statements (finding F19: lint does '
              'not look inside them); the model mirrors the non-descending behaviour; non-trivial = at least one warning', nested,
              semantic_cap=3)
    for name in ('lint-shared-nodes', 'lint-noop-lookalikes', 'lint-corpus', 'lint-structured', 'lint-jump', 'lint-nested', 'lint-pointless-shapes', 'lint-flow-sites', 'lint-flow-random', 'lint-names', 'lint-names-random', 'lint-unicode-names', 'lint-scale', 'lint-lazy-operands'):
        ctx.streams[name].exhaustive = False


def history_stream(ctx):
    rng = ctx.rng('lint-history')
    st = ctx.stream('lint-history', 'HOST-ONLY histories (the Lean model is a function of the value and is compared on every value linted): '
                    'episodes of 5-12 steps over 1-3 model objects drawn from the jump-level, source, data-flow and optional-member '
                    'generators: lint an object again, lint after the object was modified IN PLACE (statements deleted / appended / swapped, '
                    'argument lists grown / shrunk, a function renamed to the name of another, a statement object grafted from another '
                    'model), lint after calls that failed on malformed input, lint after the caller cleared / extended / reversed the list '
                    'it was given; oracle lint-history: the warnings equal those of a fresh copy of the current value, the object is not '
                    'modified; oracle lint-fresh-process: every value linted is linted again, in order, by fresh interpreter processes '
                    'with string-hash seeds ' + ', '.join(map(str, HASHSEEDS)) + ' and gives the same list; non-trivial = the episode '
                    'modifies a model in place')
    if os.environ.get('C18_TIMING'):
        print(f'[timing] lint-history: start at {ctx.elapsed():.1f}s', file=sys.stderr)
    pool = [JumpGen(rng).model() for _ in range(ctx.scale(60, 600))]
    pool += [m for _, m in structured_cases(rng, ctx.scale(30, 300))] + [m for _, m in flow_random_cases(rng, ctx.scale(20, 200))]
    opt = optional_member_cases()
    pool += [m for _, m in rng.sample(opt, 30)]
    valid = []
    for m in pool:
        try:
            fw.impl()['model'].validate_script(fast_copy(m))
            valid.append(m)
        except Exception:  # pylint: disable=broad-except
            pass
    observed = []
    for n in range(ctx.scale(300, 4000)):
        ep = history_episode(rng, valid)
        bad = run_history(ep, observed)
        for step, want, got in bad[:1]:
            small = shrink_history(ep)
            sbad = run_history(small)
            if sbad:
                ep, (step, want, got) = small, sbad[0]
            ctx.witness('lint-history', {'history': ep, 'step': step}, jsonable(want), jsonable(got), stream='lint-history', case=f'episode{n}')
        edits = sum(1 for op in ep['ops'] if op[0] == 'edit')
        st.case(ep, nontrivial=edits > 0, tags=['edits%d' % min(edits, 4), 'fails%d' % min(2, sum(1 for op in ep['ops'] if op[0] == 'fail')),
                                                'spoils%d' % min(2, sum(1 for op in ep['ops'] if op[0] == 'spoil'))])
    # distinct values, in first-seen order
    seen = {}
    for value, warnings in observed:
        seen.setdefault(json.dumps(value, sort_keys=True), (value, warnings))
    values = [v for v, _ in seen.values()]
    local = [w for _, w in seen.values()]
    schema_ok = []
    for v in values:
        try:
            fw.impl()['model'].validate_script(fast_copy(v))
            schema_ok.append(True)
        except Exception:  # pylint: disable=broad-except
            schema_ok.append(False)
    resps = ctx.driver.batch([{'op': 'lint', 'script': canon_script(v)} for v in values])
    for v, w, r, ok in zip(values, local, resps, schema_ok):
        if ok:
            ctx.compare('lint-history', {'model': v}, w, r.get('warnings', r))
    st.hist['stat:values-linted'] = len(values)
    st.hist['stat:values-schema-invalid'] = schema_ok.count(False)
    for hs in HASHSEEDS:
        reported = 0
        for v, w, f, ok in zip(values, local, fresh_lint(values, hs), schema_ok):
            if ok and f != w and reported < 5:
                reported += 1
                small = shrink_fresh(v, hs)
                ctx.witness('lint-fresh-process', {'model': small, 'hashseed': hs}, lint_here(small), fresh_lint([small], hs)[0],
                            stream='lint-history')
    st.exhaustive = False


def shrink_history(ep):
    # Drop steps / models while some lint step still differs from the lint of a fresh copy
    ep = fast_copy(ep)
    changed = True
    while changed:
        changed = False
        for k in reversed(range(len(ep['ops']))):
            cand = dict(ep, ops=ep['ops'][:k] + ep['ops'][k + 1:])
            if run_history(cand):
                ep = cand
                changed = True
    for i in range(len(ep['models'])):      # models no remaining step needs become empty scripts
        cand = dict(ep, models=[m if j != i else {'statements': []} for j, m in enumerate(ep['models'])])
        if run_history(cand):
            ep = cand
    return ep


def lint_here(model):
    try:
        return fw.impl()['model'].lint_script(fast_copy(model))
    except Exception as exc:  # pylint: disable=broad-except
        return {'error': type(exc).__name__}


def fresh_differs(model, hashseed):
    return fresh_lint([model], hashseed)[0] != lint_here(model)


def shrink_fresh(model, hashseed, budget=40):
    # (each probe starts an interpreter: small budget)
    calls = 0
    changed = True
    while changed and calls < budget:
        changed = False
        for path in reversed(statement_paths(model)):
            if calls >= budget:
                break
            cand = without(model, path)
            calls += 1
            if fresh_differs(cand, hashseed):
                model = cand
                changed = True
    return model


# ---------------------------------------------------------------------------------------------------------------------
# search / replay / known findings
# ---------------------------------------------------------------------------------------------------------------------

def search(ctx):
    """Directed search: small models enumerated around each warning kind, then a larger random budget."""
    rng = ctx.rng('search')
    stats = {}

    def report(oracle, input_, expected, actual, **extra):
        if not (extra.get('nested') and F19(dict(extra, input=input_, expected=expected, actual=actual, oracle=oracle))):
            ctx.witness(oracle, jsonable(input_), jsonable(expected), jsonable(actual), stream='search', **extra)
    for _, model in corpus_models():
        check_model(model, report, stats)
    for _, model in scale_cases(SCALE_SIZES_QUICK[:4] + SCALE_SIZES_THOROUGH[4:]) + unicode_name_cases(rng, full=False):
        if len(ctx.witnesses) >= 5:
            return
        check_model(model, report, stats, semantic_cap=3, spread=True)
    for _, model in twin_cases():
        if len(ctx.witnesses) >= 5:
            return
        check_model(model, report, stats)
    for _, model in lazy_cases(rng, full=False):     # a call at every operand position of the lazy constructs, every truth assignment
        if len(ctx.witnesses) >= 5:
            return
        check_model(model, report, stats, semantic_cap=1000)
    parser = fw.impl()['parser']
    for _, model in optional_member_cases() + [(c, parser.parse_script(t)) for c, t in noop_lookalike_cases()]:
        if len(ctx.witnesses) >= 5:
            return
        check_model(model, report, stats, semantic_cap=1000, reprs=REPRS)
    for _, text in flow_matrix(rng, full=True):     # the whole read-site matrix
        if len(ctx.witnesses) >= 5:
            return
        check_model(fw.impl()['parser'].parse_script(text), report, stats, semantic_cap=1000)
    for i in range(ctx.scale(3000, 30000)):
        if len(ctx.witnesses) >= 5:
            return
        if i % 3 == 1:
            model = JumpGen(rng).model()
        else:
            got = structured_cases(rng, 1) if i % 3 else flow_random_cases(rng, 1)
            if not got:
                continue
            model = got[0][1]
        check_model(model, report, stats, semantic_cap=1000 if i % 3 == 0 else 8)


def replay(witness):
    found = []

    def report(oracle, input_, expected, actual, **extra):
        found.append(oracle)
    inp = witness['input']
    if witness['oracle'] == 'lint-history' or 'history' in inp:
        return bool(run_history(inp['history']))
    if witness['oracle'] == 'lint-fresh-process':
        return fresh_differs(inp['model'], inp.get('hashseed', 0))
    model = copy.deepcopy(inp['model']) if 'model' in inp else None
    if model is None:
        return False
    # a witness found in another host representation of the model is rebuilt in it (realise is deterministic)
    check_model(model, report, {}, semantic_cap=1000, reprs=[inp['repr']] if inp.get('repr') else ())
    return witness['oracle'] in found


def F19(w):
    """Known finding: the discrepancy disappears when function statements nested in function bodies are ignored."""
    model = w.get('input', {}).get('model')
    if not model or not has_nested_function(model):
        return False
    if w['oracle'].startswith('exact:'):
        return w.get('flat_expected') == w.get('actual')
    if w['oracle'] == 'runtime:unknown-jump' and isinstance(w.get('actual'), list) and 'probe' not in w['input']:
        # a run raised Unknown jump label for a label that is unknown in a nested function body only
        exp_all = expected_sets(model, nested=True)['unknown-label']
        m = re.search(r"label '(.*)'$", str(w.get('expected')))
        return bool(m) and any(not (sid is None or isinstance(sid, int)) and l == m.group(1) for sid, l in exp_all)
    return False


FINDING_MATCHERS = {'F19': F19}


def disagreement_known(d, known_findings):
    return False


LEVEL_TEXT = ('Theorems for every model (any number of statements, functions, labels): the Lean mirror of lint_script is a total function; '
              'per linted scope (global list, each top-level function body) the unknown-label warnings are exactly one per label that a jump of '
              'the scope targets and the scope does not define, which is exactly when the interpreter\'s first-match label search fails; '
              'unused-label warnings are exactly the defined-and-never-targeted labels; redefinition warnings are exactly the second and '
              'later definitions of a label / function / argument. The mirror is tied to model.lint_script by exact list equality of the '
              'warning texts on generated source, hand-built jump-level models and the shipped scripts; purity, never-raises and the semantic '
              'justification of each warning (rename / delete, run before and after) are checked on the real interpreter.')
LEVEL_NOTE = ('Trusted: Lean kernel; the correspondence harness and its JSON decoding. The semantic half (renaming an unused variable/argument, '
              'deleting an unused label / pointless statement preserves every run) is sampled on the real interpreter, not yet proved over '
              'Machine.execM. Known finding F19: function statements nested in function bodies are not linted.')
