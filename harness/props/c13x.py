"""C13 extension (BareProofs/C13Bridge.lean): ONE number text - the literal scanner of the expression parser model
(`ExprScan.scanNumber`, used by `ExprParse.parseExpr` of C01/C02/C06/C10) is C13's literal model (`NumText.literal`), up to the
script level (`v = <text>` through `Parser.parseScript` and `Machine.execute`).

Stream `literal-bridge`: number texts (value_string of doubles and ints from the C13 generators, plus hostile literal texts: Unicode
white space and digits, signs, fraction / exponent near-misses, random edits, trailing material) are sent to
  * `drv_c13`  op `literal`  (C13's model of `_R_EXPR_NUMBER.match` + `float(group 1)`),
  * `drv_c02`  op `parse`    (the expression parser model),
  * `drv_c06`  op `parse` and `drv_c01` op `exec` for the one-line script `v = <text>` (text-level parser model + machine on HostImpl),
  * the REAL `_R_EXPR_NUMBER` / `float`, `parse_expression`, `parse_script` + `execute_script`;
all must agree.  The two Lean models are compared with each other exactly where `C13Bridge.scanNumber_eq_literal` /
`parseExprL_number` / `parseExprL_neg_number` / `parseScript_assign` say they agree: on EVERY text, Unicode decimal digits included
(`ExprScan` has the Unicode `\\d` with the digit values; cases with a non-ASCII decimal digit are tagged `unicode-digit`).
Implementation oracles (property statement): `v = <value_string(x)>` binds `v` to exactly `x` (every finite x, both signs);
`'' + <text of an integral x>` evaluates to the same text.
"""

import importlib
import math
import re
import unicodedata

import fw

THEOREMS = [
    'C13Bridge.isPySpace_eq', 'C13Bridge.val_bridge', 'C13Bridge.numCore_eq_scanTok', 'C13Bridge.scanNumber_eq_literal',
    'C13Bridge.isDigit_eq_isDig', 'C13Bridge.digitVal_eq_digVal', 'C13Bridge.floatText_text_uni',
    'C13Bridge.scanners_agree_on_unicode_digit', 'C13Bridge.literal_never_floatRaises',
    'C13Bridge.parseExprL_number', 'C13Bridge.parseExprL_neg_number',
    'C13Bridge.parseExpr_valueString', 'C13Bridge.parseExpr_valueString_neg', 'C13Bridge.parseExpr_valueString_any',
    'C13Bridge.literal_parse_roundtrip', 'C13Bridge.literal_parse_roundtrip_neg',
    'C13Bridge.parseScript_assign', 'C13Bridge.execute_assign_number', 'C13Bridge.execute_assign_neg_number',
    'C13Bridge.assign_literal_roundtrip', 'C13Bridge.assign_text_roundtrip', 'C13Bridge.assign_float_roundtrip',
    'C13Bridge.parseExprL_concat_number', 'C13Bridge.concat_integral_roundtrip',
]
LEAN_TARGETS = ['BareProofs.C13Bridge']
EXTRA_TARGETS = ['drv_c02', 'drv_c06', 'drv_c01']

R_BIG_EXPONENT = re.compile(r'[eE][+-]?[\d_]{4,}')
TRAILERS = ['', '', '', ' ', '  ', '\t', ' + 1', '+1', ' - 2', '-2', 'x', ' x', ')', ' )', '.5', '.', 'e5', 'e+', 'e+1', 'E+1', '_1', ',', ' * 2',
            '\xa0', chr(0x3000), chr(0x663), ' ' + chr(0x663), '**2', ' == 1', '!', ' !', "''", ' e']
LEADERS = ['', '', '', '', ' ', '\t', '  ', '\n', '\x1f', '\xa0', chr(0x2003), '-', '- ', '--', '+', '!', '(', ' -', '-+', '+-']


def _base():
    return importlib.import_module('props.C13')


def _c02():
    return importlib.import_module('props.C02')


def ascii_digits_only(text):
    """every character that is a decimal digit for re / float() is an ASCII digit (a coverage tag only: the models agree everywhere)"""
    return all('0' <= c <= '9' for c in text if unicodedata.decimal(c, None) is not None)


def impl_literal(text):
    """_R_EXPR_NUMBER.match(text), float(group 1), len(group 0) - parser.py:579-583 through the module's own pattern object."""
    base = _base()
    pat = fw.impl()['parser']._R_EXPR_NUMBER  # pylint: disable=protected-access
    m = pat.match(text)
    if not m:
        return None
    try:
        return {'consumed': len(m.group(0)), 'value': base.canon_num(float(m.group(1)))}
    except ValueError:
        return 'floatRaises'


def model_literal(resp):
    base = _base()
    mm = resp.get('match', resp)
    if isinstance(mm, dict) and 'consumed' in mm:
        return {'consumed': mm['consumed'], 'value': base.canon_num(base.model_float(mm['value']))}
    return mm


def run_assign(text):
    """REAL parse_script + execute_script of `v = <text>` -> {'parse': 'ok' | 'error', 'run': 'ok' | class name | None, 'v': value}"""
    m = fw.impl()
    out = {'parse': 'ok', 'run': None, 'v': None}
    try:
        script = m['parser'].parse_script('v = ' + text)
    except Exception:  # pylint: disable=broad-except
        out['parse'] = 'error'
        return out
    try:
        g = {}
        m['runtime'].execute_script(script, {'globals': g, 'maxStatements': 10})
        out['run'] = 'ok'
        out['v'] = g.get('v', 'unset')
    except Exception as exc:  # pylint: disable=broad-except
        out['run'] = type(exc).__name__
    return out


def run_concat(text):
    m = fw.impl()
    try:
        return m['runtime'].execute_script(m['parser'].parse_script("return '' + " + text), {'maxStatements': 10})
    except Exception as exc:  # pylint: disable=broad-except
        return {'error': type(exc).__name__}


def text_cases(ctx):
    base = _base()
    rng = ctx.rng('literal-bridge')
    m = fw.impl()
    cases = []          # (text, origin, x | None)
    directed = base.directed_doubles()
    step = ctx.scale(7, 1)
    xs = directed[::step] + [0.0, -0.0, 5e-324, 1e16, 1e21, 1e22, 123.0, -2.5, 1.5e-7, 9007199254740993.0, 1.7976931348623157e308]
    xs += base.random_doubles(rng, ctx.scale(1500, 40000))
    for x in xs:
        vs = m['value'].value_string(x)
        if isinstance(vs, str):
            cases.append((vs, 'value-string', x))
    for n in base.int_cases(rng, ctx.scale(120, 1500)):
        if abs(n) < 10 ** 300:
            cases.append((str(n), 'int-text', float(n)))
    # hostile literal texts
    for _ in range(ctx.scale(1500, 40000)):
        r = rng.random()
        if r < 0.5:
            text = base.gen_float_text(rng)
        elif r < 0.8:
            x = rng.choice(xs)
            text = rng.choice(LEADERS) + base.mutate(rng, m['value'].value_string(x)) + rng.choice(TRAILERS)
        else:
            uni = 0.04 if rng.random() < 0.7 else rng.choice([0.5, 1.0])      # a family written (mostly) in non-ASCII decimal digits
            ip = base.gen_digits(rng, 1, rng.choice([1, 3, 18, 30]), uni=uni, us=0.02)
            fp = rng.choice(['', '', '.', '.' + base.gen_digits(rng, 1, 4, uni=uni, us=0.0)])
            ex = rng.choice(['', '', 'e+' + str(rng.randint(0, 320)), 'e-' + str(rng.randint(0, 340)), 'e' + str(rng.randint(0, 9)), 'E+1', 'e+', 'e-',
                             'e+' + base.gen_digits(rng, 1, 2, uni=uni, us=0.0), 'e-' + base.gen_digits(rng, 1, 3, uni=uni, us=0.0)])
            text = rng.choice(LEADERS) + ip + fp + ex + rng.choice(TRAILERS)
        if R_BIG_EXPONENT.search(text) or any(0xd800 <= ord(c) <= 0xdfff for c in text) or '\x00' in text:
            continue
        cases.append((text, 'hostile', None))
    return cases


def streams(ctx):
    base = _base()
    c02 = _c02()
    st = ctx.stream('literal-bridge',
                    'number texts (value_string of directed + random doubles, str(int); hostile literal texts with Unicode white space / digits, signs, '
                    'near-miss fractions and exponents, random edits, leading operators and trailing material) through NumText.literal (drv_c13), '
                    'ExprParse.parseExpr (drv_c02), Parser.parseScript (drv_c06) + Machine.execute on HostImpl (drv_c01) and the real '
                    '_R_EXPR_NUMBER/float, parse_expression, parse_script + execute_script; non-trivial = the literal pattern matches')
    cases = text_cases(ctx)
    drv2 = fw.Driver('drv_c02')
    drv6 = fw.Driver('drv_c06')
    drv1 = fw.Driver('drv_c01')
    lit = ctx.driver.batch([{'op': 'literal', 'text': t} for t, _, _ in cases])
    par = drv2.batch([{'op': 'parse', 'text': t} for t, _, _ in cases])
    scr_idx = [i for i, (t, origin, _) in enumerate(cases) if origin != 'hostile' or (i % 4 == 0 and '\n' not in t and '\r' not in t)]
    scr = dict(zip(scr_idx, drv6.batch([{'op': 'parse', 'chunks': ['v = ' + cases[i][0]]} for i in scr_idx])))
    exe_idx = [i for i in scr_idx if 'ok' in scr[i]]
    exe = dict(zip(exe_idx, drv1.batch([{'op': 'exec', 'script': scr[i]['ok'], 'globals': [], 'max': 10, 'fuel': 50} for i in exe_idx])))

    for i, (text, origin, x) in enumerate(cases):
        case = {'text': text, 'origin': origin}
        il = impl_literal(text)
        if 'skip' in lit[i]:
            continue
        ml = model_literal(lit[i])
        dom = True                       # C13Bridge.scanNumber_eq_literal has no hypothesis any more
        body = text.lstrip()
        tags = [origin, 'match' if isinstance(il, dict) else 'no-match', 'ascii-digits' if ascii_digits_only(text) else 'unicode-digit']
        whole = isinstance(ml, dict) and text[ml['consumed']:].strip() == ''
        if whole:
            tags.append('whole-text-literal')
        st.case([text[:200], len(text)], nontrivial=isinstance(il, dict), tags=tags)

        # (a) the C13 literal model against the real pattern + float(), Unicode included
        ctx.compare('literal-bridge:literal', case, il, ml)
        if il == 'floatRaises':
            ctx.witness('float(match.group(1)) never raises', case, 'a float', il)

        # (b) the expression parser model against the real parse_expression
        ip = c02.impl_out(c02.run_impl(text))
        if c02.in_model(text):
            ctx.compare('literal-bridge:parse_expression', case, ip, c02.model_out(par[i]))

        # (c) the two MODELS against each other, exactly where C13Bridge proves they agree (exact rationals, no rounding)
        if dom and isinstance(lit[i].get('match'), dict) and whole:
            q = lit[i]['match']['value']
            if not body.startswith('-'):
                ctx.compare('literal-bridge:models(parseExprL_number)', case, {'expr': {'number': q}}, par[i])
        if dom and body.startswith('-') and c02.in_model(text):
            inner = impl_literal(body[1:])
            if (isinstance(inner, dict) and isinstance(inner['value'], list) and body[1 + inner['consumed']:].strip() == ''
                    and not body[1:].lstrip().startswith(('-', '!'))):
                # `-<literal>`: the negation node over the literal's leaf, on the implementation too
                want = {'expr': {'unary': {'expr': {'number': inner['value']}, 'op': '-'}}}
                got = ip if 'expr' not in ip else {'expr': _numbers_to_canon(ip['expr'])}
                ctx.compare('literal-bridge:neg-is-unary-node', case, want, got)

        # (d) the one-line script `v = <text>`
        if i in scr:
            res = run_assign(text)
            if c02.in_model(text):
                ctx.compare('literal-bridge:parse_script', case, res['parse'], 'ok' if 'ok' in scr[i] else 'error')
            if 'ok' in scr[i]:
                want_model = {'statements': [{'expr': {'expr': par[i].get('expr'), 'name': 'v'}}]}
                ctx.compare('literal-bridge:models(parseScript_assign)', case, want_model, scr[i]['ok'])
                gl = dict((k, v) for k, v in exe[i].get('globals', []))
                mv = gl.get('v')
                if (isinstance(mv, dict) and 'n' in mv and res['run'] == 'ok' and c02.in_model(text) and isinstance(res['v'], float)
                        and _is_literal_tree(par[i].get('expr'))):      # arithmetic on inexact numbers is C03's business: literals only
                    mf = base.model_float(mv['n'])        # the sign of a zero is not carried by a rational: compared up to it
                    ctx.compare('literal-bridge:execute(v)', case, base.fhex(0.0 if res['v'] == 0 else res['v']),
                                base.fhex(0.0 if mf == 0 else mf))
            # implementation oracle = the property: the stringified number, as source, is the number
            if x is not None:
                got = base.fhex(res['v']) if res['run'] == 'ok' else {'parse': res['parse'], 'run': res['run']}
                if got != x.hex():
                    ctx.witness('script: v = <value_string(x)> binds v to x', {'double': x.hex(), 'text': text}, x.hex(), got)
                if x.is_integer() and abs(x) < 1e16 and fw.impl()['value'].value_string(x) == text:
                    back = run_concat(text)
                    if back != text:
                        ctx.witness("script: '' + <integral text> is the text", {'double': x.hex(), 'text': text}, text, back)


def _is_literal_tree(e):
    """`C13Bridge.litValue` is defined: a number leaf or the negation node over one"""
    if not isinstance(e, dict):
        return False
    if set(e) == {'number'}:
        return True
    return set(e) == {'unary'} and e['unary'].get('op') == '-' and set(e['unary'].get('expr', {})) == {'number'}


def _numbers_to_canon(e):
    """C02.canon_expr form ([num, den] numbers) -> C13.canon_num form ([str, str])"""
    if isinstance(e, dict):
        if set(e) == {'number'} and isinstance(e['number'], list):
            return {'number': [str(e['number'][0]), str(e['number'][1])]}
        return {k: _numbers_to_canon(v) for k, v in e.items()}
    if isinstance(e, list):
        return [_numbers_to_canon(v) for v in e]
    return e


def replay(witness):
    inp = witness.get('input', {})
    if not isinstance(inp, dict) or 'text' not in inp:
        return None
    if 'double' in inp:
        x = float.fromhex(inp['double'])
        res = run_assign(inp['text'])
        bad = not (res['run'] == 'ok' and _base().fhex(res['v']) == x.hex())
        if x.is_integer() and abs(x) < 1e16 and fw.impl()['value'].value_string(x) == inp['text']:
            bad = bad or run_concat(inp['text']) != inp['text']
        return bad
    return impl_literal(inp['text']) == 'floatRaises'


LEVEL_TEXT_EXT = ('C13Bridge: the number scanner of the expression parser model IS the C13 literal model for all texts (Unicode digits included); the text of every non-negative number parses, whole, to the number leaf; the one-line script v = <text> parsed and run by the machine binds v to the number (assign_literal_roundtrip).')
