"""C12 - one number type: int and float spellings of a number are interchangeable."""

import collections
import contextlib
import datetime
import decimal
import math
import re
import signal
import threading
from fractions import Fraction

import fw

ID = 'C12'
LEVEL = 'proof'
LEAN_TARGETS = ['BareProofs.C12']
DRIVER = 'drv_c12'
DRIVER_ROOT = 'Drv.C12'
GEN = ['Args']
THEOREMS = [
    'C12.libH_refines_lib', 'C12.spelling_irrelevant', 'C12.validate_spelling_irrelevant', 'C12.numcheck_spelling_irrelevant',
    'C12.validate_refines', 'C12.cmpEq_refines', 'C12.body_refines', 'C12.roundNumber_refines', 'C12.opMul_refines', 'C12.opPow_refines',
    'C12.unfixed_arraySet_not_refines', 'C12.opMulUnfixed_not_refines',
]
ASSUMPTIONS = [
    'Python int-vs-float mixed comparison and + - / % on integral values |n| < 1e15 are exact on the values (DESIGN 6); for the library '
    'functions outside the host-level subset numbers only flow into comparison/arithmetic/stringification and are covered by the libnum stream only',
    'float(n) is exact for |n| < 2^53; str(float) of an integral |n| < 1e15 is digits + ".0" (removed by R_NUMBER_CLEANUP)',
    'IEEE double: rounding is a function rnd of the exact value, idempotent, trunc of a double is a double, 10^d is a double for d <= 22 '
    '(hypotheses of C12.roundNumber_refines; pow(10.0, d) returns it exactly)',
    'the model is by-value: aliasing between arguments is covered by the implementation-side oracle only',
]
TRUSTED = ['CPython list/str/range/chr/int(text, radix)/slice typing of int vs float (modelled as partial host primitives in BareModel/LibH.lean)']

EXCLUDED = {
    'datetimeNow': 'clock', 'datetimeToday': 'clock', 'mathRandom': 'random',
    'systemFetch': 'fetch (excluded by the property; no fetchFn is passed)',
}
SPELLINGS = ('int', 'float', 'mix')
SPELLINGS_EXT = ('int', 'float', 'mix', 'xim')   # 'xim': alternating, the first number a float (mix: the first an int)
SPELLINGS_SUB = ('intsub', 'floatsub')           # instances of host SUBCLASSES of int / float: host ints and floats all the same
LIMIT = 10 ** 15


# ---------------------------------------------------------------------------------------------------------------------
# Encoded values (JSON-able, replayable):  None | bool | str | {'n': int} integral number (spelled per run) |
#   {'f': 'repr'} other float | {'a': [...]} | {'o': [[k, v]...]} | {'dt': [...]} | {'date': [...]} | {'re': [pat, flags]} |
#   {'fn': name} | {'same': i} (the identical object as top-level argument i)
#   a container may carry 'cls': the HOST-CREATED dict / list subclass it is an instance of ({'a': [...], 'cls': 'MyList'},
#   {'o': [...], 'cls': 'OrderedDict'}); without 'cls' it is the plain list / dict scripts create themselves
#   HOST-ONLY values of an unexpected but indexable type: {'tuple': [...]} | {'bytes': text} | {'range': n} | {'ikeys': [[int, v]...]} (a
#   dict with int keys) | {'strsub': text} (an instance of a str subclass) | {'dec': text} decimal.Decimal | {'frac': n} fractions.Fraction
#   {'f': '-0.0'} is the negative zero
# ---------------------------------------------------------------------------------------------------------------------

class MyDict(dict):
    """An application's own object class."""


class MyList(list):
    """An application's own array class."""


class SlotList(list):
    """An application's own array class without an instance dict."""
    __slots__ = ()


class MyStr(str):
    """An application's own string class."""


class HostInt(int):
    """A host number type derived from int (what an application's id / count / enum-like type is)."""


class HostFloat(float):
    """A host number type derived from float."""


def _defaultdict():
    return collections.defaultdict(list)


# value_type() says 'object' / 'array' for every one of these: they are ordinary values to the library
OBJ_CLASSES = {'OrderedDict': collections.OrderedDict, 'defaultdict': _defaultdict, 'Counter': collections.Counter, 'MyDict': MyDict}
ARR_CLASSES = {'MyList': MyList, 'SlotList': SlotList}
OBJ_CLASS_NAMES = sorted(OBJ_CLASSES)
ARR_CLASS_NAMES = sorted(ARR_CLASSES)


class CallTimeout(BaseException):
    """Raised inside the implementation when one call used more CPU time than allowed (not an Exception: the library's and the
    runtime's `except Exception` must not swallow it)."""


CALL_CPU_S = 5.0        # CPU seconds (ITIMER_VIRTUAL: independent of machine load and of check.py's SIGALRM budget); a call takes < 0.1 s
_SLOW = {}              # function / kind that timed out once -> a short limit from then on


@contextlib.contextmanager
def cpu_limit(key):
    """The implementation must never be able to hang the check: a call that spins (in one spelling only, say, because a range check
    is skipped for it) is cut off and reported as the outcome 'TIMEOUT', which the other spelling then differs from."""
    if threading.current_thread() is not threading.main_thread() or not hasattr(signal, 'setitimer'):
        yield
        return

    def on_timer(_sig, _frame):
        raise CallTimeout()
    old = signal.signal(signal.SIGVTALRM, on_timer)
    signal.setitimer(signal.ITIMER_VIRTUAL, _SLOW.get(key, CALL_CPU_S))
    try:
        yield
    except CallTimeout:
        _SLOW[key] = 0.1
        raise
    finally:
        signal.setitimer(signal.ITIMER_VIRTUAL, 0)
        signal.signal(signal.SIGVTALRM, old)


def N(n):
    return {'n': int(n)}


def A(*xs):
    return {'a': list(xs)}


def O(*pairs, **kw):
    return {'o': [list(p) for p in pairs] + [[k, v] for k, v in kw.items()]}


PRELUDE = '''\
function cmpNum(a, b):
    return a - b
endfunction
function cmpDesc(a, b):
    return systemCompare(b, a)
endfunction
function isTwo(v):
    return v == 2
endfunction
function isBig(v):
    return v > 2
endfunction
function elemAt(a, i):
    return arrayGet(a, i)
endfunction
function addOne(v):
    return v + 1
endfunction
function isOne(v):
    return v == 1
endfunction
function isZero(v):
    return v == 0
endfunction
function cmpOps(a, b):
    return if(a < b, 0 - 1, if(a == b, 0, 1))
endfunction
'''
SCRIPT_FNS = ['cmpNum', 'cmpDesc', 'isTwo', 'isBig', 'elemAt', 'addOne']
NB_SCRIPT_FNS = ['isOne', 'isZero', 'cmpOps']        # used by the equal-neighbours stream only (the random generators draw from SCRIPT_FNS)
SAFE_LIB_FNS = ['mathAbs', 'stringNew', 'systemType', 'arrayLength', 'systemBoolean', 'mathMax', 'arrayGet', 'stringLength',
                'systemCompare', 'mathFloor', 'stringSlice', 'arrayNew', 'stringCharCodeAt']
_ENV = {}


def env():
    """Function table (script functions of the prelude + library functions), rebuilt when the implementation is re-imported."""
    m = fw.impl()
    if _ENV.get('lib') is not m['library']:
        g = {}
        m['runtime'].execute_script(m['parser'].parse_script(PRELUDE), {'globals': g, 'maxStatements': 1000})
        _ENV.clear()
        _ENV.update({'lib': m['library'], 'script': {k: g[k] for k in SCRIPT_FNS + NB_SCRIPT_FNS}})
    return _ENV


class Speller:
    def __init__(self, spelling):
        self.spelling = spelling
        self.count = 0

    def num(self, n, role=None):
        self.count += 1
        if self.spelling.startswith('kc:'):
            # 'kc:if': the numbers in the KEY role (no 'role' mark) as int, the numbers marked {'n': .., 'role': 'c'} (held by the COLLECTION) as float
            return int(n) if self.spelling[4 if role == 'c' else 3] == 'i' else float(n)
        if self.spelling == 'int':
            return int(n)
        if self.spelling == 'float':
            return float(n)
        if self.spelling == 'xim':
            return float(n) if self.count % 2 else int(n)
        if self.spelling == 'intsub':
            return HostInt(n)
        if self.spelling == 'floatsub':
            return HostFloat(n)
        return int(n) if self.count % 2 else float(n)


def build(enc, sp):
    if enc is None or isinstance(enc, (bool, str)):
        return enc
    if 'n' in enc:
        return sp.num(enc['n'], enc['role']) if 'role' in enc else sp.num(enc['n'])
    if 'f' in enc:
        return float(enc['f'])
    if 'a' in enc:
        items = [build(x, sp) for x in enc['a']]
        return ARR_CLASSES[enc['cls']](items) if enc.get('cls') else items
    if 'o' in enc:
        obj = OBJ_CLASSES[enc['cls']]() if enc.get('cls') else {}
        for k, v in enc['o']:
            obj[k] = build(v, sp)
        return obj
    if 'dt' in enc:
        return datetime.datetime(*enc['dt'])
    if 'date' in enc:
        return datetime.date(*enc['date'])
    if 're' in enc:
        return re.compile(enc['re'][0], enc['re'][1])
    if 'fn' in enc:
        e = env()
        return e['script'][enc['fn']] if enc['fn'] in e['script'] else e['lib'].SCRIPT_FUNCTIONS[enc['fn']]
    if 'tuple' in enc:
        return tuple(build(x, sp) for x in enc['tuple'])
    if 'bytes' in enc:
        return enc['bytes'].encode('utf-8')
    if 'range' in enc:
        return range(enc['range'])
    if 'ikeys' in enc:
        return {int(k): build(v, sp) for k, v in enc['ikeys']}
    if 'strsub' in enc:
        return MyStr(enc['strsub'])
    if 'dec' in enc:
        return decimal.Decimal(enc['dec'])
    if 'frac' in enc:
        return Fraction(enc['frac'])
    raise ValueError(f'bad encoded value {enc!r}')


def build_args(encs, spelling, negzero=()):
    """`negzero`: top-level positions holding the number 0 that are built as the float -0.0 (an integral float whose int spelling is 0)."""
    sp = Speller(spelling)
    out = []
    for ix, enc in enumerate(encs):
        if isinstance(enc, dict) and 'same' in enc:
            out.append(out[enc['same']])
        elif ix in negzero and enc == {'n': 0}:
            out.append(-0.0)
        else:
            out.append(build(enc, sp))
    return out


def canon_num(v):
    if isinstance(v, float):
        if math.isnan(v):
            return ['n', 'nan']
        if math.isinf(v):
            return ['n', 'inf' if v > 0 else '-inf']
        if not v.is_integer():
            return ['n', v.hex()]
        v = int(v)
    return ['n', v if abs(v) < 10 ** 18 else hex(v)]


def canon(v, stack=()):
    """By-value canonical form: 2 and 2.0 are the same number; containers recursively (insertion order kept); cycles cut."""
    if v is None:
        return None
    if isinstance(v, bool):
        return ['b', v]
    if isinstance(v, (int, float)):
        return canon_num(v)
    if isinstance(v, str):
        return ['s', v]
    if isinstance(v, datetime.datetime):
        return ['dt', v.isoformat()]
    if isinstance(v, datetime.date):
        return ['date', v.isoformat()]
    if isinstance(v, (list, tuple, dict)):
        for depth, anc in enumerate(stack):
            if anc is v:
                return ['cycle', len(stack) - depth]
        st = stack + (v,)
        if isinstance(v, dict):
            return ['o', [[k if isinstance(k, str) else ['key', repr(k)], canon(x, st)] for k, x in v.items()]]
        return ['a' if isinstance(v, list) else 'tuple', [canon(x, st) for x in v]]
    if isinstance(v, re.Pattern):
        return ['re', v.pattern, v.flags]
    if callable(v):
        return ['fn']
    return ['other', type(v).__name__, str(v)]


def run_call(case, spelling, negzero=()):
    """One library call through the real call path (evaluate_expression of a function-call expression over variables).
    With case['expr'] = <name> the call goes through the built-in EXPRESSION function of that name (`fromCharCode`, `slice`, ...: the
    `builtins` lookup of evaluate_expression, the path of dataFilter / dataCalculatedField expressions) instead of a global."""
    m = fw.impl()
    lib, rt, val = m['library'], m['runtime'], m['value']
    e = env()
    fname = case['fn']
    via_expr = case.get('expr')
    call_name = via_expr or fname
    args = build_args(case['args'], spelling, negzero)
    inner = []
    args_errors = []
    real = lib.EXPRESSION_FUNCTIONS[via_expr] if via_expr else lib.SCRIPT_FUNCTIONS[fname]

    def wrapper(fargs, options):
        try:
            res = real(fargs, options)
        except Exception as exc:  # pylint: disable=broad-except
            inner.append(type(exc).__name__)
            if isinstance(exc, val.ValueArgsError):
                # the library's own argument-error text ('Invalid "x" argument value, <value_json of the argument>'): part of the
                # failure behaviour; texts of host exceptions (TypeError ...) are not compared
                args_errors.append(str(exc))
            raise
        inner.append('ok')
        return res

    g = dict(e['script'])
    base_names = set(g) | {call_name}
    if via_expr:
        g.pop(via_expr, None)
    else:
        g[fname] = wrapper
    for i, a in enumerate(args):
        g[f'a{i}'] = a
        base_names.add(f'a{i}')
    log = []
    opts = {'globals': g, 'maxStatements': 20000, 'statementCount': 0, 'logFn': log.append, 'debug': True}
    expr = {'function': {'name': call_name, 'args': [{'variable': f'a{i}'} for i in range(len(args))]}}
    escaped = None
    res = None
    try:
        with cpu_limit(fname):
            res = rt.evaluate_expression(expr, opts)
    except CallTimeout:
        escaped = 'TIMEOUT'
    except Exception as exc:  # pylint: disable=broad-except
        escaped = type(exc).__name__
    if via_expr:
        # no wrapper on the built-in path: the failure and the library's argument-error text are read from the debug log
        prefix = f'BareScript: Function "{call_name}" failed with error: '
        for ln in log:
            if ln.startswith(prefix):
                inner.append('failed')
                if ln[len(prefix):].startswith(('Invalid "', 'Too many arguments (')):
                    args_errors.append(ln[len(prefix):])
        if not inner:
            inner.append('ok')
    out = {
        'result': canon(res),
        'type': val.value_type(res),
        'escaped': escaped,
        'failed': bool(inner) and inner[0] != 'ok',
        'args_after': [canon(g.get(f'a{i}')) for i in range(len(args))],
        'result_is_arg': [i for i, a in enumerate(args) if res is a and isinstance(a, (list, dict))],
        'globals': [[k, canon(v)] for k, v in g.items() if k not in base_names],
        'log': [ln for ln in log if not ln.startswith('BareScript: Function "') or
                any(ln == f'BareScript: Function "{call_name}" failed with error: {msg}' for msg in args_errors)],
        'args_errors': args_errors,
    }
    # a function result: apply it to no arguments and compare what it computes
    if callable(res) and escaped is None:
        try:
            with cpu_limit(fname):
                out['applied'] = canon(res([], opts))
        except CallTimeout:
            out['applied'] = ['raised', 'TIMEOUT']
        except Exception as exc:  # pylint: disable=broad-except
            out['applied'] = ['raised', type(exc).__name__]
    return out, (inner[0] if inner else None)


def call_differs(case):
    outs = {}
    classes = {}
    for sp in SPELLINGS:
        outs[sp], classes[sp] = run_call(case, sp)
    differ = not (outs['int'] == outs['float'] == outs['mix'])
    return differ, outs, classes


# ---------------------------------------------------------------------------------------------------------------------
# Generators
# ---------------------------------------------------------------------------------------------------------------------

STRINGS = ['', 'abc', 'hello world', 'a,b,c', '12', 'ff', '  x ', '1.5', 'zz', 'h\u00e9llo', '-7', '1e3', '2020-01-31', 'abcabc',
           '2020-02-29T10:20:30.5+00:00', '{"a":1,"b":[2,3.0]}', '[1,2.0,3.5]', 'x + 1', 'a', 'b', 'A1b2', '0x1f', '101', ' 42 ', 'Z']
BIG = [10 ** 14, 10 ** 14 + 7, 10 ** 15 - 1, -(10 ** 14) - 3, 123456789012345]
EDGE = [-1, -2, 7, 10, 16, 22, 23, 36, 37, 100, 255, 1000, 65535, 1114111, 1114112]
FRACS = ['0.5', '1.5', '-2.25', '3.14159', '0.001', '2.675', '1.005', '-0.5', '2.5', '1e-07']
PATTERNS = [['a+', 0], ['(\\d+)', 0], ['[a-c]', 2], ['(?P<w>\\w+) (\\w+)', 0], [',', 0], ['^x', 8]]
DATETIMES = [{'dt': [2020, 1, 31, 10, 20, 30, 500000]}, {'dt': [1999, 12, 31, 23, 59, 59, 999000]}, {'dt': [2024, 2, 29]},
             {'date': [2021, 6, 15]}]
FIELDS = ['a', 'b', 'c']
EXPRS = ['a + b', 'a * 2', 'a > 1', 'a == 2', 'round(a / 3, 2)', 'fixed(a, 1)', 'slice(s, 1, 3)', 'rept(s, a)', 'charCodeAt(s, 1)',
         'if(a > 1, a, b)', 'max(a, b)', 'n + a', 'a', 'b', 'a % 2', 'text(a)', "a + ''", 'indexOf(s, s, a)', 'a / 2', '-a', 'parseInt(s, n)']
SCHEMA_TYPES = O(['A', O(struct=O(name='A', members=A(
    O(name='a', type=O(builtin='int'), attr=O(gt=N(2))),
    O(name='b', type=O(builtin='float'), optional=True, attr=O(lte=N(10))),
    O(name='c', type=O(array=O(type=O(builtin='int'))), optional=True, attr=O(lenGT=N(1))),
    O(name='d', type=O(builtin='string'), optional=True, attr=O(lenLT=N(5))))))],
    ['T', O(typedef=O(name='T', type=O(builtin='int'), attr=O(gte=N(0), lt=N(100))))],
    ['E', O(enum=O(name='E', values=A(O(name='x'), O(name='y'))))])


# Magnitude SCALE axis.  The property quantifies over every integral |n| < 1e15; an int-only or float-only idiom (n * n, n * 1000, int(n * k),
# n << k, '%d' % n, a 32-bit range check) is exact for small n and starts to differ at some magnitude: 2^31 / 2^32 (machine words), ~9.49e7 =
# sqrt(2^53) (a square leaves the exact range), 2^53 / 10^k = 9.0e12 / 9.0e9 ... (n * 10^k leaves it), 2^57 / 1000 = 1.44e14, 2^58 / 1000,
# 2^59 / 1000 (n * 1000 - milliseconds to microseconds - needs n to be a multiple of 2, 4, 8 to stay exact), 1e15 - 1 (the top of the
# range).  The 2^53 neighbourhood itself is OUTSIDE the quantifier (>= 1e15).  Every generator of numbers draws from this ladder: the point,
# its +-2 neighbourhood (both parities), random values of both parities in the band between two points, both signs.
SCALE_POINTS = [1, 2 ** 16, 10 ** 6, 2 ** 24, 94906267, 10 ** 9, 2 ** 31, 2 ** 32, 9007199255, 10 ** 10, 10 ** 12, 2 ** 40, 9007199254741, 10 ** 13,
                10 ** 14, 144115188075856, 2 ** 48, 288230376151712, 2 ** 49, 576460752303424, 10 ** 15 - 1]
SCALE_REQUIRED = [1, 2 ** 31, 94906267, 10 ** 9, 10 ** 12, 144115188075856, 10 ** 15 - 1]


def scale_values(points=None, radius=2, signs=(1, -1)):
    """The +-radius neighbourhood of every scale point, both signs, inside the quantifier (|n| < 1e15)."""
    out = []
    for p in points or SCALE_POINTS:
        for d in range(-radius, radius + 1):
            for s in signs:
                v = s * (p + d)
                if abs(v) < LIMIT and v not in out:
                    out.append(v)
    return out


# the small deterministic pool that goes to EVERY argument position of EVERY function and into the all-pairs operator table: the required
# points, an odd and an even value at each, a few negatives
SCALE_POOL = [2 ** 31, 2 ** 31 + 1, 94906267, 94906268, 10 ** 9, 10 ** 9 + 1, 10 ** 12, 10 ** 12 + 1, 144115188075856, 144115188075857, 10 ** 15 - 2,
              10 ** 15 - 1, -94906267, -(10 ** 9 + 1), -(10 ** 12 + 1), -144115188075857, -(10 ** 15 - 1)]


def gen_scaled(rng):
    """One integral number from the magnitude ladder: a neighbour of a scale point or a random value (random parity) of a band."""
    if rng.random() < 0.45:
        v = rng.choice(SCALE_POINTS) + rng.randint(-2, 2)
    else:
        i = rng.randrange(len(SCALE_POINTS) - 1)
        v = rng.randint(SCALE_POINTS[i], SCALE_POINTS[i + 1])
        if rng.random() < 0.5:
            v |= 1
    v = max(0, min(LIMIT - 1, v))
    return -v if rng.random() < 0.25 else v


def gen_num(rng, integral_bias=0.8):
    r = rng.random()
    if r < integral_bias * 0.7:
        return N(rng.randint(0, 6))
    if r < integral_bias * 0.85:
        return N(rng.choice(EDGE))
    if r < integral_bias:
        return N(rng.choice(BIG) if rng.random() < 0.4 else gen_scaled(rng))
    if r < 0.98:
        return {'f': rng.choice(FRACS)}
    return {'f': rng.choice(['nan', 'inf', '-inf', '1e300'])}


def gen_array(rng, depth=0, kind=None):
    kind = kind or rng.choice(['nums', 'nums', 'mixed', 'strs', 'rows', 'nested'])
    n = rng.randint(0, 6)
    if kind == 'nums':
        return A(*[N(rng.randint(-3, 9)) if rng.random() < 0.85 else gen_num(rng) for _ in range(n)])
    if kind == 'strs':
        return A(*[rng.choice(STRINGS) for _ in range(n)])
    if kind == 'rows':
        return gen_rows(rng)
    if kind == 'nested' and depth < 2:
        return A(*[gen_array(rng, depth + 1) for _ in range(rng.randint(0, 3))])
    return A(*[gen_any(rng, depth + 1) for _ in range(n)])


def gen_object(rng, depth=0):
    keys = rng.sample(['a', 'b', 'c', 's', 'k1', 'x y', '0', '1'], rng.randint(0, 4))
    return O(*[[k, gen_any(rng, depth + 1)] for k in keys])


def gen_rows(rng, fields=None, big=None):
    fields = fields or FIELDS
    rows = []
    # magnitude scale: now and then ONE field holds numbers of every magnitude in all rows (sums, averages, deviations, sort keys, join keys,
    # calculated fields over large values)
    big_fields = big if big is not None else ((rng.choice(fields),) if rng.random() < 0.15 else ())
    for _ in range(rng.randint(0, 6)):
        row = []
        for f in fields:
            r = rng.random()
            if r < 0.1:
                continue
            if f in big_fields and r < 0.9:
                row.append([f, N(gen_scaled(rng))])
                continue
            row.append([f, (N(rng.randint(0, 4)) if r < 0.72 else N(gen_scaled(rng))) if r < 0.75 else
                        (None if r < 0.8 else ({'f': rng.choice(FRACS)} if r < 0.9 else rng.choice(STRINGS)))])
        row.append(['s', rng.choice(['abc', 'hello', 'zz', '101'])])
        rows.append(O(*row))
    return A(*rows)


def gen_fn(rng):
    return {'fn': rng.choice(SCRIPT_FNS + SAFE_LIB_FNS)}


def gen_any(rng, depth=0):
    r = rng.random()
    if r < 0.42:
        return gen_num(rng)
    if r < 0.57:
        return rng.choice(STRINGS)
    if r < 0.62:
        return None
    if r < 0.67:
        return rng.random() < 0.5
    if r < 0.82 and depth < 3:
        return gen_array(rng, depth)
    if r < 0.91 and depth < 3:
        return gen_object(rng, depth)
    if r < 0.95:
        return rng.choice(DATETIMES)
    if r < 0.97:
        return {'re': rng.choice(PATTERNS)}
    return gen_fn(rng)


def gen_typed(rng, fname, am, ctx_args):
    """One argument drawn from one argument model entry (mostly valid)."""
    typ = am.get('type')
    if am.get('nullable') and rng.random() < 0.2:
        return None
    if typ == 'number':
        name = am.get('name')
        if name == 'digits':
            r = rng.random()
            return N(rng.randint(0, 8)) if r < 0.8 else (N(rng.randint(9, 22)) if r < 0.93 else N(rng.randint(23, 40)))
        if am.get('integer'):
            lo = am.get('gte') if am.get('gte') is not None else (am['gt'] + 1 if am.get('gt') is not None else None)
            hi = am.get('lte') if am.get('lte') is not None else (am['lt'] - 1 if am.get('lt') is not None else None)
            r = rng.random()
            if r < 0.7:
                base = int(lo) if lo is not None else rng.randint(-3, 3)
                v = base + rng.randint(0, 6)
                if hi is not None:
                    v = min(v, int(hi))
                return N(v)
            if r < 0.78:
                return N(int(lo)) if lo is not None else N(0)
            if r < 0.84 and hi is not None:
                return N(int(hi) + rng.randint(0, 1))
            if r < 0.89 and lo is not None:
                return N(int(lo) - 1)
            if r < 0.94:
                return N(rng.choice(BIG + EDGE)) if rng.random() < 0.6 else N(gen_scaled(rng))
            return {'f': rng.choice(FRACS)}
        return gen_num(rng, 0.6)
    if typ == 'string':
        return rng.choice(STRINGS)
    if typ == 'array':
        return gen_array(rng)
    if typ == 'object':
        return gen_object(rng)
    if typ == 'boolean':
        return rng.choice([True, False, N(0), N(1), None, '', 'x'])
    if typ == 'datetime':
        return rng.choice(DATETIMES)
    if typ == 'regex':
        return {'re': rng.choice(PATTERNS)}
    if typ == 'function':
        return gen_fn(rng)
    return gen_any(rng)


def gen_from_model(rng, fname, model):
    args = []
    n = len(model)
    # drop trailing optional arguments sometimes
    keep = n
    while keep > 0 and rng.random() < 0.25 and ('default' in model[keep - 1] or model[keep - 1].get('nullable') or
                                                 model[keep - 1].get('type') in (None, 'boolean') or model[keep - 1].get('lastArgArray')):
        keep -= 1
    for am in model[:keep]:
        if am.get('lastArgArray'):
            args.extend(gen_any(rng) for _ in range(rng.randint(0, 3)))
        else:
            args.append(gen_typed(rng, fname, am, args))
    if rng.random() < 0.03:
        args.append(gen_any(rng))
    return args[:6]


def _idx(rng, n):
    r = rng.random()
    return N(rng.randint(0, max(n - 1, 0))) if r < 0.75 else (N(n) if r < 0.85 else (N(n + 1) if r < 0.9 else gen_num(rng)))


def sp_array_index(rng, fname):
    arr = gen_array(rng, kind=rng.choice(['nums', 'mixed', 'strs']))
    n = len(arr['a'])
    if fname == 'arraySet':
        return [arr, _idx(rng, n), gen_any(rng)]
    if fname == 'arraySlice':
        return [arr, _idx(rng, n), rng.choice([None, _idx(rng, n), _idx(rng, n)])][:rng.choice([1, 2, 3, 3])]
    if fname in ('arrayIndexOf', 'arrayLastIndexOf'):
        r = rng.random()
        val = (rng.choice(arr['a']) if arr['a'] and r < 0.6 else ({'fn': rng.choice(['isTwo', 'isBig', 'systemBoolean'])} if r < 0.8 else gen_any(rng)))
        return [arr, val, _idx(rng, n)][:rng.choice([2, 3, 3])]
    return [arr, _idx(rng, n)]


def sp_string_index(rng, fname):
    s = rng.choice(STRINGS)
    n = len(s)
    if fname == 'stringSlice':
        return [s, _idx(rng, n), rng.choice([None, _idx(rng, n), _idx(rng, n)])][:rng.choice([2, 3, 3])]
    if fname in ('stringIndexOf', 'stringLastIndexOf'):
        sub = rng.choice([s[1:3], s[:1], 'b', 'o', '', 'zz', s])
        return [s, sub, _idx(rng, n)][:rng.choice([2, 3, 3])]
    if fname == 'stringRepeat':
        return [s, N(rng.choice([0, 1, 2, 3, 5, 40]))]
    return [s, _idx(rng, n)]


def sp_data(rng, fname, big=None):
    rows = gen_rows(rng, big=big)
    variables = rng.choice([None, O(n=N(rng.randint(1, 5))), O(n=N(2), s='xyz')])
    if fname == 'dataAggregate':
        ms = [O(field=rng.choice(FIELDS), function=rng.choice(['average', 'count', 'max', 'min', 'stddev', 'sum']))]
        if rng.random() < 0.3:
            ms.append(O(field=rng.choice(FIELDS), function=rng.choice(['sum', 'count']), name='m2'))
        agg = [['measures', A(*ms)]]
        if rng.random() < 0.7:
            agg.insert(0, ['categories', A(*rng.sample(FIELDS, rng.randint(1, 2)))])
        return [rows, O(*agg)]
    if fname == 'dataCalculatedField':
        return [rows, rng.choice(['z', 'a']), rng.choice(EXPRS), variables][:rng.choice([3, 4])]
    if fname == 'dataFilter':
        return [rows, rng.choice(EXPRS), variables][:rng.choice([2, 3])]
    if fname == 'dataJoin':
        return [rows, gen_rows(rng, big=big), rng.choice(['a', 'b', 'a + b', 'a * 1']), rng.choice([None, 'a', 'b']),
                rng.choice([True, False, N(1), N(0)]), variables][:rng.choice([3, 4, 5, 6])]
    if fname == 'dataSort':
        return [rows, A(*[A(rng.choice(FIELDS), rng.choice([True, False, N(1), N(0)])) if rng.random() < 0.7 else A(rng.choice(FIELDS))
                          for _ in range(rng.randint(1, 2))])]
    if fname == 'dataTop':
        return [rows, N(rng.choice([1, 1, 2, 3, 10])), rng.choice([None, A('a'), A('a', 'b'), A('s')])][:rng.choice([2, 3])]
    if fname == 'dataValidate':
        csv_rows = A(*[O(a=rng.choice(['1', '2.5', '', 'null', N(3)]), b=rng.choice(['true', 'x', '2020-01-01', N(1)])) for _ in range(rng.randint(0, 3))])
        return [rng.choice([rows, csv_rows]), rng.choice([True, False, N(1), N(0)])][:rng.choice([1, 2])]
    if fname == 'dataParseCSV':
        return [rng.choice(['a,b\n1,2\n3,4.5', 'a, b\n1, x', 'a\n2020-01-01\n', 'a,b', None, 'a\n1\n2', 'a,a\n1,2']) for _ in range(rng.randint(0, 3))]
    raise KeyError(fname)


def sp_misc(rng, fname):
    if fname == 'arrayNew':
        return [gen_any(rng) for _ in range(rng.randint(0, 5))]
    if fname in ('mathMax', 'mathMin'):
        return [gen_num(rng, 0.7) if rng.random() < 0.9 else gen_any(rng) for _ in range(rng.randint(0, 5))]
    if fname == 'objectNew':
        out = []
        for _ in range(rng.randint(0, 3)):
            out.append(rng.choice(['a', 'b', 'k']) if rng.random() < 0.9 else gen_any(rng))
            out.append(gen_any(rng))
        return out[:rng.choice([len(out), max(len(out) - 1, 0)])]
    if fname == 'stringFromCharCode':
        return [N(rng.randint(32, 126)) if rng.random() < 0.75 else rng.choice([N(1114111), N(1114112), N(-1), N(0), {'f': '65.5'}, 'a', N(955), N(10 ** 14)])
                for _ in range(rng.randint(0, 5))]
    if fname == 'schemaParse':
        return [rng.choice(['struct A', '    int(> 2) a', '    optional float(<= 10) b', '    int[len > 1] c', 'typedef int(>= 0, < 100) T', '', A('enum E', '  x'),
                            N(3)]) for _ in range(rng.randint(0, 5))]
    if fname == 'schemaParseEx':
        return [rng.choice([A('struct A', '    int(> 2) a', '    float[len < 3] c'), 'typedef int(< 5) T', N(1)]), rng.choice([None, O(), SCHEMA_TYPES]),
                rng.choice(['', 'f.smd'])][:rng.choice([1, 2, 3])]
    if fname == 'schemaValidate':
        tname = rng.choice(['A', 'A', 'A', 'T', 'E', 'Q'])
        if tname == 'A':
            v = O(*([['a', gen_num(rng)]] + ([['b', gen_num(rng, 0.6)]] if rng.random() < 0.6 else []) +
                    ([['c', gen_array(rng, kind='nums')]] if rng.random() < 0.6 else []) + ([['d', rng.choice(STRINGS)]] if rng.random() < 0.3 else [])))
        elif tname == 'T':
            v = rng.choice([gen_num(rng), N(rng.randint(-1, 101)), '5', '5.0'])
        else:
            v = rng.choice(['x', 'z', N(1)])
        return [SCHEMA_TYPES, tname, v]
    if fname == 'schemaValidateTypeModel':
        return [rng.choice([SCHEMA_TYPES, O(), O(['T', O(typedef=O(name='T', type=O(builtin='int'), attr=O(gte=gen_num(rng), lenLT=gen_num(rng))))])])]
    if fname == 'jsonParse':
        return [rng.choice(['{"a":1,"b":[2,3.0]}', '[1,2.0,3.5]', '1', '1.0', '"x"', 'nul', '{"a":{"b":10000000000000000000000}}', '1e3', '[]'])]
    if fname == 'jsonStringify':
        return [gen_any(rng), rng.choice([None, N(rng.randint(1, 8)), N(rng.randint(1, 8)), N(0), {'f': '2.5'}])][:rng.choice([1, 2, 2])]
    if fname == 'regexNew':
        p = rng.choice(PATTERNS)
        return [p[0], rng.choice([None, 'i', 'm', 's', 'im', 'x'])][:rng.choice([1, 2])]
    if fname in ('regexMatch', 'regexMatchAll', 'regexSplit'):
        return [{'re': rng.choice(PATTERNS)}, rng.choice(['aaa bbb', 'a1b22c333', 'hello world', 'x,y,z', ''])]
    if fname == 'regexReplace':
        return [{'re': rng.choice(PATTERNS)}, rng.choice(['aaa bbb', 'a1b22c333', 'hello world']), rng.choice(['-', '$1$1', '[$<w>]', '$$'])]
    if fname == 'datetimeISOParse':
        return [rng.choice(['2020-01-31', '2020-02-30', '2020-02-29T10:20:30.5+00:00', '2020-02-29T10:20:30Z', 'x', '2020-13-01'])]
    if fname == 'datetimeNew':
        args = [N(rng.randint(1900, 2100)), N(rng.randint(-5, 20)), N(rng.randint(-40, 70)), N(rng.randint(-30, 50)), N(rng.randint(-70, 130)),
                N(rng.randint(-70, 130)), N(rng.randint(-3000, 3000))]
        if rng.random() < 0.15:
            args[rng.randrange(7)] = rng.choice([N(10 ** 14), N(-(10 ** 14)), {'f': '1.5'}, N(10001), N(99), N(9999), N(10000)])
        return args[:rng.choice([3, 4, 5, 6, 7, 7])]
    if fname == 'numberParseInt':
        return [rng.choice(['12', 'ff', 'zz', '101', '-7', ' 42 ', '0x1f', 'Z', '1_0', '', '99999999999999', '1.5']),
                N(rng.choice([2, 8, 10, 16, 36, 36, 16, 10, 3, 37, 1, 0]))][:rng.choice([1, 2, 2, 2])]
    if fname == 'numberParseFloat':
        return [rng.choice(['12', '1.5', '1e3', 'x', ' 7 ', 'inf', 'nan', '-0', '1e400', '100000000000000'])]
    if fname in ('mathRound', 'numberToFixed'):
        x = rng.choice([N(rng.randint(-50, 50)), {'f': rng.choice(FRACS)}, {'f': rng.choice(['0.125', '2.5', '-2.5', '1.45', '8.345', '1234.5678', '0.000123'])},
                        N(rng.choice(BIG))])
        r = rng.random()
        d = N(rng.randint(0, 6)) if r < 0.7 else (N(rng.randint(7, 22)) if r < 0.93 else N(rng.randint(23, 60)))
        if fname == 'mathRound':
            return [x, d][:rng.choice([1, 2, 2, 2])]
        return [x, d, rng.choice([True, False, N(1), N(0)])][:rng.choice([1, 2, 3, 3])]
    if fname == 'systemPartial':
        choice = rng.choice(['arrayGet', 'mathMax', 'elemAt', 'stringSlice', 'mathRound', 'addOne', 'arrayNew', 'cmpNum'])
        if choice in ('arrayGet', 'elemAt'):
            arr = gen_array(rng, kind='nums')
            return [{'fn': choice}, arr, _idx(rng, len(arr['a']))]
        if choice == 'stringSlice':
            return [{'fn': choice}, 'hello world', N(rng.randint(0, 5)), N(rng.randint(5, 11))]
        if choice == 'mathRound':
            return [{'fn': choice}, {'f': rng.choice(FRACS)}, N(rng.randint(0, 6))]
        return [{'fn': choice}] + [gen_num(rng) for _ in range(rng.randint(0, 3))]
    if fname == 'arraySort':
        arr = gen_array(rng, kind=rng.choice(['nums', 'nums', 'strs', 'mixed']))
        return [arr, rng.choice([None, {'fn': 'cmpNum'}, {'fn': 'cmpDesc'}, {'fn': 'systemCompare'}])][:rng.choice([1, 2, 2])]
    if fname in ('systemGlobalGet', 'systemGlobalSet'):
        return [rng.choice(['gname', 'a0', 'a1', 'zz']), gen_any(rng)][:rng.choice([1, 2, 2])]
    if fname == 'arrayNewSize':
        return [N(rng.choice([0, 1, 2, 3, 5, 17])), gen_any(rng)][:rng.choice([0, 1, 2, 2])]
    if fname in ('systemIs', 'systemCompare'):
        # the same value twice: under the alternating spelling one side is an int and the other a float
        v = rng.choice([gen_num(rng), gen_num(rng), gen_array(rng, kind='nums'), gen_object(rng), gen_any(rng)])
        return [v, v] if rng.random() < 0.7 else [v, gen_any(rng)]
    if fname in ('arrayExtend', 'arrayPush') and rng.random() < 0.3:
        return [gen_array(rng), {'same': 0}]
    raise KeyError(fname)


SPECIAL = {}
for _n in ('arrayDelete', 'arrayGet', 'arraySet', 'arraySlice', 'arrayIndexOf', 'arrayLastIndexOf'):
    SPECIAL[_n] = sp_array_index
for _n in ('stringCharCodeAt', 'stringSlice', 'stringIndexOf', 'stringLastIndexOf', 'stringRepeat'):
    SPECIAL[_n] = sp_string_index
for _n in ('dataAggregate', 'dataCalculatedField', 'dataFilter', 'dataJoin', 'dataSort', 'dataTop', 'dataValidate', 'dataParseCSV'):
    SPECIAL[_n] = sp_data
for _n in ('arrayNew', 'mathMax', 'mathMin', 'objectNew', 'stringFromCharCode', 'schemaParse', 'schemaParseEx', 'schemaValidate',
           'schemaValidateTypeModel', 'jsonParse', 'jsonStringify', 'regexNew', 'regexMatch', 'regexMatchAll', 'regexSplit', 'regexReplace',
           'datetimeISOParse', 'datetimeNew', 'numberParseInt', 'numberParseFloat', 'mathRound', 'numberToFixed', 'systemPartial', 'arraySort',
           'systemGlobalGet', 'systemGlobalSet', 'arrayNewSize', 'arrayExtend', 'arrayPush', 'systemIs', 'systemCompare'):
    SPECIAL[_n] = sp_misc

# arguments that size an allocation / a loop: never let a generated number make the implementation allocate gigabytes or spin
SIZE_ARGS = {'arrayNewSize': [0], 'stringRepeat': [1], 'jsonStringify': [1]}


def tame(fname, args):
    if fname == 'datetimeNew':
        # hour/minute/second/millisecond overflow is carried into `day` without bound and then walked month by month:
        # datetimeNew(2020, 1, 1, 1e14) spins for hours in either spelling (not a spelling question) - keep the carry small
        for ix in range(3, min(len(args), 7)):
            if isinstance(args[ix], dict) and 'n' in args[ix] and abs(args[ix]['n']) > 10 ** 6:
                args[ix] = N(10 ** 6 if args[ix]['n'] > 0 else -(10 ** 6))
            if isinstance(args[ix], dict) and 'f' in args[ix] and args[ix]['f'] in ('1e300', 'inf', '-inf', 'nan'):
                args[ix] = N(5)
    if fname in ('mathRound', 'numberToFixed') and len(args) >= 2 and isinstance(args[1], dict) and 'n' in args[1] and args[1]['n'] > 400:
        # inside F15 territory anyway: with an int digit count `10 ** digits` is an exact integer - 10 ** 100000000000000 never finishes
        # (the float spelling overflows to null at once); keep the exponent small enough to terminate
        args[1] = N(400)
    for ix in SIZE_ARGS.get(fname, ()):
        if ix < len(args) and isinstance(args[ix], dict) and 'n' in args[ix] and args[ix]['n'] > 3000:
            args[ix] = N(3000 if fname != 'jsonStringify' else 40)
        if ix < len(args) and isinstance(args[ix], dict) and 'f' in args[ix] and args[ix]['f'] in ('1e300', 'inf'):
            args[ix] = N(7)
    if any(isinstance(a, str) and 'rept(' in a for a in args):
        # an expression string that repeats text by a row value: keep every number of the case small enough to allocate
        args[:] = [cap_nums(a, 70000) for a in args]
    return args


def arg_models():
    """function name -> its argument model (found semantically: the `_*_ARGS` global the function body refers to)."""
    lib = fw.impl()['library']
    out = {}
    for name, fn in lib.SCRIPT_FUNCTIONS.items():
        names = [n for n in getattr(fn, '__code__', None).co_names if n.endswith('_ARGS')] if hasattr(fn, '__code__') else []
        if names and isinstance(getattr(lib, names[0], None), list):
            out[name] = (names[0], getattr(lib, names[0]))
    return out


def gen_case(rng, fname, models):
    r = rng.random()
    args = None
    if r < 0.08:
        args = [gen_any(rng) for _ in range(rng.randint(0, 5))]
        how = 'random-typed'
    elif fname in SPECIAL and (r < 0.65 or fname not in models):
        try:
            args = SPECIAL[fname](rng, fname)
            how = 'directed'
        except KeyError:
            args = None
    if args is None:
        if fname in models:
            args = gen_from_model(rng, fname, models[fname][1])
            how = 'arg-model'
        else:
            args = [gen_any(rng) for _ in range(rng.randint(0, 3))]
            how = 'random-typed'
    return {'kind': 'call', 'fn': fname, 'args': tame(fname, list(args))}, how


def count_nums(enc):
    if isinstance(enc, dict):
        if 'n' in enc:
            return 1
        if 'a' in enc:
            return sum(count_nums(x) for x in enc['a'])
        if 'o' in enc:
            return sum(count_nums(v) for _, v in enc['o'])
    return 0


# ---------------------------------------------------------------------------------------------------------------------
# Operators
# ---------------------------------------------------------------------------------------------------------------------

BIN_OPS = ['**', '*', '/', '%', '+', '-', '<=', '<', '>=', '>', '==', '!=', '&&', '||']
UN_OPS = ['-', '!']
OP_NUMS = [0, 1, -1, 2, 3, 7, 10, 40, 53, 64, 100, 400, 1000, 99999999, 94906267, 10 ** 14 + 1, 10 ** 15 - 1, -(10 ** 14) - 3,
           2 ** 31, 10 ** 9 + 1, 10 ** 12 + 1, 144115188075857, -144115188075857, 288230376151713]
OP_OTHERS = [{'f': '0.5'}, {'f': '-1.5'}, {'f': '2.25'}, {'f': '1e-07'}, 'abc', '', '5', None, True, False,
             {'dt': [2020, 1, 31, 10, 20, 30, 500000]}, {'date': [2021, 6, 15]}, A(N(1), N(2)), A(N(1), A(N(2), 'x')), A(), O(a=N(1)), O(a=N(1), b=A(N(2))),
             {'re': ['a+', 0]}, {'fn': 'cmpNum'}, {'dt': [1, 1, 1]}, {'dt': [1000, 1, 1]}, {'dt': [9999, 12, 31, 23, 59, 59, 999000]}]


def run_op(case, spl, spr):
    m = fw.impl()
    rt = m['runtime']
    g = {}
    if case['kind'] == 'unary':
        g['l'] = build(case['left'], Speller(spl))
        expr = {'unary': {'op': case['op'], 'expr': {'variable': 'l'}}}
    else:
        g['l'] = build(case['left'], Speller(spl))
        g['r'] = build(case['right'], Speller(spr))
        expr = {'binary': {'op': case['op'], 'left': {'variable': 'l'}, 'right': {'variable': 'r'}}}
    before = {k: canon(v) for k, v in g.items()}
    try:
        with cpu_limit('op' + case['op']):
            res = rt.evaluate_expression(expr, {'globals': g, 'maxStatements': 1000, 'statementCount': 0})
        out = {'result': canon(res), 'type': m['value'].value_type(res)}
    except CallTimeout:
        out = {'escaped': 'TIMEOUT'}
    except Exception as exc:  # pylint: disable=broad-except
        out = {'escaped': type(exc).__name__}
    out['operands_unchanged'] = before == {k: canon(v) for k, v in g.items()}
    return out


def op_differs(case):
    combos = [('int', 'int'), ('float', 'float'), ('int', 'float'), ('float', 'int')] if case['kind'] == 'binary' else [('int', 'int'), ('float', 'float')]
    outs = {f'{a}/{b}': run_op(case, a, b) for a, b in combos}
    vals = list(outs.values())
    return any(v != vals[0] for v in vals[1:]), outs


def op_safe(op, left, right):
    """Keep int ** int from building astronomically large integers (that is a resource question, not a spelling one)."""
    if op == '**' and isinstance(right, dict) and 'n' in right and abs(right['n']) > 1100:
        return False
    return True


def op_cases(ctx):
    rng = ctx.rng('operators')
    nums = [N(n) for n in OP_NUMS]
    pool = nums + OP_OTHERS
    for op in BIN_OPS:
        for left in nums:
            for right in nums:
                if op_safe(op, left, right):
                    yield {'kind': 'binary', 'op': op, 'left': left, 'right': right}
        for _ in range(ctx.scale(60, 1500)):
            left, right = rng.choice(pool), rng.choice(pool)
            if rng.random() < 0.3:
                left = gen_any(rng)
            if rng.random() < 0.3:
                right = gen_any(rng)
            if op_safe(op, left, right):
                yield {'kind': 'binary', 'op': op, 'left': left, 'right': right}
    for op in UN_OPS:
        for v in pool:
            yield {'kind': 'unary', 'op': op, 'left': v}
        for _ in range(ctx.scale(20, 200)):
            yield {'kind': 'unary', 'op': op, 'left': gen_any(rng)}


# ---------------------------------------------------------------------------------------------------------------------
# Script level: literals in real script text are floats; the int spelling is the same parsed model with integral literals as int
# ---------------------------------------------------------------------------------------------------------------------

def gen_script(rng):
    n = rng.randint(2, 6)
    elems = [str(rng.randint(0, 9)) for _ in range(n)]
    lines = [f'a = arrayNew({", ".join(elems)})', 'b = arrayNewSize(' + str(n) + ')', "s = 'hello world'", 'acc = 0',
             'd = arrayNew(objectNew(\'k\', 1, \'v\', 5), objectNew(\'k\', 1, \'v\', 6), objectNew(\'k\', 2, \'v\', 7))']
    i = lambda: str(rng.randint(0, n if rng.random() < 0.9 else n + 2))  # noqa: E731
    v = lambda: str(rng.choice([rng.randint(0, 9), rng.randint(10, 100), 2.5, 0.125]))  # noqa: E731

    def big():
        n = gen_scaled(rng)
        return str(n) if n >= 0 else f'({n})'
    templates = [
        # magnitude scale: literals (floats as parsed, ints in the int spelling) of every magnitude below 1e15 in arithmetic, comparison, text,
        # rounding and next to the host ints that numberParseInt / mathFloor / arrayLength return
        lambda: f"r{rng.randint(0, 9)} = {big()} {rng.choice(['+', '-', '*', '/', '%', '==', '<', '>='])} {big()}",
        lambda: f"r{rng.randint(0, 9)} = '' + ({big()} {rng.choice(['+', '-', '*', '%'])} {rng.choice([big(), v()])}) + ':' + {big()}",
        lambda: f"r{rng.randint(0, 9)} = {big()} ** {rng.choice(['2', '2', '3', '0.5', '-1', '1'])}",
        lambda: f"r{rng.randint(0, 9)} = arrayNew(numberToFixed({big()}, {rng.randint(0, 4)}), mathRound({big()} / {rng.choice([7, 1000, 3])}, {rng.randint(0, 6)}))",
        lambda: f"nb = {rng.choice([94906267, 123456789, 4294967296, 144115188075857, 999999999999999])}\n"
                f"r{rng.randint(0, 9)} = arrayNew(numberParseInt('' + nb) {rng.choice(['**', '*', '+', '%'])} 2 == nb {rng.choice(['**', '*', '+', '%'])} 2, "
                f"stringNew(numberParseInt('' + nb) * nb), mathFloor(nb / 1000) * 1000 + nb % 1000 == nb)",
        lambda: f"r{rng.randint(0, 9)} = arrayNew(mathMax({big()}, {big()}), arrayIndexOf(arrayNew({big()}, 94906267), 94906267), jsonStringify(arrayNew({big()})))",
        lambda: f'r{rng.randint(0, 9)} = arrayGet(a, {i()})',
        lambda: f'arraySet(a, {i()}, {v()})',
        lambda: f'r{rng.randint(0, 9)} = arraySlice(a, {i()}, {i()})',
        lambda: f'r{rng.randint(0, 9)} = stringSlice(s, {i()}, {rng.randint(0, 11)})',
        lambda: f"r{rng.randint(0, 9)} = stringRepeat('ab', {i()})",
        lambda: f'r{rng.randint(0, 9)} = stringCharCodeAt(s, {i()})',
        lambda: f'r{rng.randint(0, 9)} = stringFromCharCode({rng.randint(65, 90)}, {rng.randint(97, 122)})',
        lambda: f'r{rng.randint(0, 9)} = arrayNewSize({i()}, {v()})',
        lambda: f'r{rng.randint(0, 9)} = numberToFixed({v()} / 3, {rng.randint(0, 8)})',
        lambda: f'r{rng.randint(0, 9)} = mathRound({v()} / 7, {rng.randint(0, 8)})',
        lambda: f"r{rng.randint(0, 9)} = numberParseInt('{rng.choice(['zz', '101', 'ff', '77'])}', {rng.choice([2, 8, 16, 36])})",
        lambda: f'r{rng.randint(0, 9)} = arrayIndexOf(a, {rng.randint(0, 9)}, {i()})',
        lambda: f'r{rng.randint(0, 9)} = arrayLastIndexOf(a, {rng.randint(0, 9)})',
        lambda: f"r{rng.randint(0, 9)} = stringIndexOf(s, 'o', {i()})",
        lambda: f"r{rng.randint(0, 9)} = stringLastIndexOf(s, 'o', {i()})",
        lambda: f'r{rng.randint(0, 9)} = datetimeNew(2020, {rng.randint(-3, 15)}, {rng.randint(-5, 40)})',
        lambda: f'r{rng.randint(0, 9)} = jsonStringify(a, {rng.randint(1, 4)})',
        lambda: f'arrayDelete(a, {i()})',
        lambda: f'r{rng.randint(0, 9)} = dataTop(d, {rng.randint(1, 3)}, arrayNew(\'k\'))',
        lambda: f'r{rng.randint(0, 9)} = arrayGet(a, arrayLength(a) - {rng.randint(1, 3)})',
        lambda: f"r{rng.randint(0, 9)} = arrayGet(a, stringIndexOf('abc', '{rng.choice('abc')}'))",
        lambda: f"r{rng.randint(0, 9)} = arrayGet(a, {i()}) * {v()} + arrayLength(a) % {rng.randint(1, 4)}",
        lambda: f"r{rng.randint(0, 9)} = '' + arrayGet(a, {i()}) + ':' + ({v()} + {v()})",
        lambda: 'for v, ix in a:\n    acc = acc + arrayGet(a, ix) * (ix + 1)\n    arraySet(b, ix, v + ix)\nendfor',
        lambda: f'for v, ix in a:\n    if ix == {i()}:\n        continue\n    endif\n    acc = acc + stringCharCodeAt(s, ix)\n    r9 = arraySlice(a, ix)\nendfor',
        lambda: 'jx = 0\nwhile jx < arrayLength(a):\n    acc = acc + arrayGet(a, jx)\n    arraySet(a, jx, jx)\n    jx = jx + 1\nendwhile',
        lambda: 'for v in d:\n    acc = acc + objectGet(v, \'v\') + arrayIndexOf(d, v)\nendfor',
    ]
    for _ in range(rng.randint(2, 8)):
        lines.append(rng.choice(templates)())
    lines.append('return arrayNew(a, b, acc)')
    return '\n'.join(lines) + '\n'


def int_literals(node):
    """The same script model with every integral literal (|n| < 1e15) as a host int."""
    if isinstance(node, dict):
        if set(node) == {'number'} and isinstance(node['number'], float) and node['number'].is_integer() and abs(node['number']) < LIMIT:
            return {'number': int(node['number'])}
        return {k: int_literals(v) for k, v in node.items()}
    if isinstance(node, list):
        return [int_literals(x) for x in node]
    return node


def run_script(model):
    m = fw.impl()
    log = []
    g = {}
    opts = {'globals': g, 'maxStatements': 20000, 'logFn': log.append}
    try:
        with cpu_limit('script'):
            res = m['runtime'].execute_script(model, opts)
        out = {'result': canon(res)}
    except CallTimeout:
        out = {'raised': 'TIMEOUT'}
    except Exception as exc:  # pylint: disable=broad-except
        out = {'raised': type(exc).__name__, 'message': str(exc)}
    out['globals'] = sorted([k, canon(v)] for k, v in g.items() if not callable(v))
    out['log'] = log
    out['statements'] = opts.get('statementCount')
    return out


def script_differs(text):
    m = fw.impl()
    model = m['parser'].parse_script(text)
    o_float = run_script(model)
    o_int = run_script(int_literals(model))
    return o_float != o_int, {'int': o_int, 'float': o_float}


# ---------------------------------------------------------------------------------------------------------------------
# Host-created containers: the same calls / operators / scripts with the numbers sitting inside dict and list SUBCLASS instances
# (collections.OrderedDict / defaultdict / Counter, an application's own dict and list subclasses). They are 'object' / 'array' to
# value_type and to every argument check; the numbers inside are exact int / float (the property speaks of host int vs float).
# ---------------------------------------------------------------------------------------------------------------------

HOST_MODES = ('all', 'top', 'inner', 'rand')


def hostify(rng, enc, mode, depth=0):
    """The same encoded value with containers turned into host subclass instances: all of them / the outermost ones / only the
    ones nested inside a plain container / each with probability 1/2. Returns (value, number of subclassed containers)."""
    if not isinstance(enc, dict) or not ('a' in enc or 'o' in enc):
        return enc, 0
    pick = (mode == 'all' or (mode == 'top' and depth == 0) or (mode == 'inner' and depth > 0) or (mode == 'rand' and rng.random() < 0.5))
    n = 0
    if 'a' in enc:
        items = []
        for x in enc['a']:
            y, k = hostify(rng, x, mode, depth + 1)
            items.append(y)
            n += k
        out = {'a': items}
        if pick:
            out['cls'] = rng.choice(ARR_CLASS_NAMES)
    else:
        pairs = []
        for key, x in enc['o']:
            y, k = hostify(rng, x, mode, depth + 1)
            pairs.append([key, y])
            n += k
        out = {'o': pairs}
        if pick:
            out['cls'] = rng.choice(OBJ_CLASS_NAMES)
    return out, n + (1 if pick else 0)


def hostify_case(rng, case, mode):
    n = 0
    if case['kind'] == 'call':
        args = []
        for a in case['args']:
            y, k = hostify(rng, a, mode)
            args.append(y)
            n += k
        return dict(case, args=args), n
    out = dict(case)
    for side in ('left', 'right'):
        if side in case:
            out[side], k = hostify(rng, case[side], mode)
            n += k
    return out, n


def nums_in_host(enc, inside=False):
    """Integral numbers that sit (at any depth) inside a subclassed container."""
    if isinstance(enc, dict):
        if 'n' in enc:
            return 1 if inside else 0
        inside = inside or bool(enc.get('cls'))
        if 'a' in enc:
            return sum(nums_in_host(x, inside) for x in enc['a'])
        if 'o' in enc:
            return sum(nums_in_host(v, inside) for _, v in enc['o'])
    return 0


HOST_NUMS = [0, 5, -3, 100, 1000000, 10 ** 14 + 7, 10 ** 15 - 1, -(10 ** 14) - 3, 42]
HOST_ERR_FNS = ['stringLength', 'mathAbs', 'datetimeYear', 'regexEscape']


def host_shapes(x, x2, co, ca, co2):
    """Where the number sits: object value / array element, key order, directly in the subclass instance, in a plain container nested
    in it, in a subclass instance nested in plain containers, three deep."""
    def ho(*pairs):
        return {'o': [list(p) for p in pairs], 'cls': co}

    def ho2(*pairs):
        return {'o': [list(p) for p in pairs], 'cls': co2}

    def ha(*xs):
        return {'a': list(xs), 'cls': ca}
    return [
        ('obj-value', ho(['n', x])),
        ('obj-keys-unsorted', ho(['z', 'x'], ['n', x], ['a', True], ['m', x2])),
        ('arr-elem', ha(x)),
        ('arr-multi', ha('s', x, None, x2)),
        ('plain-obj>sub-arr', O(['k', ha(x)])),
        ('plain-arr>sub-obj', A(ho(['n', x]))),
        ('sub-obj>sub-arr', ho(['k', ha(x, x2)])),
        ('sub-arr>sub-obj', ha(ho(['n', x]), x2)),
        ('sub-obj>plain-arr', ho(['k', A(x)])),
        ('sub-arr>plain-obj', ha(O(n=x))),
        ('plain>plain>sub-obj', O(['a', A(ho(['n', x]))])),
        ('sub>sub>sub', ho(['a', ha(ho2(['n', x], ['b', x2]))])),
        ('plain>plain>sub-arr', A(A(ha(x)))),
        ('sub>plain>plain', ha(O(['k', A(x, 'y')]))),
        ('plain>sub>plain', O(['p', ho(['q', A(x)])], ['r', x2])),
        ('number-lookalike-text', ho(['s', '5.0'], ['t', '1.0,'], ['n', x])),
    ]


def host_paths(v, ca):
    """Every way a container reaches text: stringNew, string concatenation (both sides), arrayJoin, systemLog / systemLogDebug,
    jsonStringify without and with indent, the argument-error message of the debug log."""
    def call(fn, *args):
        return {'kind': 'call', 'fn': fn, 'args': list(args)}
    yield 'stringNew', call('stringNew', v)
    yield 'concat-right', {'kind': 'binary', 'op': '+', 'left': '', 'right': v}
    yield 'concat-left', {'kind': 'binary', 'op': '+', 'left': v, 'right': ' x'}
    yield 'arrayJoin-plain', call('arrayJoin', A(v, N(1)), ',')
    yield 'arrayJoin-sub', call('arrayJoin', {'a': [v, 't', N(2)], 'cls': ca}, '|')
    yield 'systemLog', call('systemLog', v)
    yield 'systemLogDebug', call('systemLogDebug', v)
    yield 'jsonStringify', call('jsonStringify', v)
    for indent in (1, 2, 4):
        yield f'jsonStringify-indent{indent}', call('jsonStringify', v, N(indent))
    for fn in HOST_ERR_FNS + ['objectKeys' if 'a' in v else 'arrayLength']:
        yield f'error-message:{fn}', call(fn, v)


def host_text_cases(ctx):
    rng = ctx.rng('host-text')
    per_cell = ctx.scale(2, 6)
    lib = fw.impl()['library']
    for co in OBJ_CLASS_NAMES:
        for ca in ARR_CLASS_NAMES:
            nshapes = len(host_shapes(N(0), N(0), co, ca, co))
            for ix in range(nshapes):
                for _ in range(per_cell):
                    x, x2 = N(rng.choice(HOST_NUMS)), N(rng.choice(HOST_NUMS))
                    shape, v = host_shapes(x, x2, co, ca, rng.choice(OBJ_CLASS_NAMES))[ix]
                    for path, case in host_paths(v, ca):
                        if case['kind'] != 'call' or case['fn'] in lib.SCRIPT_FUNCTIONS:
                            yield shape, path, co, ca, case


HOST_GLOBALS = ('h', 'hl', 'hn', 'deep')


def gen_hostscript(rng):
    """A script working on host-provided globals (subclass instances, also nested in / around plain containers): it stores number
    literals into them (objectSet / arrayPush / arraySet / objectAssign / arrayExtend), then turns them into text by every path."""
    co, co2, ca = rng.choice(OBJ_CLASS_NAMES), rng.choice(OBJ_CLASS_NAMES), rng.choice(ARR_CLASS_NAMES)
    num = lambda: N(rng.choice(HOST_NUMS) if rng.random() < 0.4 else rng.randint(0, 9))  # noqa: E731
    glob = [
        ['h', {'o': [['z', 'txt'], ['a', num()]], 'cls': co}],
        ['hl', {'a': [num(), num(), 's'], 'cls': ca}],
        ['hn', O(['k', {'a': [num()], 'cls': ca}], ['o', {'o': [['n', num()]], 'cls': co2}])],
        ['deep', {'a': [A({'o': [['n', num()]], 'cls': co})], 'cls': ca}],
    ]
    lit = lambda: str(rng.choice([rng.randint(0, 9), rng.randint(10, 100), 100, 1000, 2.5, 100000000000007]))  # noqa: E731
    key = lambda: rng.choice(['k', 'a', 'q', 'b2'])  # noqa: E731
    tgt = lambda: rng.choice(['h', 'hl', 'hn', 'deep', "objectGet(hn, 'o')", "objectGet(hn, 'k')", 'arrayGet(deep, 0)',  # noqa: E731
                              'arrayGet(arrayGet(deep, 0), 0)'])
    r = lambda: f'r{rng.randint(0, 9)}'  # noqa: E731
    mutate = [
        lambda: f"objectSet(h, '{key()}', {lit()})",
        lambda: f'arrayPush(hl, {lit()}, {lit()})',
        lambda: f'arraySet(hl, {rng.randint(0, 2)}, {lit()})',
        lambda: f"objectAssign(h, objectNew('{key()}', {lit()}))",
        lambda: f'arrayExtend(hl, arrayNew({lit()}))',
        lambda: f"objectSet(objectGet(hn, 'o'), '{key()}', {lit()})",
        lambda: f"arrayPush(objectGet(hn, 'k'), {lit()})",
        lambda: f"objectSet(arrayGet(arrayGet(deep, 0), 0), '{key()}', {lit()})",
        lambda: f'arrayPush(arrayGet(deep, 0), {lit()})',
        lambda: f'arrayPush(deep, {lit()})',
        lambda: f"objectSet(h, 'sum', objectGet(h, 'a') + {lit()})",
        lambda: 'arraySet(hl, 0, arrayLength(hl))',
        lambda: f"objectSet(h, '{key()}', arrayNew({lit()}, objectNew('v', {lit()})))",
        lambda: 'for v, ix in hl:\n    arraySet(hl, ix, ix)\nendfor',
    ]
    output = [
        lambda: f'{r()} = stringNew({tgt()})',
        lambda: f"{r()} = '' + {tgt()}",
        lambda: f"{r()} = {tgt()} + ':' + {lit()}",
        lambda: f"{r()} = arrayJoin(arrayNew(h, hl, {lit()}), '|')",
        lambda: f"{r()} = arrayJoin({rng.choice(['hl', 'deep', 'arrayGet(deep, 0)'])}, ',')",
        lambda: f'{r()} = jsonStringify({tgt()})',
        lambda: f'{r()} = jsonStringify({tgt()}, {rng.randint(1, 4)})',
        lambda: f'systemLog({tgt()})',
        lambda: f"systemLog('v=' + {tgt()})",
        lambda: f'systemLogDebug({tgt()})',
        lambda: f'{r()} = stringLength({tgt()})',
        lambda: f'{r()} = mathAbs({tgt()})',
        lambda: f"{r()} = objectGet(hl, 'a')",
        lambda: f'{r()} = arrayGet(h, {rng.randint(0, 2)})',
        lambda: f'{r()} = systemCompare({tgt()}, {tgt()})',
        lambda: f'{r()} = arrayIndexOf(hl, {lit()})',
    ]
    lines = []
    for _ in range(rng.randint(1, 5)):
        lines.append(rng.choice(mutate)())
    for _ in range(rng.randint(1, 4)):
        lines.append(rng.choice(output)())
        if rng.random() < 0.3:
            lines.append(rng.choice(mutate)())
    lines.append('return arrayNew(h, hl, hn, deep)')
    return {'kind': 'hscript', 'text': '\n'.join(lines) + '\n', 'globals': glob}


_R_FAILED = re.compile(r'^(BareScript: Function "[^"]+" failed with error: )(.*)$', re.S)


def run_hscript(case, literal_spelling, host_spelling):
    m = fw.impl()
    model = m['parser'].parse_script(case['text'])
    if literal_spelling == 'int':
        model = int_literals(model)
    sp = Speller(host_spelling)
    g = {name: build(enc, sp) for name, enc in case['globals']}
    log = []
    opts = {'globals': g, 'maxStatements': 20000, 'logFn': log.append, 'debug': True}
    try:
        with cpu_limit('hscript'):
            res = m['runtime'].execute_script(model, opts)
        out = {'result': canon(res)}
    except CallTimeout:
        out = {'raised': 'TIMEOUT'}
    except Exception as exc:  # pylint: disable=broad-except
        out = {'raised': type(exc).__name__, 'message': str(exc)}
    out['globals'] = sorted([k, canon(v)] for k, v in g.items() if not callable(v))
    # the library's own argument-error texts (they quote the offending value as JSON) are compared, host exception texts are not
    out['log'] = []
    for ln in log:
        mt = _R_FAILED.match(ln)
        out['log'].append(ln if mt is None or mt.group(2).startswith(('Invalid "', 'Too many arguments (')) else mt.group(1))
    out['statements'] = opts.get('statementCount')
    return out


def hscript_differs(case):
    outs = {f'literals:{ls}/host:{hs}': run_hscript(case, ls, hs) for ls in ('int', 'float') for hs in ('int', 'float')}
    vals = list(outs.values())
    return any(v != vals[0] for v in vals[1:]), outs


# ---------------------------------------------------------------------------------------------------------------------
# Boundary VALUES and unexpected argument TYPES.  The generators above draw numbers from a few small sets, so a branch that is only
# taken for particular VALUES (a surrogate-pair of char codes, a code above 0xFFFF, an index equal to the length, a radix / digit count
# of one particular size, a huge count, the zero that is spelled -0.0) or for a first argument of an unexpected but indexable TYPE (a
# string / object / host tuple where an array is expected) is practically never entered - and that is exactly where an int-only or
# float-only idiom (<<, range(), list[i], '%*d', a `type(x) is int` fast path) shows. The families below put a rich pool of boundary
# values at EVERY argument position of EVERY function (one position, two positions, any depth inside container arguments), and one
# argument of every other type at every position, and compare the int / float / alternating (both phases) spellings and the -0.0
# spelling of an integer-typed zero; the same calls again through the expression-function names, through dataCalculatedField
# expression text, as script text with the numbers produced in different ways, and in a fresh interpreter in the opposite order.
# ---------------------------------------------------------------------------------------------------------------------

def _dedupe(xs):
    out = []
    for x in xs:
        if x not in out:
            out.append(x)
    return out


CHAR_CODES = [0, 1, 9, 10, 31, 32, 65, 97, 127, 128, 255, 256, 0x7ff, 0x800, 0xd7ff, 0xd800, 0xd83d, 0xdbff, 0xdc00, 0xde00, 0xdfff, 0xe000,
              0xfeff, 0xfffd, 0xffff, 0x10000, 0x1f600, 0x10ffff, 0x110000]
V_SMALL = list(range(0, 38))                       # every radix, every digit count below the F15 boundary, months, hours, ...
V_LARGE = [59, 60, 61, 99, 100, 101, 365, 366, 999, 1000, 1001, 1023, 1024, 4095, 4096, 9999, 10000, 10001, 65535, 65536, 10 ** 6,
           2 ** 31 - 1, 2 ** 31, 2 ** 32 - 1, 2 ** 32, 2 ** 49, 10 ** 14, 10 ** 15 - 1]
V_NEG = [-1, -2, -3, -10, -11, -12, -13, -31, -32, -100, -10000, -10001, -(2 ** 31), -(10 ** 14), -(10 ** 15 - 1)]
VALUE_POOL = _dedupe(V_SMALL + V_LARGE + V_NEG + CHAR_CODES + SCALE_POOL)
PAIR_POOL = _dedupe([0, 1, 2, 3, 9, 10, 12, 13, 31, 32, 0x7f, 0x80, 0xff, 0x100, 0xd7ff, 0xd800, 0xd83d, 0xdbff, 0xdc00, 0xde00, 0xdfff, 0xe000,
                     0xffff, 0x10000, 0x1f600, 0x10ffff, 0x110000, -1])
ANY_POOL = _dedupe([0, 1, 2, 3, -1, -2, 10, 16, 22, 23, 36, 37, 100, 127, 128, 255, 256, 1000, 1024, 0xd7ff, 0xd800, 0xd83d, 0xdbff, 0xdc00, 0xdfff,
                    0xe000, 0xffff, 0x10000, 0x10ffff, 0x110000, 10 ** 6, 2 ** 31 - 1, 2 ** 31, 2 ** 32, 2 ** 49, 10 ** 14, 10 ** 15 - 1, -(2 ** 31),
                    -(10 ** 15 - 1), 94906267, 10 ** 9 + 1, 10 ** 12 + 1, 144115188075857, -144115188075857])
# (ANY_POOL: a value of any type inside an argument model - quick tier; thorough: the full pool)
NONNUM_POOL = [0, 1, 3, 55357, 10 ** 14]          # numbers at a position that does not take a number
VSTRINGS = ['', 'a', 'abc', 'hello world', 'a\U0001f600b', '\U0001f600', '\U0001f600\U0001f601', 'éx', 'ßİi', 'ab\ud83d', '\ude00z',
            '12', 'ff', 'zz', 'Z', '-7', ' 42 ', '١٢', '1_0', 'a,b,,c', 'aXbXc']
PARSE_TEXTS = ['0', '1', '10', '101', 'z', 'Z', 'ff', 'FF', '-7', '+7', ' 12 ', '١٢', '1_0', '0x1f', '0b11', '0o17', '', '99999999999999', '9', 'g']
ROUND_XS = [{'f': '0.5'}, {'f': '1.5'}, {'f': '2.5'}, {'f': '-2.5'}, {'f': '2.675'}, {'f': '1.005'}, {'f': '1234.5678'}, {'f': '0.000123'}, {'f': '1e-07'},
            {'n': 0}, {'n': 7}, {'n': -50}, {'n': 10 ** 14 + 7}, {'f': '123456789.123'}]
WRONG_VALUES = [
    'abc', 'a\U0001f600b', '', A('a', 'b', 'c'), A(N(1), N(2), N(3)), A(), O(['0', 'x'], ['1', 'y'], ['2', 'z']), O(['length', N(3)], ['0', 'x']), O(),
    {'tuple': ['a', 'b', 'c']}, {'tuple': [N(1), N(2)]}, {'bytes': 'abc'}, {'range': 3}, {'ikeys': [[0, 'x'], [1, 'y'], [2, 'z']]}, {'strsub': 'abc'},
    {'a': ['a', 'b', 'c'], 'cls': 'MyList'}, {'o': [['0', 'x'], ['1', 'y']], 'cls': 'MyDict'}, None, True, N(3), {'f': '1.5'},
    {'dt': [2020, 1, 31, 10, 20, 30, 500000]}, {'re': ['a+', 0]}, {'fn': 'arrayGet'}]
HOST_ONLY_KEYS = ('tuple', 'bytes', 'range', 'ikeys', 'strsub')
NEGZERO_KEYS = ('result', 'type', 'escaped', 'failed', 'args_after', 'result_is_arg', 'globals')
FRESH_ORDER = ('float', 'xim', 'mix', 'int')
_MODELS = {}


def models_cached():
    lib = fw.impl()['library']
    if _MODELS.get('lib') is not lib:
        _MODELS.clear()
        _MODELS.update({'lib': lib, 'models': arg_models()})
    return _MODELS['models']


def is_num(enc):
    return isinstance(enc, dict) and 'n' in enc and len(enc) == 1


def negzero_positions(case):
    """Top-level positions holding 0 whose argument model says `integer` (index, count, size, radix, digit count, datetime component):
    there the float -0.0 is one more spelling of the same integral number (elsewhere IEEE gives it a meaning of its own: atan2)."""
    model = models_cached().get(case['fn'])
    if model is None:
        return ()
    return tuple(ix for ix, am in enumerate(model[1]) if ix < len(case['args']) and am.get('type') == 'number' and am.get('integer') and
                 not am.get('lastArgArray') and case['args'][ix] == {'n': 0})


def call_differs_ext(case):
    """int / float / both alternating spellings + the -0.0 spelling of an integer-typed zero (compared without the message texts:
    value_json prints -0.0 as -0, the observation of LEVEL_NOTE)."""
    outs, classes = {}, {}
    for sp in SPELLINGS_EXT + (SPELLINGS_SUB if case.get('ext') == 2 else ()):
        outs[sp], classes[sp] = run_call(case, sp)
    nz = negzero_positions(case)
    if nz:
        o, classes['negzero'] = run_call(case, 'float', nz)
        outs['negzero'] = dict(outs['int'], **{k: o[k] for k in NEGZERO_KEYS})
        if 'applied' in o or 'applied' in outs['int']:
            outs['negzero']['applied'] = o.get('applied')
    differ = any(v != outs['int'] for v in outs.values())
    return differ, outs, classes


def has_key(enc, keys):
    if isinstance(enc, dict):
        if any(k in enc for k in keys):
            return True
        for k in ('a', 'tuple'):
            if k in enc:
                return any(has_key(x, keys) for x in enc[k])
        if 'o' in enc:
            return any(has_key(v, keys) for _, v in enc['o'])
    return False


def tame_ext(fname, args):
    """`tame` with a higher ceiling for the size arguments (huge counts are one of the boundary classes) and the digit count of a
    partially applied mathRound kept finite."""
    keep = {}
    for ix in SIZE_ARGS.get(fname, ()):
        if fname != 'jsonStringify' and ix < len(args) and is_num(args[ix]) and args[ix]['n'] > 3000:
            n = args[ix]['n']
            if fname == 'stringRepeat':
                keep[ix] = N(n if n <= 70000 else 70000)
            else:
                keep[ix] = N(n if n in (4095, 4096) else 3001)
    args = tame(fname, list(args))
    for ix, v in keep.items():
        args[ix] = v
    if fname == 'datetimeNew' and len(args) > 2 and is_num(args[2]) and abs(args[2]['n']) > 10 ** 6:
        # the day is bounded by the argument model (+-10000); should the bound not be applied, the carry is walked month by month
        args[2] = N(10 ** 6 if args[2]['n'] > 0 else -(10 ** 6))
    if fname == 'systemPartial' and args and isinstance(args[0], dict) and args[0].get('fn') in ('mathRound', 'numberToFixed'):
        for ix in range(2, len(args)):
            if is_num(args[ix]) and args[ix]['n'] > 400:
                args[ix] = N(400)
    if any(isinstance(a, str) and 'rept(' in a for a in args):
        # an expression string that repeats text by a row value: keep every number of the case small enough to allocate
        args = [cap_nums(a, 70000) for a in args]
    return args


def cap_nums(enc, hi):
    if is_num(enc):
        return N(min(enc['n'], hi))
    if isinstance(enc, dict) and 'a' in enc:
        return dict(enc, a=[cap_nums(x, hi) for x in enc['a']])
    if isinstance(enc, dict) and 'o' in enc:
        return dict(enc, o=[[k, cap_nums(v, hi)] for k, v in enc['o']])
    return enc


def ignores_args(fname):
    """A function whose code never reads its argument list (mathPi, schemaTypeModel: the parameter is named unused_*)."""
    code = getattr(fw.impl()['library'].SCRIPT_FUNCTIONS[fname], '__code__', None)
    return code is not None and code.co_argcount >= 1 and code.co_varnames[0].startswith('unused')


def positions_of(fname, models):
    """[(argument position, argument-model type or None = any)]: every position of the argument model (three of a variable tail);
    positions 0..2 of a function without an argument model (one position, taken as not number-taking, if its code ignores them)."""
    if fname not in models:
        return [(0, 'ignored')] if ignores_args(fname) else [(0, None), (1, None), (2, None)]
    out = []
    for p, am in enumerate(models[fname][1]):
        if am.get('lastArgArray'):
            out += [(p, None), (p + 1, None), (p + 2, None)]
        else:
            out.append((p, am.get('type')))
    return out


def full_args(rng, fname, models, upto, strings=True):
    """A mostly valid argument list of `fname` (directed generator, else the argument model) with at least `upto` + 1 arguments; the
    subject string of the string functions is often one with astral / combining / case-expanding / lone-surrogate characters."""
    args = None
    if fname in SPECIAL:
        try:
            args = SPECIAL[fname](rng, fname)
        except KeyError:
            args = None
    model = models[fname][1] if fname in models else None
    if args is None:
        args = gen_from_model(rng, fname, model) if model else []
    args = list(args)
    while len(args) <= upto:
        ix = len(args)
        if model and ix < len(model) and not model[ix].get('lastArgArray'):
            args.append(gen_typed(rng, fname, model[ix], args))
        elif fname in ('stringFromCharCode', 'mathMax', 'mathMin'):
            args.append(N(rng.randint(65, 90)))
        else:
            args.append(gen_any(rng))
    if strings and model and fname.startswith('string') and model[0].get('type') == 'string' and isinstance(args[0], str) and rng.random() < 0.5:
        args[0] = rng.choice(VSTRINGS)
        if len(model) > 1 and model[1].get('type') == 'string' and len(args) > 1 and rng.random() < 0.7:
            s = args[0]
            i = rng.randint(0, max(len(s) - 1, 0))
            args[1] = rng.choice([s[i:i + 1], s[i:i + 2], s[-1:], s, '', 'X', ','])
    return args


def rel_values(args, skip=None):
    """Numbers that are boundaries relative to the other arguments: length - 1, length, length + 1 of every string / array / object."""
    out = []
    for ix, a in enumerate(args):
        if ix == skip:
            continue
        ln = len(a) if isinstance(a, str) else (len(a['a']) if isinstance(a, dict) and 'a' in a else (len(a['o']) if isinstance(a, dict) and 'o' in a else None))
        if ln is not None:
            out += [ln - 1, ln, ln + 1]
    return _dedupe(out)


def bound_values(am):
    out = []
    for k in ('gte', 'gt', 'lte', 'lt', 'default'):
        b = am.get(k)
        if isinstance(b, (int, float)) and not isinstance(b, bool) and float(b).is_integer():
            out += [int(b) - 1, int(b), int(b) + 1]
    return out


def ext_case(fname, args, expr=None, ext=1):
    """ext = 2: also the host int-subclass / float-subclass spellings."""
    case = {'kind': 'call', 'fn': fname, 'args': tame_ext(fname, list(args)), 'ext': ext}
    if expr:
        case['expr'] = expr
    return case


def gen_arg_values(ctx, rng, names, models):
    """Every function x every argument position x the boundary pool (+ the bounds of the argument model, + the lengths of the other
    arguments); the other arguments mostly valid."""
    bases = ctx.scale(1, 6)
    for fname in names:
        model = models[fname][1] if fname in models else None
        for p, typ in positions_of(fname, models):
            pool = list(NONNUM_POOL if typ not in ('number', None) else (ANY_POOL if typ is None and model and ctx.quick else VALUE_POOL))
            if model and p < len(model) and typ == 'number':
                pool = _dedupe(pool + bound_values(model[p]))
            for _ in range(bases):
                for v in pool:
                    args = full_args(rng, fname, models, p)
                    args[p] = N(v)
                    yield ext_case(fname, args, ext=2), p, 'pool'
                args = full_args(rng, fname, models, p)
                for v in rel_values(args, skip=p):
                    a2 = list(args)
                    a2[p] = N(v)
                    yield ext_case(fname, a2, ext=2), p, 'relative'


def num_paths(enc, path=()):
    """Paths to every integral number of an encoded value (through arrays and objects), with the length of the enclosing array."""
    if is_num(enc):
        yield path
    elif isinstance(enc, dict) and 'a' in enc:
        for i, x in enumerate(enc['a']):
            yield from num_paths(x, path + (('a', i),))
    elif isinstance(enc, dict) and 'o' in enc:
        for i, (_, x) in enumerate(enc['o']):
            yield from num_paths(x, path + (('o', i),))


def set_path(enc, path, v):
    if not path:
        return v
    kind, i = path[0]
    if kind == 'a':
        items = list(enc['a'])
        items[i] = set_path(items[i], path[1:], v)
        return dict(enc, a=items)
    pairs = [list(p) for p in enc['o']]
    pairs[i][1] = set_path(pairs[i][1], path[1:], v)
    return dict(enc, o=pairs)


def gen_leaf_values(ctx, rng, names, models):
    """A generated call with ONE number at any depth (array element, object member, row field, measure / sort / schema attribute)
    replaced by a boundary value."""
    for fname in names:
        for _ in range(ctx.scale(24, 400)):
            case, _how = gen_case(rng, fname, models)
            paths = [(ix,) + tuple(p) for ix, a in enumerate(case['args']) for p in num_paths(a) if p]
            if not paths:
                continue
            path = rng.choice(paths)
            v = rng.choice(VALUE_POOL + rel_values(case['args']))
            args = list(case['args'])
            args[path[0]] = set_path(args[path[0]], path[1:], N(v))
            yield ext_case(fname, args), path[0], 'nested'


def gen_sweeps(models):
    """Small exhaustive sweeps: every index from -1 to length + 1 of unusual strings / short arrays (two indexes: the product), every
    radix 0..37 x number texts, every digit count 0..23 x values."""
    for s in VSTRINGS:
        idx = list(range(-1, len(s) + 2)) if len(s) <= 6 else [-1, 0, 1, len(s) - 1, len(s), len(s) + 1]
        for i in idx:
            yield ext_case('stringCharCodeAt', [s, N(i)])
            yield ext_case('stringRepeat', [s, N(i)])
            yield ext_case('stringSlice', [s, N(i)])
            for sub in _dedupe([s[1:2], s[-1:], '', s[:2]]):
                yield ext_case('stringIndexOf', [s, sub, N(i)])
                yield ext_case('stringLastIndexOf', [s, sub, N(i)])
            for j in idx:
                yield ext_case('stringSlice', [s, N(i), N(j)])
    for n in range(0, 5):
        arr = A(*[N(k % 3) for k in range(n)])
        for i in range(-1, n + 2):
            for fn in ('arrayGet', 'arrayDelete', 'arraySlice'):
                yield ext_case(fn, [arr, N(i)])
            yield ext_case('arraySet', [arr, N(i), 'v'])
            yield ext_case('arraySet', [arr, N(i), N(i)])
            yield ext_case('dataTop', [A(*[O(a=N(k % 2)) for k in range(n)]), N(i)])
            yield ext_case('dataTop', [A(*[O(a=N(k % 2)) for k in range(n)]), N(i), A('a')])
            for v in (N(0), N(1), N(2), 'q'):
                yield ext_case('arrayIndexOf', [arr, v, N(i)])
                yield ext_case('arrayLastIndexOf', [arr, v, N(i)])
            for j in range(-1, n + 2):
                yield ext_case('arraySlice', [arr, N(i), N(j)])
    for size in range(-1, 6):
        yield ext_case('arrayNewSize', [N(size)])
        yield ext_case('arrayNewSize', [N(size), N(size)])
    for radix in range(0, 38):
        for text in PARSE_TEXTS:
            yield ext_case('numberParseInt', [text, N(radix)])
    for digits in range(0, 24):
        for x in ROUND_XS:
            yield ext_case('mathRound', [x, N(digits)])
            yield ext_case('numberToFixed', [x, N(digits)])
            yield ext_case('numberToFixed', [x, N(digits), True])
    for indent in range(0, 18):
        for v in (A(N(1), A(N(2), O(a=N(3)))), O(a=A(), b=O(), c=N(indent)), N(indent), 'x'):
            yield ext_case('jsonStringify', [v, N(indent)])


def number_positions(fname, models):
    return [p for p, typ in positions_of(fname, models) if typ in ('number', None)]


def is_sequence_fn(fname, models):
    return fname not in models or any(am.get('lastArgArray') for am in models[fname][1])


def gen_arg_pairs(ctx, rng, names, models):
    """Two number-taking positions at once: the full product of the pair pool on the first two (variable) positions of the functions
    taking a sequence of values, a sample of the product for every other pair of positions."""
    for fname in names:
        ps = number_positions(fname, models)
        pairs = [(p, q) for i, p in enumerate(ps) for q in ps[i + 1:]]
        seq = is_sequence_fn(fname, models)
        for ix, (p, q) in enumerate(pairs):
            if seq and (ix == 0 or not ctx.quick):
                for v in PAIR_POOL:
                    for w in PAIR_POOL:
                        args = full_args(rng, fname, models, q)
                        args[p], args[q] = N(v), N(w)
                        yield ext_case(fname, args), (p, q), 'product'
            else:
                for _ in range(ctx.scale(70, 1500)):
                    args = full_args(rng, fname, models, q)
                    pool = PAIR_POOL + rel_values(args) * 2
                    args[p], args[q] = N(rng.choice(pool)), N(rng.choice(pool))
                    yield ext_case(fname, args), (p, q), 'sample'


INDEXABLE_WRONG = ['abc', A('a', 'b', 'c'), A(N(1), N(2), N(3)), O(['0', 'x'], ['1', 'y'], ['2', 'z']), {'tuple': ['a', 'b', 'c']}, {'bytes': 'abc'},
                   {'ikeys': [[0, 'x'], [1, 'y'], [2, 'z']]}, {'range': 3}]


def gen_wrong_types(ctx, rng, names, models):
    """Exactly one argument of another type - in particular of an INDEXABLE one (string, array, object with digit keys, host tuple /
    bytes / range / int-keyed dict / str subclass / list and dict subclasses) - at every position; the number arguments are small
    in-range indexes. Then two deviations: an indexable value of another type at one position AND a small number at another position
    that does not take a number (a key, a separator, a flag: `objectGet(array, 1)`)."""
    for fname in names:
        poss = positions_of(fname, models)
        for p, _typ in poss:
            for _ in range(ctx.scale(1, 5)):
                for wrong in WRONG_VALUES:
                    args = full_args(rng, fname, models, p, strings=False)
                    for q, qtyp in poss:
                        if q != p and qtyp == 'number' and q < len(args):
                            args[q] = N(rng.choice([0, 1, 2, 1, 2, 3]))
                    args[p] = wrong
                    yield ext_case(fname, args, ext=2), p, 'one'
            for q, qtyp in poss:
                if q == p or qtyp in ('number', None, 'ignored'):
                    continue
                for wrong in INDEXABLE_WRONG:
                    args = full_args(rng, fname, models, max(p, q), strings=False)
                    args[p] = wrong
                    args[q] = N(rng.choice([0, 1, 2]))
                    yield ext_case(fname, args), p, 'two'


def expr_aliases():
    """EXPRESSION_FUNCTIONS name -> SCRIPT_FUNCTIONS name it stands for: the library's own EXPRESSION_FUNCTION_MAP, else the script function
    that is the same object, else the naming rule. (The two tables need not hold the same function object for a name.)"""
    lib = fw.impl()['library']
    table = getattr(lib, 'EXPRESSION_FUNCTION_MAP', None)
    out = {}
    for alias, fn in lib.EXPRESSION_FUNCTIONS.items():
        hit = [table[alias]] if isinstance(table, dict) and table.get(alias) in lib.SCRIPT_FUNCTIONS else []
        hit = hit or [name for name, f in lib.SCRIPT_FUNCTIONS.items() if f is fn]
        if not hit:
            cap = alias[0].upper() + alias[1:]
            hit = [name for name in lib.SCRIPT_FUNCTIONS if name in ('string' + cap, 'math' + cap, 'datetime' + cap, 'number' + cap)]
        if hit and hit[0] not in EXCLUDED:
            out[alias] = hit[0]
    return out


def scalar_args(args):
    return all(a is None or isinstance(a, (bool, str)) or is_num(a) or (isinstance(a, dict) and 'f' in a) for a in args)


# --- the same call, the numbers produced in different ways (script level)

PRODUCER_FORMS = ('lit', 'arith', 'json', 'ceil', 'charcode', 'hostint', 'hostfloat', 'alt')


def _num_expr(form, n, i):
    if form == 'lit':
        return str(n)
    if form == 'arith':
        return f'({n - 1} + 1)'
    if form == 'ceil':
        return f'mathCeil({n} - 0.5)'
    if form in ('hostint', 'hostfloat'):
        return f'n{i}'
    if form == 'charcode' and 0 <= n < 0x110000 and not 0xd800 <= n < 0xe000:
        return f'stringCharCodeAt(c{i}, 0)'
    return f"jsonParse('{n}')"


def producer_script(case, form):
    parts = []
    k = 0
    for i, a in enumerate(case['args']):
        if is_num(a):
            f = form if form != 'alt' else ('lit', 'json')[k % 2]
            k += 1
            parts.append(_num_expr(f, a['n'], i))
        else:
            parts.append(f'a{i}')
    keep = ', '.join(f'a{i}' for i, a in enumerate(case['args']) if not is_num(a))
    return f'r = {case["fn"]}({", ".join(parts)})\nreturn arrayNew(r{", " + keep if keep else ""})\n'


def _norm_log(log):
    out = []
    for ln in log:
        mt = _R_FAILED.match(ln)
        out.append(ln if mt is None or mt.group(2).startswith(('Invalid "', 'Too many arguments (')) else mt.group(1))
    return out


def run_producer(case, form):
    m = fw.impl()
    model = m['parser'].parse_script(producer_script(case, form))
    g = {}
    for i, a in enumerate(case['args']):
        if is_num(a):
            g[f'n{i}'] = float(a['n']) if form == 'hostfloat' else int(a['n'])
            if 0 <= a['n'] < 0x110000:
                g[f'c{i}'] = chr(a['n'])
        else:
            g[f'a{i}'] = build(a, Speller('float'))
    log = []
    opts = {'globals': g, 'maxStatements': 20000, 'logFn': log.append, 'debug': True}
    try:
        with cpu_limit(case['fn']):
            out = {'result': canon(m['runtime'].execute_script(model, opts))}
    except CallTimeout:
        out = {'raised': 'TIMEOUT'}
    except Exception as exc:  # pylint: disable=broad-except
        out = {'raised': type(exc).__name__, 'message': str(exc)}
    out['args'] = [canon(g.get(f'a{i}')) for i, a in enumerate(case['args']) if not is_num(a)]
    out['log'] = _norm_log(log)
    out['statements'] = opts.get('statementCount')
    return out


def producers_differ(case):
    outs = {form: run_producer(case, form) for form in PRODUCER_FORMS}
    return any(v != outs['lit'] for v in outs.values()), outs


# --- the same call inside dataCalculatedField expression text (built-in expression functions)

DATAEXPR_FORMS = ('literal', 'fields:int', 'fields:float', 'variables:int', 'variables:float')


def run_dataexpr(case, form):
    m = fw.impl()
    how, _, spelling = form.partition(':')
    row, variables, parts = {'keep': 'k'}, {}, []
    for i, a in enumerate(case['args']):
        if is_num(a) and how == 'literal':
            parts.append(str(a['n']))
            continue
        parts.append(f'x{i}')
        if is_num(a):
            (row if how == 'fields' else variables)[f'x{i}'] = int(a['n']) if spelling == 'int' else float(a['n'])
        else:
            row[f'x{i}'] = build(a, Speller('float'))
    text = f'{case["expr"]}({", ".join(parts)})'
    log = []
    opts = {'globals': {}, 'maxStatements': 20000, 'statementCount': 0, 'logFn': log.append, 'debug': True}
    fargs = [[row], 'z', text] + ([variables] if how == 'variables' else [])
    try:
        with cpu_limit(case['fn']):
            res = m['library'].SCRIPT_FUNCTIONS['dataCalculatedField'](fargs, opts)
        out = {'z': canon(res[0].get('z')), 'type': m['value'].value_type(res[0].get('z')), 'rows': len(res)}
    except CallTimeout:
        out = {'raised': 'TIMEOUT'}
    except Exception as exc:  # pylint: disable=broad-except
        out = {'raised': type(exc).__name__}
    out['log'] = _norm_log(log)
    return out


def dataexpr_differ(case):
    outs = {form: run_dataexpr(case, form) for form in DATAEXPR_FORMS}
    return any(v != outs['literal'] for v in outs.values()), outs


# --- the same calls in a fresh interpreter, the float spelling FIRST (a cache / memo keyed by the argument cannot tell 2 from 2.0:
#     whichever spelling comes first in a process decides for both, so one process and one order can hide a spelling dependence)

_FRESH_CALLS_SRC = r"""
import importlib, json, sys
sys.path.insert(0, sys.argv[1])
import fw, extract
extract._CACHE['mods'] = extract.fresh_import()
mod = importlib.import_module('props.C12')
out = []
for case in json.load(sys.stdin):
    if case.get('hist'):
        for pre_case, sp in mod.history_pre(case):
            mod.run_subject(pre_case, sp)
    out.append({sp: mod.run_subject(case, sp) for sp in mod.FRESH_ORDER})
sys.stdout.write(json.dumps(out))
"""

_OP_SPELLINGS = {'int': ('int', 'int'), 'float': ('float', 'float'), 'mix': ('int', 'float'), 'xim': ('float', 'int')}


def run_subject(case, sp):
    """One run of a call / operator / script case in one spelling (the unit a history is made of)."""
    if case['kind'] == 'call':
        return run_call(case, sp)[0]
    if case['kind'] in ('binary', 'unary'):
        return run_op(case, *_OP_SPELLINGS.get(sp, (sp, sp)))
    if case['kind'] == 'script':
        model = fw.impl()['parser'].parse_script(case['text'])
        return run_script(int_literals(model) if sp == 'int' else model)
    raise ValueError(case['kind'])


def fresh_calls(cases):
    """run_subject of every case in every spelling, in a fresh interpreter process, float first; a case marked 'hist' is preceded by its
    history (history_pre)."""
    import json
    import os
    import subprocess
    import sys
    res = subprocess.run([sys.executable, '-c', _FRESH_CALLS_SRC, os.path.join(fw.VERIF, 'harness')], input=json.dumps(cases), capture_output=True,
                         text=True, timeout=600, check=False, env=dict(os.environ, PYTHONHASHSEED='0'))
    if res.returncode != 0:
        raise fw.Infra('fresh call process failed: ' + res.stderr[-600:])
    return json.loads(res.stdout)


def fresh_differs(cases, fresh=None):
    """-> [(differs, in-process outcomes, fresh-process outcomes)] per case."""
    import json
    fresh = fresh if fresh is not None else fresh_calls(cases)
    out = []
    for case, fr in zip(cases, fresh):
        here = json.loads(json.dumps({sp: run_subject(case, sp) for sp in SPELLINGS_EXT}))
        differ = any(fr[sp] != here['int'] for sp in FRESH_ORDER) or any(here[sp] != here['int'] for sp in SPELLINGS_EXT)
        out.append((differ, here, fr))
    return out


# --- operators on boundary operands

def op_boundary_cases(ctx, rng):
    pool = [N(v) for v in _dedupe(PAIR_POOL + [-2, -3, 7, 16, 64, 2 ** 31 - 1, 2 ** 31, 2 ** 32, 2 ** 49, 10 ** 15 - 1, -(10 ** 15 - 1)])]
    others = ['', 'abc', 'a\U0001f600b', '5', None, True, A(N(0), N(55357)), O(a=N(0)), {'dt': [2020, 1, 31, 10, 20, 30, 500000]}]
    for op in BIN_OPS:
        for _ in range(ctx.scale(160, 3000)):
            left, right = rng.choice(pool), rng.choice(pool)
            r = rng.random()
            if r < 0.08:
                left = rng.choice(others)
            elif r < 0.16:
                right = rng.choice(others)
            if op_safe(op, left, right):
                yield {'kind': 'binary', 'op': op, 'left': left, 'right': right}
    for op in UN_OPS:
        for v in pool:
            yield {'kind': 'unary', 'op': op, 'left': v}


def surrogate_code(case):
    return case['fn'] == 'stringFromCharCode' and any(is_num(a) and 0xd800 <= a['n'] < 0xe000 for a in case['args'])


def heavy(case):
    """A size argument above the ceiling of the ordinary generators: checked in process only (the outcome is megabytes of text)."""
    return any(ix < len(case['args']) and is_num(case['args'][ix]) and case['args'][ix]['n'] > 3000 for ix in SIZE_ARGS.get(case['fn'], ()))


def ext_model_expressible(case):
    """Cases of the value families the Lean host model can express: no expression-function path, no host-only values, no surrogate
    char codes (a Lean Char cannot hold a surrogate: LibH.chrH reports them as an error), otherwise as model_expressible."""
    return (not case.get('expr') and not heavy(case) and not any(has_key(a, HOST_ONLY_KEYS + ('cls',)) for a in case['args']) and
            not surrogate_code(case) and model_expressible(case))


def value_streams(ctx, lim, names, models, modelled_cases):
    extra_model = []
    cap_model = ctx.scale(2500, 30000)
    sampled = []          # cases handed on to the producer / expression / fresh-process streams

    def run(st, case, how, key, oracle, tags):
        check_case(ctx, lim, st, case, how, key=key, tags=tags, oracle=oracle)
        if case['fn'] in MODELLED and len(extra_model) < cap_model and ext_model_expressible(case):
            extra_model.append(case)

    st = ctx.stream('arg-values', 'every SCRIPT_FUNCTIONS entry x EVERY argument position (three of a variable tail; 0..2 without an argument model) x a '
                                  'pool of %d boundary numbers (0..37 = every radix / digit count / month / hour, powers of two and ten and their '
                                  'neighbours up to 1e15-1, negatives, char-code boundaries 0x7f/0x80/0x7ff/0x800, the surrogate range 0xd800..0xdfff, '
                                  '0xffff/0x10000, 0x10ffff/0x110000) + the bounds of the argument model +-1 + length-1 / length / length+1 of the '
                                  'other arguments (subject strings with astral, combining, case-expanding and lone-surrogate characters); ONE number at '
                                  'any depth of a generated call replaced by a pool value; exhaustive sweeps (index -1..length+1 of %d strings and arrays '
                                  'of length 0..4, two indexes: the product; radix 0..37 x %d texts; digits 0..23 x %d values; indent 0..17; size -1..5). '
                                  'Compared: int / float / alternating (both phases) spellings, instances of host int / float SUBCLASSES (single-position '
                                  'and wrong-type cases) and -0.0 for an integer-typed 0, on result, failure, '
                                  'argument-error text, debug log, post-call arguments, globals. Size arguments capped (stringRepeat 70000, arrayNewSize '
                                  '4096). non-trivial = an integral number occurs' % (len(VALUE_POOL), len(VSTRINGS), len(PARSE_TEXTS), len(ROUND_XS)))
    rng = ctx.rng('arg-values')
    nth = 0
    for case, p, how in gen_arg_values(ctx, rng, names, models):
        run(st, case, 'value:' + how, 'value:', 'spelling-irrelevant:boundary-value', [f'pos{p}'])
        nth += 1
        if nth % 5 == 0 and not heavy(case):
            sampled.append(case)
    for case, p, how in gen_leaf_values(ctx, rng, names, models):
        run(st, case, 'value:' + how, 'value:', 'spelling-irrelevant:boundary-value', [f'pos{p}'])
    for case in gen_sweeps(models):
        run(st, case, 'value:sweep', 'sweep:', 'spelling-irrelevant:boundary-value', [])
        nth += 1
        if nth % 7 == 0 and not heavy(case):
            sampled.append(case)

    st = ctx.stream('arg-pairs', 'every function x every PAIR of number-taking positions x pairs from a pool of %d values (small, 12/13, 31/32, char-code '
                                 'and surrogate boundaries: high+low, low+high, high+high, lone) + lengths of the other arguments: the full product on '
                                 'the first two positions of the functions taking a sequence of values (stringFromCharCode, mathMax/Min, arrayNew, '
                                 'objectNew, arrayPush, systemPartial, ...), a sample elsewhere (quick) / the full product on every pair of a sequence '
                                 '(thorough); spellings and comparison as arg-values' % len(PAIR_POOL))
    rng = ctx.rng('arg-pairs')
    for case, pq, how in gen_arg_pairs(ctx, rng, names, models):
        run(st, case, 'pair:' + how, 'pair:', 'spelling-irrelevant:boundary-pair', [f'pos{pq[0]}+{pq[1]}'])
        nth += 1
        if nth % 9 == 0 and not heavy(case):
            sampled.append(case)

    st = ctx.stream('arg-wrongtype', 'every function x every argument position x ONE argument of another type (%d values: strings, arrays, objects with '
                                     'digit / length keys, list and dict subclass instances, host tuple / bytes / range / int-keyed dict / str subclass, '
                                     'null, boolean, number, datetime, regex, function), the other arguments valid and the number arguments small '
                                     'in-range indexes; and TWO deviations: an indexable value of another type at one position + a small number at '
                                     'another position that takes no number. Spellings and comparison as arg-values. The host-only values are not expressible in the Lean '
                                     'model (implementation-side oracle only)' % len(WRONG_VALUES))
    rng = ctx.rng('arg-wrongtype')
    for case, p, how in gen_wrong_types(ctx, rng, names, models):
        run(st, case, 'wrongtype:' + how, 'wrong:', 'spelling-irrelevant:unexpected-type', [f'pos{p}'])

    # --- built-in expression functions: evaluate_expression(builtins) and dataCalculatedField expression text
    aliases = expr_aliases()
    unmapped = [a for a in fw.impl()['library'].EXPRESSION_FUNCTIONS if a not in aliases and a not in ('now', 'today', 'rand')]
    if unmapped:
        ctx.notes.append('expr-functions: expression functions without a known script function (not generated for): ' + ', '.join(sorted(unmapped)))
    by_fn = {}
    for alias, fname in sorted(aliases.items()):
        by_fn.setdefault(fname, []).append(alias)
    st = ctx.stream('expr-functions', 'the boundary pools of arg-values / arg-pairs (every number-taking position x pool; pair product for sequences) and a '
                                      'sample of their cases again through the built-in EXPRESSION function names (%d names: '
                                      'fromCharCode, slice, rept, charCodeAt, indexOf, fixed, round, parseInt, date, ...): (a) evaluate_expression resolving '
                                      'the name through its `builtins` table, four spellings; (b) every third scalar argument list inside dataCalculatedField '
                                      'expression text, the numbers as literals / row fields / variables x int / float. Host-side path, not in the Lean '
                                      'model' % len(aliases))
    rng = ctx.rng('expr-functions')
    per_alias = ctx.scale(40, 1500)
    nexpr = 0
    pool_by_fn = {}
    for case in sampled:
        pool_by_fn.setdefault(case['fn'], []).append(case)
    for fname, names_ in sorted(by_fn.items()):
        pool = pool_by_fn.get(fname, [])
        for alias in names_:
            arg_lists = []
            model = models[fname][1] if fname in models else None
            # every number-taking position x the boundary pool (+ lengths of the other arguments), as in arg-values
            for p, typ in positions_of(fname, models):
                if typ not in ('number', None):
                    continue
                for v in (ANY_POOL if typ is None and model and ctx.quick else VALUE_POOL):
                    args = full_args(rng, fname, models, p)
                    args[p] = N(v)
                    arg_lists.append(args)
                args = full_args(rng, fname, models, p)
                for v in rel_values(args, skip=p):
                    arg_lists.append(args[:p] + [N(v)] + args[p + 1:])
            if is_sequence_fn(fname, models):
                # a function of a sequence of values: the full product of the pair pool here too
                arg_lists += [[N(v), N(w)] + ([N(rng.randint(65, 90))] if rng.random() < 0.3 else []) for v in PAIR_POOL for w in PAIR_POOL]
            for _ in range(per_alias):
                if pool:
                    arg_lists.append(rng.choice(pool)['args'])
            for args in arg_lists:
                case = ext_case(fname, args, expr=alias)
                run(st, case, 'expr', 'expr:', 'spelling-irrelevant:expression-function', [f'alias:{alias}'])
                nexpr += 1
                if scalar_args(case['args']) and not has_key(case['args'], ('same',)) and (nexpr % 3 == 0 or not ctx.quick):
                    dcase = {'kind': 'dataexpr', 'fn': fname, 'expr': alias, 'args': case['args']}
                    differ, outs = dataexpr_differ(dcase)
                    st.case(dcase, nontrivial=any(is_num(a) for a in dcase['args']), tags=['dataexpr', f'alias:{alias}'])
                    if differ:
                        lim.witness('dataexpr:' + alias, 'spelling-irrelevant:data-expression', dcase, outs['literal'],
                                    next(v for v in outs.values() if v != outs['literal']), all_outcomes=outs)

    # --- script text: the number produced as literal / by arithmetic / by jsonParse / mathCeil / stringCharCodeAt / host int / host float
    st = ctx.stream('number-producers', 'a sample of the boundary cases as SCRIPT TEXT `r = fn(...)`, every top-level number argument produced as a '
                                        'literal (float), by script arithmetic (float), by jsonParse (int), by mathCeil (int), by stringCharCodeAt of '
                                        'that character (int), as a host int global, as a host float global, literal / jsonParse alternating: result, '
                                        'post-call arguments, debug log and statement count must agree. all non-trivial')
    rng = ctx.rng('number-producers')
    cands = [c for c in sampled if any(is_num(a) for a in c['args']) and not any(has_key(a, ('same',)) for a in c['args'])]
    rng.shuffle(cands)
    for case in cands[:ctx.scale(1500, 30000)]:
        pcase = {'kind': 'producers', 'fn': case['fn'], 'args': case['args']}
        differ, outs = producers_differ(pcase)
        st.case(pcase, nontrivial=True, tags=[f'fn:{case["fn"]}', 'raised' if 'raised' in outs['lit'] else 'ran'])
        if differ:
            lim.witness('producers:' + case['fn'], 'spelling-irrelevant:number-producer', pcase, outs['lit'],
                        next(v for v in outs.values() if v != outs['lit']), all_outcomes=outs)

    # --- operators
    st = ctx.stream('operators-boundary', 'every binary operator x random pairs from the pair pool + 2^31, 2^32, 2^49, +-(1e15-1) (sometimes a string / '
                                          'array / object / datetime on one side), 4 spelling combinations; every unary operator on the pool')
    for case in op_boundary_cases(ctx, ctx.rng('operators-boundary')):
        check_case(ctx, lim, st, case, 'op', key='opb:')

    # --- fresh interpreter, float first
    st = ctx.stream('fresh-order', 'a sample of the boundary cases run in a FRESH interpreter process in the order float, alternating, int and compared '
                                   'with this process (order int, float, alternating): a cache keyed by the argument value cannot tell 2 from 2.0, so '
                                   'the first spelling seen in a process would decide for both. Host-side (process state) - not in the Lean model')
    rng = ctx.rng('fresh-order')
    cands = list(sampled)
    rng.shuffle(cands)
    cands = cands[:ctx.scale(2500, 40000)]
    for case, (differ, here, fr) in zip(cands, fresh_differs(cands)):
        st.case(case, nontrivial=sum(count_nums(a) for a in case['args']) > 0, tags=[f'fn:{case["fn"]}'])
        if differ:
            lim.witness('fresh:' + case['fn'], 'spelling-irrelevant:fresh-order', dict(case, fresh=1), here['int'],
                        next((fr[sp] for sp in FRESH_ORDER if fr[sp] != here['int']), None) or next(here[sp] for sp in SPELLINGS_EXT if here[sp] != here['int']),
                        in_process=here, fresh_process=fr)

    modelled_cases.extend(extra_model)
    return sampled


# ---------------------------------------------------------------------------------------------------------------------
# Datetime arithmetic on the magnitude scale, and HISTORIES: ==-equal neighbour values first
# ---------------------------------------------------------------------------------------------------------------------

# early bases take the large positive offsets (1.44e14 ms = 4566 years, 3.1e14 ms = 9998 years), late bases the large negative ones
DT_BASES = [{'dt': [1, 1, 1]}, {'dt': [1000, 1, 1]}, {'dt': [1970, 1, 1]}, {'dt': [2020, 1, 31, 10, 20, 30, 500000]}, {'dt': [5000, 6, 15, 12, 0, 0, 1000]},
            {'dt': [9999, 12, 31, 23, 59, 59, 999000]}, {'date': [1, 1, 1]}, {'date': [2021, 6, 15]}, {'date': [9999, 12, 31]}]
DT_EXPRS = ['d + a', 'a + d', "'' + (d + a)", '(d + a) - d', 'year(a + d)', 'if(d + a == a + d, a, 0 - a)']


def mag_tag(n):
    return 'mag:1e%d' % (len(str(abs(n))) - 1)


def _lit(n):
    return str(n) if n >= 0 else f'({n})'


def datetime_scale_cases(ctx, rng):
    """datetime + n / n + datetime: every base x the +-2 neighbourhood of every scale point, both signs, both operand orders; random band
    values; now and then another operator (the result is null / a comparison in either spelling)."""
    for base in DT_BASES:
        for v in scale_values():
            yield {'kind': 'binary', 'op': '+', 'left': base, 'right': N(v)}, 'dt+n', v
            yield {'kind': 'binary', 'op': '+', 'left': N(v), 'right': base}, 'n+dt', v
    for _ in range(ctx.scale(1200, 40000)):
        base, v = rng.choice(DT_BASES), gen_scaled(rng)
        op = rng.choice(['+', '+', '+', '+', '-', '<', '==', '*'])
        if rng.random() < 0.5:
            yield {'kind': 'binary', 'op': op, 'left': base, 'right': N(v)}, 'dt' + op + 'n', v
        else:
            yield {'kind': 'binary', 'op': op, 'left': N(v), 'right': base}, 'n' + op + 'dt', v


def gen_dtscript(rng, values):
    """The sum as script text: the offset as a LITERAL (a float as parsed / an int in the int spelling) and as a host global (int / float),
    the sums turned into text, subtracted again, compared, taken apart."""
    base = rng.choice(DT_BASES)
    n = rng.choice(values) if rng.random() < 0.6 else gen_scaled(rng)
    text = (f'r = base + {_lit(n)}\nq = off + base\n'
            "return arrayNew(r, q, '' + r, '' + q, r - base, q - base, r == q, datetimeYear(r), datetimeMillisecond(q), datetimeISOFormat(r))\n")
    return {'kind': 'hscript', 'text': text, 'globals': [['base', base], ['off', N(n)]]}, n


DATA_SCALE_EXPRS = ['a + b', 'a - b', 'a * b', 'a * a', 'a ** 2', 'a / b', 'a % b', 'a % 1000', 'a * 1000', 'a == b', 'a < b', 'round(a / 3, 2)', 'fixed(a, 2)', 'text(a)',
                    "a + ''", 'max(a, b)', 'abs(a) + 1', 'floor(a / 1000) * 1000 + a % 1000 == a', 'sqrt(a * a) == abs(a)', 'parseInt(text(a)) == a', '-a', 'if(a > b, a, b)']


def data_scale_cases(ctx, rng):
    """The data functions over rows whose number fields hold values of every magnitude: every aggregation function (with and without categories),
    sort / join / top keys, calculated fields and filters with arithmetic over the large values."""
    for _ in range(ctx.scale(40, 600)):
        for func in ('average', 'count', 'max', 'min', 'stddev', 'sum'):
            rows = gen_rows(rng, big=rng.choice([('a',), ('a', 'b'), ('a', 'b', 'c')]))
            agg = [['measures', A(O(field='a', function=func), *([O(field='b', function=rng.choice(['sum', 'stddev', 'average']), name='m2')] if rng.random() < 0.3 else []))]]
            if rng.random() < 0.4:
                agg.insert(0, ['categories', A(rng.choice(['b', 'c', 's']))])
            yield {'kind': 'call', 'fn': 'dataAggregate', 'args': [rows, O(*agg)]}, 'aggregate:' + func
    # directed: one category, n rows whose measure values sit at the TOP of the range (odd and even, so that partial sums pass 2**53 with an
    # odd value - R4C12-m1: `sum(values) / len(values)` instead of statistics.mean differs between the int and the float spelling there)
    top = [999999999999999, 999999999999998, 999999999999997, 900000000000001, 562949953421313]
    for func in ('average', 'count', 'max', 'min', 'stddev', 'sum'):
        for n in (2, 3, 9, 11, 16, 17, 33):
            for start in (0, 1):
                rows = A(*[O(a=N(top[(start + i) % len(top)]), s='k') for i in range(n)])
                yield {'kind': 'call', 'fn': 'dataAggregate', 'args': [rows, O(['measures', A(O(field='a', function=func))])]}, 'aggregate-top:' + func
    for fname in ('dataSort', 'dataJoin', 'dataTop', 'dataValidate'):
        for _ in range(ctx.scale(40, 800)):
            yield {'kind': 'call', 'fn': fname, 'args': tame(fname, sp_data(rng, fname, big=rng.choice([('a',), ('a', 'b')])))}, fname
    for fname in ('dataCalculatedField', 'dataFilter'):
        for expr in DATA_SCALE_EXPRS:
            for _ in range(ctx.scale(4, 80)):
                rows = gen_rows(rng, big=('a', 'b'))
                yield {'kind': 'call', 'fn': fname, 'args': [rows, 'z', expr] if fname == 'dataCalculatedField' else [rows, expr]}, fname


def gen_dtexpr(rng, values):
    """The sum inside dataCalculatedField expression text, datetime and offset as row fields."""
    base = rng.choice(DT_BASES)
    n = rng.choice(values) if rng.random() < 0.6 else gen_scaled(rng)
    return {'kind': 'call', 'fn': 'dataCalculatedField', 'args': [A(O(d=base, a=N(n))), 'z', rng.choice(DT_EXPRS)]}, n


# --- histories.  A cache / memo / interning table keyed by a number cannot tell apart values that are == and hash alike: 0.0 and -0.0, 1 and
#     1.0 and True, 0 and False, n and Decimal(n) and Fraction(n).  If only ONE of the two host spellings goes through such a table (the float
#     branch of value_string, say), then what an earlier call left there decides what the float spelling gives while the int spelling is
#     unaffected: the outcome depends on the spelling AND on the history.  So every subject case is preceded, in a fresh interpreter, by its
#     own history: the ways a script ordinarily produces -0.0 / true / false and turns them into text, the same call with each of its numbers
#     replaced by each ==-equal neighbour, and the case itself in the int spelling; then the four spellings are compared as usual.

NEIGHBOUR_SCRIPTS = [
    "x = 0 * -1\ny = 0 / -5\nz = numberParseFloat('-0')\nw = jsonParse('[-0.0, -0.0e0]')\n"
    "return arrayNew('' + x, x + '', stringNew(y), jsonStringify(x), jsonStringify(arrayNew(x, y), 2), arrayJoin(arrayNew(z, x), ','), numberToFixed(x, 2), "
    "numberToFixed(y, 0, true), mathRound(x, 1), mathAbs(x), mathSign(y), mathMin(x, 0), mathMax(0, x), '' + w, stringNew(arrayGet(w, 1)), "
    "systemCompare(x, 0), x == 0, arrayIndexOf(arrayNew(0, 1), x), arraySort(arrayNew(1, x, 0)), objectNew('k', x), systemBoolean(x), mathSqrt(x), "
    "mathFloor(x), mathCeil(-0.5), stringNew(mathCeil(-0.5)), stringNew(mathRound(-0.2)), '' + (-0.2 * 0))\n",
    "t = true\nf = false\n"
    "return arrayNew('' + t, f + '', stringNew(t), jsonStringify(f), jsonStringify(arrayNew(t, f), 2), arrayJoin(arrayNew(t, f, 1, 0), ','), "
    "systemCompare(t, 1), t == 1, f == 0, arrayIndexOf(arrayNew(0, 1), t), arraySort(arrayNew(t, f)), objectNew('k', t, 'j', f), systemBoolean(f), "
    "systemType(t), mathAbs(t), numberToFixed(t, 1), mathRound(f, 0), mathMax(t, 0), stringRepeat('a', t), arrayGet(arrayNew(5, 6), f))\n",
]


def neighbours_of(n):
    """Values that are == to the integral number n (and hash alike) without being its int or float spelling."""
    out = []
    if n == 0:
        out += [{'f': '-0.0'}, False]
    if n == 1:
        out += [True]
    return out + [{'dec': str(n)}, {'frac': n}]


def _number_sites(case):
    """[(where, path, n)] for every integral number of a call / operator case."""
    sites = []
    if case['kind'] == 'call':
        for ix, a in enumerate(case['args']):
            for pth in num_paths(a):
                sites.append((ix, pth))
    elif case['kind'] in ('binary', 'unary'):
        for side in ('left', 'right'):
            if side in case:
                for pth in num_paths(case[side]):
                    sites.append((side, pth))
    return sites


def _get_path(enc, path):
    for _kind, i in path:
        enc = enc['a'][i] if 'a' in enc else enc['o'][i][1]
    return enc


def _replace_site(case, where, path, v):
    if case['kind'] == 'call':
        args = list(case['args'])
        args[where] = set_path(args[where], path, v)
        return dict(case, args=args)
    return dict(case, **{where: set_path(case[where], path, v)})


def history_pre(case, max_sites=3):
    """The history run before a subject case (deterministic in the case): [(case, spelling)]."""
    pre = []
    sites = _number_sites(case)[:max_sites]
    values = []
    for where, pth in sites:
        n = _get_path(case['args'][where] if case['kind'] == 'call' else case[where], pth)['n']
        values.append(n)
    if any(n in (0, 1) for n in values):
        for text in NEIGHBOUR_SCRIPTS:
            pre.append(({'kind': 'script', 'text': text}, 'float'))
            pre.append(({'kind': 'script', 'text': text}, 'int'))
    for (where, pth), n in zip(sites, values):
        for v in neighbours_of(n):
            pre.append((_replace_site(case, where, pth, v), 'float'))
    pre.append((case, 'int'))
    return pre


HIST_NUMS = [0, 0, 0, 1, 1, -1, 2, 7, 100, 94906267, 144115188075857]


def history_subjects(ctx, rng, sampled):
    """Subject cases of the history stream: every way a number reaches text / a comparison / an index (call and operator paths) x small shapes x
    numbers with neighbours (0, 1) and without; then a sample of the boundary cases of arg-values / arg-pairs, those holding a 0 or 1 first."""
    def call(fn, *args):
        return {'kind': 'call', 'fn': fn, 'args': tame(fn, list(args))}
    for x in _dedupe(HIST_NUMS):
        n = N(x)
        shapes = [('num', n), ('arr', A(n, N(1), N(0))), ('obj', O(a=n, b=N(0))), ('arr>obj', A(O(n=n), n))]
        for shape, v in shapes:
            for path, case in [
                    ('stringNew', call('stringNew', v)), ('concat-right', {'kind': 'binary', 'op': '+', 'left': 'v=', 'right': v}),
                    ('concat-left', {'kind': 'binary', 'op': '+', 'left': v, 'right': ' x'}), ('arrayJoin', call('arrayJoin', A(v, n), ',')),
                    ('systemLog', call('systemLog', v)), ('jsonStringify', call('jsonStringify', v)), ('jsonStringify-indent', call('jsonStringify', v, N(2))),
                    ('compare', {'kind': 'binary', 'op': '==', 'left': v, 'right': v}), ('systemCompare', call('systemCompare', v, v)),
                    ('arrayIndexOf', call('arrayIndexOf', A(N(5), v, n), v)), ('objectNew', call('objectNew', 'k', v)), ('arraySort', call('arraySort', A(v, n, N(1))))]:
                yield case, f'{path}:{shape}'
        for d in (0, 1, 2):
            yield call('numberToFixed', n, N(d)), 'numberToFixed'
            yield call('numberToFixed', n, N(d), True), 'numberToFixed-trim'
            yield call('mathRound', n, N(d)), 'mathRound'
        for fn in ('mathAbs', 'mathSign', 'mathFloor', 'mathCeil', 'mathSqrt', 'systemBoolean', 'systemType', 'stringFromCharCode', 'arrayNewSize'):
            yield call(fn, n), fn
        for op in ('+', '-', '*', '/', '%', '**', '<', '&&', '||'):
            for left, right in ((n, N(rng.choice(HIST_NUMS))), (N(rng.choice([3, -5, 2])), n)):
                if op_safe(op, left, right):
                    yield {'kind': 'binary', 'op': op, 'left': left, 'right': right}, 'op' + op
        for op in UN_OPS:
            yield {'kind': 'unary', 'op': op, 'left': n}, 'un' + op
    cands = [c for c in sampled if not any(has_key(a, ('same',)) for a in c['args']) and _number_sites(c)]
    rng.shuffle(cands)
    first = [c for c in cands if any(_get_path(c['args'][w], pth)['n'] in (0, 1) for w, pth in _number_sites(c)[:3])]
    rest = [c for c in cands if c not in first[:ctx.scale(500, 6000)]]
    for c in first[:ctx.scale(500, 6000)] + rest[:ctx.scale(300, 4000)]:
        yield {k: v for k, v in c.items() if k != 'ext'}, 'sampled:' + c['fn']


def scale_streams(ctx, lim, sampled):
    values = scale_values()
    st = ctx.stream('datetime-scale', 'datetime arithmetic on the magnitude SCALE: `datetime + n` and `n + datetime` for %d bases (years 1, 1000, 1970, 2020, 5000, 9999; '
                                      'datetime and date) x the +-2 neighbourhood (odd and even) of %d scale points from 1 to 1e15-1 (2^16, 1e6, 2^24, sqrt(2^53), 1e9, '
                                      '2^31, 2^32, 2^53/1e6, 1e10, 1e12, 2^40, 2^53/1000, 1e13, 1e14, 2^57/1000, 2^48, 2^58/1000, 2^49, 2^59/1000) x both signs x both '
                                      'operand orders x 4 spelling combinations + random band values of both parities (sometimes - < == *); the same sums as SCRIPT '
                                      'TEXT (offset as a literal and as a host global: 4 runs; text of the sum, difference back, comparison, year / millisecond / '
                                      'ISO text of the sum) and inside dataCalculatedField expression text (row fields). Results compared to the microsecond. The early '
                                      'bases keep sums of the largest offsets below year 9999, the late ones above year 1. non-trivial = always (an integral offset)'
                    % (len(DT_BASES), len(SCALE_POINTS)))
    rng = ctx.rng('datetime-scale')
    for case, how, v in datetime_scale_cases(ctx, rng):
        check_case(ctx, lim, st, case, 'op', key=f'dts:{how}:', tags=[how, mag_tag(v)], nontrivial=True)
    for _ in range(ctx.scale(500, 8000)):
        case, v = gen_dtscript(rng, values)
        check_case(ctx, lim, st, case, 'hscript', key='dts:', tags=['script', mag_tag(v)])
    for _ in range(ctx.scale(400, 6000)):
        case, v = gen_dtexpr(rng, values)
        check_case(ctx, lim, st, case, 'dtexpr', key='dts:', tags=['dataexpr', mag_tag(v)], nontrivial=True, oracle='spelling-irrelevant:datetime-scale')

    st = ctx.stream('data-scale', 'the data functions on the magnitude SCALE: rows whose number fields (a / a, b / a, b, c) hold values from the scale ladder in (nearly) '
                                  'all rows: dataAggregate x each of average, count, max, min, stddev, sum (second measure, categories), dataSort / dataJoin / dataTop / '
                                  'dataValidate over large keys, dataCalculatedField / dataFilter x %d expressions with arithmetic, comparison, rounding and text over the large '
                                  'values (a * a, a ** 2, a * 1000, a %% 1000, parseInt(text(a)) == a, ...); int / float / alternating spelling of every row value. '
                                  'non-trivial = an integral number occurs' % len(DATA_SCALE_EXPRS))
    rng = ctx.rng('data-scale')
    for case, how in data_scale_cases(ctx, rng):
        check_case(ctx, lim, st, case, 'data-scale', key='datascale:', tags=['how:' + how], oracle='spelling-irrelevant:data-scale')

    st = ctx.stream('neighbour-history', 'HISTORIES in a fresh interpreter process: before a subject case is run in its four spellings (float, alternating x 2, int) the '
                                         'process first (a) produces -0.0 the ways scripts do (0 * -1, 0 / -5, numberParseFloat, jsonParse, mathCeil(-0.5)) and true / '
                                         'false and turns them into text by every path (when the case holds a 0 or 1), (b) runs the SAME case with each of its first '
                                         'three numbers replaced by each ==-equal, equal-hash neighbour (-0.0 and false for 0, true for 1, Decimal(n), Fraction(n)), (c) '
                                         'runs the case in the int spelling.  A table keyed by the number value (lru_cache, memo dict, interning) that only one host '
                                         'spelling goes through then answers for the neighbour.  Subjects: every text / comparison / search path x 4 shapes x numbers %r, '
                                         'numberToFixed / mathRound / math* / operators on them, and a sample of the arg-values / arg-pairs boundary cases (those holding '
                                         '0 or 1 first).  Compared with each other and with this process (no history).  Host-side (process state, host-only values '
                                         'Decimal / Fraction) - not in the Lean model.' % _dedupe(HIST_NUMS))
    rng = ctx.rng('neighbour-history')
    cands, tags = [], []
    for case, how in history_subjects(ctx, rng, sampled):
        cands.append(dict(case, hist=1))
        tags.append(how)
    for case, how, (differ, here, fr) in zip(cands, tags, fresh_differs(cands)):
        sites = _number_sites(case)
        st.case(case, nontrivial=bool(sites), tags=['how:' + how.split(':')[0], f'pre:{len(history_pre(case))}'])
        if differ:
            lim.witness('hist:' + how.split(':')[0] + (':F15' if _is_f15({'input': case}) else ''), 'spelling-irrelevant:neighbour-history', dict(case, fresh=1),
                        here['int'], next((fr[sp] for sp in FRESH_ORDER if fr[sp] != here['int']), None) or
                        next(here[sp] for sp in SPELLINGS_EXT if here[sp] != here['int']), in_process=here, fresh_process=fr,
                        history=[[pc, sp] for pc, sp in history_pre(case)][:12])


# ---------------------------------------------------------------------------------------------------------------------
# The SIGN of a zero result (known finding F44).  Everywhere else results are compared by value (canon_num maps -0.0 to 0: value_compare says
# they are equal); but value_string / value_json print "-0" for -0.0 and "0" for 0, so an operation that returns int 0 for the int spelling
# and -0.0 for the float spelling is visible to a script.  This stream compares sign-SENSITIVELY.  Implementation-side oracle only: the Lean
# models are over rationals (one zero) and cannot express a negative zero.
# ---------------------------------------------------------------------------------------------------------------------

ZS_SPELLINGS = ('int', 'float', 'mix', 'xim')
ZS_INTS = [0, 1, -1, 2, -2, 3, -3, 5, -5, 6, -6, 10, 94906267, -94906267, 10 ** 12 + 1, -(10 ** 15 - 1), 10 ** 15 - 1]
ZS_FIXED = [{'f': '-0.0'}, {'f': '0.5'}, {'f': '-0.5'}, {'f': '5e-324'}, {'f': '-5e-324'}]      # floats in every spelling (not integral / not an int's float)
ZS_PAIR = [N(0), {'f': '-0.0'}, N(1), N(-1), N(2), N(-3), N(6), {'f': '0.5'}, {'f': '-0.5'}, N(94906267)]
# expression text over the variables a, b: how a zero of either sign travels on (text, max / min, rounding, concatenation, a second operator)
ZS_EXPRS = ['text(-a)', "'' + (-a)", "-a + ''", 'max(-a, 0)', 'min(-a, b)', 'text(a % b)', "'' + (a % b)", '-(a - a)', '-(a * 0)', 'a * b', 'text(a * b)', 'a / b', 'a - a', '0 - a',
            'a + (-a)', 'a + b', 'a - b', 'round(-a)', 'fixed(-a, 1)', 'abs(-a)', '-a == 0', 'if(-a, 1, 2)', 'sqrt(a * a) - abs(a)', 'floor(a / b)', 'ceil(a / b)', 'a ** b',
            'text(a ** 2)', 'max(a, b)', 'min(a, b)', 'a * b - a * b', 'text(0 - (a - a))']
ZS_DATAEXPRS = ['-a', 'a % b', 'a * b', 'a - a', '0 - a', 'a / b', 'max(-a, 0)']
# propagation of F44 through further expression text: expression -> what makes it an instance of the finding
#   'neg0': unary minus applied to the variable a = integral 0;  'negdiff': unary minus applied to a - a / a * 0 (an integral zero for every integral a);
#   'mod': a % b with integral a, b, b < 0, a % b == 0
F44_PROPAGATION = {'text(-a)': 'neg0', "'' + (-a)": 'neg0', "-a + ''": 'neg0', 'max(-a, 0)': 'neg0', 'min(-a, b)': 'neg0', '-a': 'neg0',
                   'text(a % b)': 'mod', "'' + (a % b)": 'mod', 'a % b': 'mod', '-(a - a)': 'negdiff'}


_R_NEGZERO_TEXT = re.compile(r'(?<![\w.])-0(?![\w.])')


def zcanon(v, depth=0):
    """canon, but a zero keeps its sign (int 0 and 0.0: '+', -0.0: '-')."""
    if isinstance(v, (int, float)) and not isinstance(v, bool):
        if v == 0:
            return ['n', 0, '-' if isinstance(v, float) and math.copysign(1.0, v) < 0 else '+']
        return canon_num(v)
    if depth < 12 and isinstance(v, (list, tuple)):
        return ['a', [zcanon(x, depth + 1) for x in v]]
    if depth < 12 and isinstance(v, dict):
        return ['o', [[k if isinstance(k, str) else ['key', repr(k)], zcanon(x, depth + 1)] for k, x in v.items()]]
    return canon(v)


def zstrip(c):
    """A zcanon form without the zero signs."""
    if isinstance(c, list):
        if len(c) == 3 and c[0] == 'n' and c[1] == 0 and c[2] in ('+', '-'):
            return ['n', 0]
        if len(c) == 2 and c[0] == 's' and isinstance(c[1], str):
            return ['s', _R_NEGZERO_TEXT.sub('0', c[1])]      # the text of a zero: '-0' where the other spelling has '0'
        return [zstrip(x) for x in c]
    return c


def zero_sign_only(x, y):
    """The two outcomes differ, and only in the sign of zero results (the text then differs in '-0' vs '0' at most)."""
    if not isinstance(x, dict) or not isinstance(y, dict) or 'result' not in x or 'result' not in y:
        return False
    return x['result'] != y['result'] and zstrip(x['result']) == zstrip(y['result'])


def run_zsign(case, sp):
    m = fw.impl()
    rt, lib, val = m['runtime'], m['library'], m['value']
    args = build_args(case['args'], sp)
    form, op = case['form'], case['op']
    g = {}
    try:
        with cpu_limit('zs:' + op):
            if form == 'dataexpr':
                row = {'a': args[0], 'b': args[1]}
                res = lib.SCRIPT_FUNCTIONS['dataCalculatedField']([[row], 'z', op], {'globals': {}, 'maxStatements': 1000, 'statementCount': 0})[0].get('z')
            else:
                if form == 'expr':
                    g.update({'a': args[0], 'b': args[1]})
                    expr = m['parser'].parse_expression(op)
                elif form == 'unary':
                    g['a0'] = args[0]
                    expr = {'unary': {'op': op, 'expr': {'variable': 'a0'}}}
                elif form == 'binary':
                    g.update({'a0': args[0], 'a1': args[1]})
                    expr = {'binary': {'op': op, 'left': {'variable': 'a0'}, 'right': {'variable': 'a1'}}}
                else:       # 'call': the library function;  'exprfn': the built-in expression function of that name
                    if form == 'call':
                        g[op] = lib.SCRIPT_FUNCTIONS[op]
                    for i, a in enumerate(args):
                        g[f'a{i}'] = a
                    expr = {'function': {'name': op, 'args': [{'variable': f'a{i}'} for i in range(len(args))]}}
                res = rt.evaluate_expression(expr, {'globals': g, 'maxStatements': 1000, 'statementCount': 0})
        out = {'result': zcanon(res)}
        try:
            out['text'] = val.value_string(res) if not callable(res) else '<function>'
        except Exception as exc:  # pylint: disable=broad-except
            out['text'] = ['raised', type(exc).__name__]
    except CallTimeout:
        out = {'escaped': 'TIMEOUT'}
    except Exception as exc:  # pylint: disable=broad-except
        out = {'escaped': type(exc).__name__}
    return out


def zsign_differs(case):
    outs = {sp: run_zsign(case, sp) for sp in ZS_SPELLINGS}
    return any(v != outs['int'] for v in outs.values()), outs


def zsign_cases(ctx, rng, names, models):
    pool = [N(n) for n in ZS_INTS] + ZS_FIXED

    def zc(form, op, args):
        return {'kind': 'zsign', 'form': form, 'op': op, 'args': list(args)}
    for op in UN_OPS:
        for x in pool:
            yield zc('unary', op, [x])
    for op in BIN_OPS:
        for x in pool:
            for y in pool:
                if op_safe(op, x, y):
                    yield zc('binary', op, [x, y])
    for text in ZS_EXPRS:
        for x in pool:
            for y in ZS_PAIR + [N(-5), N(-6), N(3)]:
                yield zc('expr', text, [x, y])
    for text in ZS_DATAEXPRS:
        for x in pool:
            for y in ZS_PAIR + [N(-5), N(-6)]:
                yield zc('dataexpr', text, [x, y])
    # every library function and every built-in expression function: each number-taking position x the pool (the other arguments valid); the
    # functions of numbers only (math*, number*) and of a sequence of values: the first two positions x the pair pool
    targets = [('call', name, name) for name in names] + [('exprfn', alias, fname) for alias, fname in sorted(expr_aliases().items())]
    for form, op, fname in targets:
        ps = number_positions(fname, models)
        for p in ps:
            for x in pool:
                args = full_args(rng, fname, models, p)
                args[p] = x
                yield zc(form, op, tame_ext(fname, args))
        if len(ps) >= 2 and (fname.startswith(('math', 'number')) or is_sequence_fn(fname, models)):
            for x in ZS_PAIR:
                for y in ZS_PAIR:
                    args = full_args(rng, fname, models, ps[1])
                    args[ps[0]], args[ps[1]] = x, y
                    yield zc(form, op, tame_ext(fname, args))


def _zs_fname(case):
    if case['form'] == 'call':
        return case['op']
    if case['form'] == 'exprfn':
        return expr_aliases().get(case['op'])
    return None


def zero_sign_stream(ctx, lim, names, models):
    st = ctx.stream('zero-sign', 'the SIGN of a zero result: unary - ! and the 14 binary operators x all pairs of %d operands (0, -0.0, +-1 2 3 5 6 10, +-sqrt(2^53), 1e12+1, '
                                 '+-(1e15-1), +-0.5, +-5e-324: pairs whose quotient / remainder / product / difference is zero or underflows to it); %d expression texts and '
                                 '%d dataCalculatedField expressions carrying such a zero on (text(-a), max(-a, 0), \'\' + (a %% b), -(a - a), ...); every library function and '
                                 'every built-in expression function x each number-taking position x the pool, the first two positions of math* / number* / sequence '
                                 'functions x a pair pool of %d; each in the int / float / both alternating spellings (-0.0 and the fractions are the same float in every '
                                 'spelling), results compared INCLUDING the sign of every zero (math.copysign, at any depth) and as value_string text. digits >= 23 of '
                                 'mathRound / numberToFixed left to F15. Implementation-side oracle only (spelling-irrelevant:zero-sign): the Lean models are over '
                                 'rationals and have no negative zero. Known finding F44: unary - of an integral 0, %% with a zero result under a negative divisor. '
                                 'non-trivial = an integral number occurs' % (len(ZS_INTS) + len(ZS_FIXED), len(ZS_EXPRS), len(ZS_DATAEXPRS), len(ZS_PAIR)))
    rng = ctx.rng('zero-sign')
    for case in zsign_cases(ctx, rng, names, models):
        fname = _zs_fname(case)
        if fname and _is_f15({'input': {'kind': 'call', 'fn': fname, 'args': case['args']}}):
            continue
        differ, outs = zsign_differs(case)
        zero = any(isinstance(o.get('result'), list) and o['result'][:2] == ['n', 0] for o in outs.values())
        st.case(case, nontrivial=sum(count_nums(a) for a in case['args']) > 0,
                tags=[f'form:{case["form"]}', 'zero-result' if zero else 'other-result', 'differs' if differ else 'same'] +
                     ([f'op:{case["op"]}'] if case['form'] in ('unary', 'binary') else []))
        if differ:
            bad = next(sp for sp in ZS_SPELLINGS if outs[sp] != outs['int'])
            w = {'oracle': 'spelling-irrelevant:zero-sign', 'input': case, 'expected': outs['int'], 'actual': outs[bad]}
            lim.witness(f'zs:{case["form"]}:{case["op"]}' + (':F44' if _is_f44(w) else ''), 'spelling-irrelevant:zero-sign', case, outs['int'], outs[bad],
                        spelling_of_actual=bad, zero_sign_only=zero_sign_only(outs['int'], outs[bad]), all_outcomes=outs)


# ---------------------------------------------------------------------------------------------------------------------
# Known finding F15
# ---------------------------------------------------------------------------------------------------------------------

def _is_f15(w):
    case = w.get('input') or {}
    if case.get('kind') not in ('call', 'dataexpr', 'producers'):
        return False
    args = case.get('args') or []
    if case.get('fn') == 'systemPartial' and args and isinstance(args[0], dict) and args[0].get('fn') in ('mathRound', 'numberToFixed'):
        args = args[1:]       # the digit count of a partially applied mathRound / numberToFixed
    elif case.get('fn') not in ('mathRound', 'numberToFixed'):
        return False
    return len(args) >= 2 and isinstance(args[1], dict) and 'n' in args[1] and args[1]['n'] >= 23


def _int_zero(enc):
    return isinstance(enc, dict) and enc == {'n': 0}


def _mod_zero_neg(args):
    """integral a, b with b < 0 and a % b == 0"""
    return (len(args) >= 2 and is_num(args[0]) and is_num(args[1]) and args[1]['n'] < 0 and args[0]['n'] % args[1]['n'] == 0)


def _is_f44(w):
    """Known finding F44, as narrow as the finding: a zero-sign witness whose two outcomes differ ONLY in the sign of a zero result and whose
    operation is unary minus of the integral 0, or `%` of two integral operands with a negative divisor and remainder zero, or one of the listed
    expression texts that carry exactly such a result on (F44_PROPAGATION)."""
    case = w.get('input') or {}
    if w.get('oracle') != 'spelling-irrelevant:zero-sign' or not isinstance(case, dict) or case.get('kind') != 'zsign':
        return False
    exp, act = w.get('expected'), w.get('actual')
    if not zero_sign_only(exp, act):
        return False
    form, op, args = case.get('form'), case.get('op'), case.get('args') or []
    if form == 'unary':
        return op == '-' and len(args) == 1 and _int_zero(args[0])
    if form == 'binary':
        return op == '%' and _mod_zero_neg(args)
    if form in ('expr', 'dataexpr'):
        how = F44_PROPAGATION.get(op)
        if how == 'neg0':
            return bool(args) and _int_zero(args[0])
        if how == 'negdiff':
            return bool(args) and is_num(args[0])
        if how == 'mod':
            return _mod_zero_neg(args)
    return False


FINDING_MATCHERS = {'F15': _is_f15, 'F44': _is_f44}


# ---------------------------------------------------------------------------------------------------------------------
# HOST-EQUAL NEIGHBOURS of a number that are values of ANOTHER BareScript type.  Python's == / hash / str say True == 1 == 1.0, False == 0 == 0.0,
# str(1) == '1' but str(1.0) == '1.0', a datetime's timestamp is a number: a function that searches, compares, buckets or deduplicates BY VALUE and
# takes a host-level shortcut for ONE spelling of the number (list.index / `in` / a dict or set keyed by the raw value or by its text) still agrees
# with value_compare on every collection of numbers - it differs only when the collection holds such a neighbour at / before / after the equal
# number.  Implementation-side oracle only (spelling-irrelevant:equal-neighbours): LibH models arrayIndexOf / arrayLastIndexOf by value_compare
# (C12.cmpEq_refines), the other consumers (sort, max / min, the data functions' bucket keys) are outside the modelled subset.
# ---------------------------------------------------------------------------------------------------------------------

NB_SPELLINGS = ('int', 'float', 'kc:if', 'kc:fi', 'mix', 'xim')      # kc:XY = the key as X, the collection's own copies of the number as Y
NB_DT = {'dt': [2020, 1, 31, 10, 20, 30, 500000]}
NB_EPOCH_MS = int(round(datetime.datetime(*NB_DT['dt']).timestamp() * 1000))     # the epoch number of NB_DT (naive = local time, as the library reads it)
NB_WRAPS = (None, 'a', 'o')                                            # the values as they are / each inside a one-element array / inside an object


def CN(n):
    """The collection's own copy of the number (spelled apart from the key under kc:XY)."""
    return {'n': int(n), 'role': 'c'}


def nb_neighbours(k):
    """Values of OTHER types that some host-level notion (==, hash, str, truthiness, timestamp) identifies with the number k."""
    out = []
    if k in (0, 1):
        out.append(bool(k))
    if k == 0:
        out += [None, '']
    out += [str(k), repr(float(k))]
    if k == NB_EPOCH_MS:
        out.append(NB_DT)
    elif k not in (0, 1):
        out.append(True)
    if k == 1:
        out.append(False)
    return out


NB_KEYS = [0, 1, 2, -1, NB_EPOCH_MS, NB_EPOCH_MS // 1000, 10 ** 15 - 1]


def nb_wrap(enc, wrap):
    return enc if wrap is None else (A(enc) if wrap == 'a' else O(v=enc))


def nb_collections(k, max_subset, full):
    """Collections for the key k: every subset of its neighbours of size 1..max_subset (and the whole set if `full`), in EVERY order, x the equal
    number absent / present at every position / present twice (first and last: int and float under the alternating spellings)."""
    import itertools
    nbs = nb_neighbours(k)
    subsets = [list(c) for r in range(1, max_subset + 1) for c in itertools.combinations(range(len(nbs)), r)]
    if full and len(nbs) > max_subset:
        subsets.append(list(range(len(nbs))))
    seen = set()
    for sub in subsets:
        perms = itertools.permutations(sub) if len(sub) <= 3 else [tuple(sub), tuple(reversed(sub)), tuple(sub[1:] + sub[:1])]
        for perm in perms:
            items = [nbs[i] for i in perm]
            colls = [(items, 'absent')]
            for pos in range(len(items) + 1):
                colls.append((items[:pos] + [CN(k)] + items[pos:], 'first' if pos == 0 else ('last' if pos == len(items) else 'middle')))
            colls.append(([CN(k)] + items + [CN(k)], 'twice'))
            for coll, where in colls:
                key = repr(coll)
                if key not in seen:
                    seen.add(key)
                    yield coll, where


def nb_rows(coll, extra=()):
    return A(*[O(a=c, b=CN(2 ** i)) for i, c in enumerate(list(coll) + list(extra))])


def nb_consumers(k, wrap, coll):
    """(function, arguments, expression alias or None): every value-searching / comparing / bucketing / deduplicating use of the key against `coll`."""
    K = nb_wrap(N(k), wrap)
    coll = [nb_wrap(c, wrap) for c in coll]
    n = len(coll)
    arr = A(*coll)
    yield 'arrayIndexOf', [arr, K], None
    yield 'arrayLastIndexOf', [arr, K], None
    if n >= 2:
        yield 'arrayIndexOf', [arr, K, N(1)], None
        yield 'arrayLastIndexOf', [arr, K, N(n - 2)], None
    if wrap is None and k in (0, 1, 2):
        yield 'arrayIndexOf', [arr, {'fn': {0: 'isZero', 1: 'isOne', 2: 'isTwo'}[k]}], None
        yield 'arrayLastIndexOf', [arr, {'fn': {0: 'isZero', 1: 'isOne', 2: 'isTwo'}[k]}], None
    if any(isinstance(c, dict) and c.get('role') == 'c' for c in (coll if wrap is None else [x for w in coll for x in (w.get('a') or [v for _, v in w['o']])])):
        # the other way round: each neighbour as the search value / join key against the collection holding the number
        seen = []
        for c in coll:
            if c not in seen and not (isinstance(c, dict) and count_nums(c)):
                seen.append(c)
                yield 'arrayIndexOf', [arr, c], None
                yield 'arrayLastIndexOf', [arr, c], None
                yield 'dataJoin', [A(O(a=c, l='L')), nb_rows(coll), 'a'], None
    yield 'arraySort', [A(*(coll + [K]))], None
    yield 'arraySort', [A(*([K] + coll)), {'fn': 'systemCompare'}], None
    yield 'arraySort', [A(*(coll + [K])), {'fn': 'cmpOps'}], None
    yield 'mathMax', coll + [K], None
    yield 'mathMax', [K] + coll, 'max'
    yield 'mathMin', coll + [K], 'min'
    yield 'mathMin', [K] + coll, None
    yield 'systemCompare', [arr, A(*([K] + coll[1:]))], None
    yield 'systemCompare', [A(*(coll[:-1] + [K])), arr], None
    rows = nb_rows(coll)
    rows_k = nb_rows(coll, [K])
    yield 'dataJoin', [A(O(a=K, l='L')), rows, 'a'], None
    yield 'dataJoin', [rows, A(O(a=K, r='R')), 'a', None, True], None
    yield 'dataJoin', [rows_k, rows_k, 'a', 'a'], None
    yield 'dataAggregate', [rows_k, O(categories=A('a'), measures=A(O(field='b', function='sum'), O(field='b', function='count', name='n')))], None
    yield 'dataTop', [rows_k, N(1), A('a')], None
    yield 'dataSort', [rows_k, A(A('a'))], None
    yield 'dataSort', [nb_rows([K], coll), A(A('a', True))], None
    yield 'dataFilter', [rows, 'a == k', O(k=K)], None
    if wrap is None:
        yield 'dataFilter', [rows, 'a == ' + (str(k) if k >= 0 else '(0 - %d)' % -k)], None
        yield 'dataCalculatedField', [rows, 'z', 'if(a == k, 1, if(a < k, 2, 3))', O(k=K)], None


def nb_pair_cases(k, wrap):
    """The key against ONE neighbour (or its own collection copy): compare / identity functions and the six comparison operators, both orders."""
    K = nb_wrap(N(k), wrap)
    for c in nb_neighbours(k) + [CN(k)]:
        c = nb_wrap(c, wrap)
        for fname in ('systemCompare', 'systemIs'):
            yield {'kind': 'call', 'fn': fname, 'args': [K, c], 'nbr': 1}
            yield {'kind': 'call', 'fn': fname, 'args': [c, K], 'nbr': 1}
        for op in ('==', '!=', '<', '<=', '>', '>='):
            yield {'kind': 'binary', 'op': op, 'left': K, 'right': c}
            yield {'kind': 'binary', 'op': op, 'left': c, 'right': K}
    if wrap is None:
        obj = O([str(k), 's'], [repr(float(k)), 'f'], ['true', 't'], ['false', 'b'], ['null', 'n'], ['', 'e'])
        for fname, rest in (('objectGet', []), ('objectGet', ['dflt']), ('objectHas', []), ('objectSet', ['x']), ('objectDelete', [])):
            yield {'kind': 'call', 'fn': fname, 'args': [obj, N(k)] + rest, 'nbr': 1}


def nbr_differs(case):
    outs, classes = {}, {}
    for sp in NB_SPELLINGS:
        outs[sp], classes[sp] = run_call(case, sp)
    return any(v != outs['int'] for v in outs.values()), outs, classes


def nb_cases(ctx):
    """quick: keys 0 and 1 with neighbour subsets up to 2 (+ the whole set), the other keys with single neighbours (+ the whole set), unwrapped; the wrapped
    forms for single neighbours.  thorough: subsets up to 3 for every key, wrapped forms up to 2."""
    lib = fw.impl()['library']
    for k in NB_KEYS:
        for wrap in NB_WRAPS:
            if wrap is None:
                max_subset = ctx.scale(2 if k in (0, 1) else 1, 3)
            else:
                max_subset = ctx.scale(1, 2)
            for case in nb_pair_cases(k, wrap):
                if case['kind'] != 'call' or case['fn'] in lib.SCRIPT_FUNCTIONS:
                    yield case, k, wrap, 'pair'
            for coll, where in nb_collections(k, max_subset, full=wrap is None or ctx.scale(0, 1)):
                for fname, args, alias in nb_consumers(k, wrap, coll):
                    if fname not in lib.SCRIPT_FUNCTIONS or (alias and alias not in lib.EXPRESSION_FUNCTIONS):
                        continue
                    case = {'kind': 'call', 'fn': fname, 'args': args, 'nbr': 1}
                    if alias:
                        case['expr'] = alias
                    yield case, k, wrap, where


def equal_neighbours_stream(ctx, lim):
    st = ctx.stream('equal-neighbours', 'functions that SEARCH, COMPARE, BUCKET or DEDUPLICATE by value (arrayIndexOf / arrayLastIndexOf with a value, a start index, a match '
                                        'function; arraySort default / systemCompare / a script comparator written with < and ==; mathMax / mathMin and the expression functions max / min; systemCompare, '
                                        'systemIs; == != < <= > >=; dataJoin keys, dataAggregate / dataTop categories, dataSort keys, dataFilter / dataCalculatedField '
                                        'comparisons; objectGet / Has / Set / Delete with number-lookalike keys; and the other way round: each neighbour as search value / '
                                        'join key against the collection holding the number) x the keys %r x collections made of the key\'s HOST-EQUAL '
                                        'neighbours of other BareScript types (true / false next to 1 / 0, null and \'\' next to 0, the texts \'1\' and \'1.0\', a datetime next to its '
                                        'epoch milliseconds / seconds) - every subset up to a size, in EVERY order, with the equal number absent / at every position / '
                                        'twice - as plain values, each inside a one-element array, each inside an object; run with the key and the collection\'s own '
                                        'copies of the number spelled int/int, float/float, int/float, float/int and alternating x 2; results, failure, post-call '
                                        'arguments compared by value. Implementation-side oracle only (the lookalike question is about host ==, hash and str, which the '
                                        'Lean models do not have). all non-trivial' % (NB_KEYS,))
    for case, k, wrap, where in nb_cases(ctx):
        tags = [f'key:{k if abs(k) < 1000 else ("epoch" if k in (NB_EPOCH_MS, NB_EPOCH_MS // 1000) else "big")}', f'wrap:{wrap}', f'number:{where}']
        if case['kind'] == 'binary':
            check_case(ctx, lim, st, case, 'nbr', key='nbr:', tags=tags, nontrivial=True)
            continue
        differ, outs, classes = nbr_differs(case)
        st.case(case, nontrivial=True, tags=tags + [f'fn:{case["fn"]}', 'failed' if outs['int']['failed'] else 'ok'])
        if differ:
            bad = next(sp for sp in NB_SPELLINGS if outs[sp] != outs['int'])
            lim.witness('nbr:' + case['fn'], 'spelling-irrelevant:equal-neighbours', case, outs['int'], outs[bad], spelling_of_actual=bad, exception_classes=classes)


# ---------------------------------------------------------------------------------------------------------------------
# Correspondence with the Lean host-level model (both spellings) - see Drv/C12.lean
# ---------------------------------------------------------------------------------------------------------------------

MODELLED = ['arrayDelete', 'arrayGet', 'arraySet', 'arraySlice', 'arrayNewSize', 'arrayIndexOf', 'arrayLastIndexOf', 'stringCharCodeAt',
            'stringFromCharCode', 'stringIndexOf', 'stringLastIndexOf', 'stringRepeat', 'stringSlice', 'numberParseInt', 'dataTop']


def wire(v):
    """Python value -> wire form for the driver (numbers tagged with their host spelling); None if not expressible."""
    if v is None or isinstance(v, bool):
        return v
    if isinstance(v, int):
        return {'i': v}
    if isinstance(v, float):
        if math.isnan(v) or math.isinf(v):
            raise ValueError('non-finite')
        fr = Fraction(v)
        return {'f': [fr.numerator, fr.denominator]}
    if isinstance(v, str):
        if any(0xd800 <= ord(c) < 0xe000 for c in v):
            raise ValueError('surrogate')
        return {'s': v}
    if isinstance(v, list):
        return {'a': [wire(x) for x in v]}
    if isinstance(v, dict):
        return {'o': [[k, wire(x)] for k, x in v.items()]}
    if isinstance(v, datetime.datetime):
        return {'k': ['datetime', int(v.replace(tzinfo=datetime.timezone.utc).timestamp() * 1000)]}
    if isinstance(v, re.Pattern):
        return {'k': ['regex', 0]}
    if callable(v):
        return {'k': ['function', 0]}
    raise ValueError('unmodelled value')


def wire_abs(v):
    """Python value -> the abstract (one number type) wire form: numbers as exact rationals."""
    if v is None or isinstance(v, bool):
        return v
    if isinstance(v, (int, float)):
        fr = Fraction(v)
        return {'q': [fr.numerator, fr.denominator]}
    if isinstance(v, str):
        return {'s': v}
    if isinstance(v, list):
        return {'a': [wire_abs(x) for x in v]}
    if isinstance(v, dict):
        return {'o': [[k, wire_abs(x)] for k, x in v.items()]}
    if isinstance(v, datetime.datetime):
        return {'k': ['datetime', int(v.replace(tzinfo=datetime.timezone.utc).timestamp() * 1000)]}
    if isinstance(v, re.Pattern):
        return {'k': ['regex', 0]}
    if callable(v):
        return {'k': ['function', 0]}
    return {'k': ['other', 0]}


def model_expressible(case):
    """The by-value model has no aliasing, no function-valued search argument, no non-finite numbers."""
    if case['fn'] not in MODELLED:
        return False

    def ok(enc, top):
        if isinstance(enc, dict):
            if 'same' in enc or 'date' in enc:
                return False
            if 'f' in enc and enc['f'] in ('nan', 'inf', '-inf'):
                return False
            if 'fn' in enc and top and case['fn'] in ('arrayIndexOf', 'arrayLastIndexOf'):
                return False
            if 'a' in enc:
                return all(ok(x, False) for x in enc['a'])
            if 'o' in enc:
                return all(ok(x, False) for _, x in enc['o'])
        if isinstance(enc, str) and not enc.isascii() and case['fn'] == 'numberParseInt':
            return False
        return True
    if not all(ok(a, True) for a in case['args']):
        return False
    if case['fn'] == 'numberParseInt' and case['args'] and isinstance(case['args'][0], str):
        # the model's int(text, radix) covers [ws] [sign] digits [ws]; underscores / prefixes are left to the oracle
        if not re.fullmatch(r'\s*[+-]?[0-9a-zA-Z]*\s*', case['args'][0]) or case['args'][0].strip().lower().startswith(('0x', '0b', '0o', '+0x', '-0x')):
            return False
    return True


def impl_for_model(case, spelling):
    """The implementation outcome in the model's vocabulary: abstract result + abstract post-call arguments."""
    m = fw.impl()
    args = build_args(case['args'], spelling)
    request = {'op': 'call', 'fn': case['fn'], 'args': [wire(a) for a in args]}
    g = {case['fn']: m['library'].SCRIPT_FUNCTIONS[case['fn']]}
    for i, a in enumerate(args):
        g[f'a{i}'] = a
    expr = {'function': {'name': case['fn'], 'args': [{'variable': f'a{i}'} for i in range(len(args))]}}
    try:
        with cpu_limit(case['fn']):
            res = m['runtime'].evaluate_expression(expr, {'globals': g, 'maxStatements': 1000, 'statementCount': 0})
        out = {'result': wire_abs(res), 'args': [wire_abs(a) for a in args]}
    except CallTimeout:
        out = {'escaped': 'TIMEOUT'}
    except Exception as exc:  # pylint: disable=broad-except
        out = {'escaped': type(exc).__name__}
    return request, out


# ---------------------------------------------------------------------------------------------------------------------
# Streams
# ---------------------------------------------------------------------------------------------------------------------

class Limiter:
    """At most `per_key` witnesses per function / operator, so one defect does not drown the others."""

    def __init__(self, ctx, per_key=2):
        self.ctx = ctx
        self.per_key = per_key
        self.seen = {}

    def witness(self, key, oracle, case, expected, actual, **extra):
        self.seen[key] = self.seen.get(key, 0) + 1
        if self.seen[key] <= self.per_key:
            self.ctx.witness(oracle, case, expected, actual, **extra)


def load_corpus():
    import json
    import os
    path = os.path.join(fw.VERIF, 'harness', 'corpus', 'C12.jsonl')
    cases = []
    if os.path.exists(path):
        with open(path, encoding='utf-8') as fh:
            for ln in fh:
                ln = ln.strip()
                if ln and not ln.startswith('#'):
                    cases.append(json.loads(ln))
    return cases


def check_case(ctx, lim, st, case, how, key='', tags=(), nontrivial=None, oracle=None):
    if case['kind'] == 'call':
        differ, outs, classes = call_differs_ext(case) if case.get('ext') else call_differs(case)
        nn = sum(count_nums(a) for a in case['args'])
        tags = [f'fn:{case["fn"]}', f'gen:{how}', 'failed' if outs['int']['failed'] else 'ok', f'nargs{len(case["args"])}'] + list(tags)
        if classes['int'] != classes['float']:
            tags.append('exception-class-differs')
        st.case(case, nontrivial=nn > 0 if nontrivial is None else nontrivial, tags=tags)
        if differ:
            # instances of the known finding F15 do not use up the witness budget of their function
            bad = next(sp for sp in outs if outs[sp] != outs['int'])
            lim.witness(key + case['fn'] + (':F15' if _is_f15({'input': case}) else ''), oracle or 'spelling-irrelevant:call', case, outs['int'],
                        outs[bad], spelling_of_actual=bad, exception_classes=classes)
        return outs
    if case['kind'] in ('binary', 'unary'):
        differ, outs = op_differs(case)
        nn = count_nums(case['left']) + count_nums(case.get('right'))
        st.case(case, nontrivial=nn > 0 if nontrivial is None else nontrivial, tags=[f'op:{case["kind"]}{case["op"]}'] + list(tags))
        if differ:
            lim.witness(key + case['kind'] + case['op'], 'spelling-irrelevant:operator', case, outs['int/int'],
                        next(v for v in outs.values() if v != outs['int/int']), all_outcomes=outs)
        return outs
    if case['kind'] == 'hscript':
        differ, outs = hscript_differs(case)
        first = outs['literals:int/host:int']
        st.case(case, nontrivial=True, tags=['hscript', 'raised' if 'raised' in first else 'ran'] + list(tags))
        if differ:
            lim.witness(key + 'hscript', 'spelling-irrelevant:host-container-script', case, first,
                        next(v for v in outs.values() if v != first), all_outcomes=outs)
        return outs
    if case['kind'] == 'script':
        differ, outs = script_differs(case['text'])
        st.case(case['text'], nontrivial=True, tags=['script', 'raised' if 'raised' in outs['float'] else 'ran'])
        if differ:
            lim.witness('script', 'spelling-irrelevant:script', case, outs['int'], outs['float'])
        return outs
    if case['kind'] in ('producers', 'dataexpr'):
        differ, outs = producers_differ(case) if case['kind'] == 'producers' else dataexpr_differ(case)
        first = next(iter(outs.values()))
        st.case(case, nontrivial=True, tags=[case['kind'], f'fn:{case["fn"]}'] + list(tags))
        if differ:
            lim.witness(key + case['kind'] + ':' + case['fn'], oracle or ('spelling-irrelevant:number-producer' if case['kind'] == 'producers' else
                                                                           'spelling-irrelevant:data-expression'),
                        case, first, next(v for v in outs.values() if v != first), all_outcomes=outs)
        return outs
    raise ValueError(case['kind'])


def streams(ctx):
    lib = fw.impl()['library']
    models = arg_models()
    names = [n for n in lib.SCRIPT_FUNCTIONS if n not in EXCLUDED]
    ctx.notes.append('libnum enumerates library.SCRIPT_FUNCTIONS: %d functions checked; excluded %s' % (
        len(names), ', '.join(f'{k} ({v})' for k, v in sorted(EXCLUDED.items()) if k in lib.SCRIPT_FUNCTIONS)))
    ctx.notes.append('functions without an argument model (hand-written generators): ' + ', '.join(n for n in names if n not in models))
    lim = Limiter(ctx)

    # --- corpus first
    st = ctx.stream('corpus', 'hand-picked cases (past defects F1 F2 F15, boundary indices, literals in script text); all non-trivial')
    corpus = load_corpus()
    for case in corpus:
        check_case(ctx, lim, st, case, 'corpus')

    # --- libnum: every library function x generated argument lists x {int, float, alternating} spellings
    st = ctx.stream('libnum', 'every SCRIPT_FUNCTIONS entry except clock/random/fetch x argument lists of 0-5 values (argument-model directed, '
                              'semantically directed, random-typed), each run with every integral number |n|<1e15 as int / as float / alternating, '
                              'at every depth; result, failure, post-call arguments, globals and log compared by value. '
                              'non-trivial = the argument list contains at least one integral number')
    rng = ctx.rng('libnum')
    per_fn = ctx.scale(110, 2500)
    modelled_cases = []
    for fname in names:
        for _ in range(per_fn * (3 if fname in MODELLED or fname in ('mathRound', 'numberToFixed', 'datetimeNew', 'jsonStringify') else 1)):
            case, how = gen_case(rng, fname, models)
            check_case(ctx, lim, st, case, how)
            if fname in MODELLED and len(modelled_cases) < ctx.scale(4000, 60000) and model_expressible(case):
                modelled_cases.append(case)

    # --- operators
    st = ctx.stream('operators', 'every binary operator x all pairs of %d integral operands (0, +-1, small, 99999999, ~sqrt(2^53), 2^31, 1e9+1, 1e12+1, ~1e14, '
                                 '+-(2^57/1000 + 1), 2^58/1000 + 1, 1e15-1) ' % len(OP_NUMS) +
                                 'with the 4 spelling combinations + random operand pairs of all types; every unary operator; '
                                 'int ** exponent capped at |e| <= 1100. non-trivial = an operand contains an integral number')
    for case in op_cases(ctx):
        check_case(ctx, lim, st, case, 'op')

    # --- script level
    st = ctx.stream('script', 'generated script text (array/string/number functions with literal indices, for loops with index variable, while '
                              'counters, index arithmetic with arrayLength/stringIndexOf results) executed as parsed (float literals) and with '
                              'every integral literal of the parsed model as int; result, globals, log, statement count compared')
    rng = ctx.rng('script')
    for _ in range(ctx.scale(400, 10000)):
        check_case(ctx, lim, st, {'kind': 'script', 'text': gen_script(rng)}, 'script')

    # --- host-created containers
    host_streams(ctx, lim, names, models, modelled_cases)

    # --- boundary values at every argument position, unexpected argument types, expression functions, number producers, fresh process
    sampled = value_streams(ctx, lim, names, models, modelled_cases)

    # --- datetime arithmetic on the magnitude scale; histories that start with ==-equal neighbour values (fresh process)
    scale_streams(ctx, lim, sampled)

    # --- the sign of a zero result (known finding F44); implementation-side only
    zero_sign_stream(ctx, lim, names, models)

    # --- searching / comparing / bucketing by value among the host-equal neighbours of the number; implementation-side only
    equal_neighbours_stream(ctx, lim)

    # --- correspondence: implementation vs Lean LibH for both spellings (+ the abstract spec)
    st = ctx.stream('libh-model', 'modelled host-level subset (%s): implementation vs Lean LibH on the int, float and alternating spelling and vs '
                                  'the abstract one-number-type function; by-value cases without aliasing; non-trivial = an integral number occurs' % ', '.join(MODELLED))
    if ctx.driver is not None:
        extra = [c for c in corpus if c.get('kind') == 'call' and (ext_model_expressible(c) if c.get('ext') else model_expressible(c))]
        reqs, outs, metas = [], [], []
        for case in extra + modelled_cases:
            for sp in SPELLINGS:
                try:
                    req, out = impl_for_model(case, sp)
                except ValueError:
                    continue
                reqs.append(req)
                outs.append(out)
                metas.append((case, sp))
        resps = ctx.driver.batch(reqs)
        for (case, sp), out, resp in zip(metas, outs, resps):
            st.case([case, sp], nontrivial=sum(count_nums(a) for a in case['args']) > 0, tags=[f'fn:{case["fn"]}', f'sp:{sp}'])
            ctx.compare('libh-model', {'case': case, 'spelling': sp, 'layer': 'host'}, out, resp.get('host', resp))
            ctx.compare('libh-model', {'case': case, 'spelling': sp, 'layer': 'abstract'}, out, resp.get('abstract', resp))


def host_streams(ctx, lim, names, models, modelled_cases):
    """The spelling oracle with the numbers inside host-created dict / list subclass instances (see the section above)."""
    classes = ', '.join(OBJ_CLASS_NAMES + ARR_CLASS_NAMES)

    # every path from a container to text x where the number sits x every class
    st = ctx.stream('host-text', 'conversion to text of a value holding an integral number inside a host subclass instance: %d placements (object value, '
                                 'unsorted keys, array element, subclass inside plain, plain inside subclass, subclass in subclass, three deep, next to '
                                 'number-lookalike strings) x %d object classes x %d array classes x paths stringNew, \'\' + v, v + text, arrayJoin '
                                 '(plain and subclass array), systemLog, systemLogDebug, jsonStringify without / with indent 1 2 4, argument-error '
                                 'message in the debug log (%s, objectKeys / arrayLength); numbers drawn from %r; all non-trivial' % (
                                     len(host_shapes(N(0), N(0), 'MyDict', 'MyList', 'MyDict')), len(OBJ_CLASS_NAMES), len(ARR_CLASS_NAMES),
                                     ', '.join(HOST_ERR_FNS), HOST_NUMS))
    for shape, path, co, ca, case in host_text_cases(ctx):
        check_case(ctx, lim, st, case, 'host-text', key='host-text:', tags=[f'shape:{shape}', f'path:{path}', f'obj:{co}', f'arr:{ca}'], nontrivial=True)

    # scripts over host-provided globals
    st = ctx.stream('host-script', 'generated scripts over host-provided globals (subclass object, subclass array, subclass instances inside a plain object, '
                                   'subclass object inside a plain array inside a subclass array): number literals stored with objectSet / arrayPush / arraySet / '
                                   'objectAssign / arrayExtend at every level, then stringNew / concatenation / arrayJoin / jsonStringify (with indent) / '
                                   'systemLog / argument errors in debug mode; run with literals as parsed (float) and as int x host numbers as int and as '
                                   'float (4 runs); result, globals, log, statement count compared; all non-trivial')
    rng = ctx.rng('host-script')
    for _ in range(ctx.scale(600, 8000)):
        check_case(ctx, lim, st, gen_hostscript(rng), 'host-script', key='host-script:')

    # every library function: the libnum / operator generators, containers of the arguments replaced by subclass instances
    st = ctx.stream('host-containers', 'every SCRIPT_FUNCTIONS entry (same generators as libnum) and every operator, with the arrays / objects of '
                                       'the arguments built as HOST-CREATED subclass instances (%s): all of them / only the outermost / only the ones nested '
                                       'inside plain containers / a random half; numbers inside stay exact int / float; int / float / alternating spelling '
                                       'compared as in libnum (+ the library\'s argument-error text). non-trivial = an integral number sits inside a '
                                       'subclass instance' % classes)
    rng = ctx.rng('host-containers')
    per_fn = ctx.scale(80, 900)
    text_fns = ('jsonStringify', 'stringNew', 'arrayJoin', 'systemLog', 'systemLogDebug', 'objectNew', 'arrayNew')
    never = []
    n_modelled = 0
    for fname in names:
        got = 0
        for _ in range(per_fn * (3 if fname in text_fns else 1)):
            for _try in range(4):
                case, how = gen_case(rng, fname, models)
                mode = rng.choice(HOST_MODES)
                hcase, nsub = hostify_case(rng, case, mode)
                if nsub:
                    break
            else:
                continue
            got += 1
            inside = sum(nums_in_host(a) for a in hcase['args'])
            check_case(ctx, lim, st, hcase, how, key='host:', tags=[f'host:{mode}'], nontrivial=inside > 0)
            if fname in MODELLED and n_modelled < ctx.scale(1500, 20000) and model_expressible(hcase):
                modelled_cases.append(hcase)
                n_modelled += 1
        if not got:
            never.append(fname)
    ctx.notes.append('host-containers: functions for which no generated argument list contained a container (number / string / datetime only '
                     'functions): ' + ', '.join(never))
    for case in op_cases_host(ctx, rng):
        inside = nums_in_host(case['left']) + nums_in_host(case.get('right'))
        check_case(ctx, lim, st, case, 'op', key='host:', tags=['host:op'], nontrivial=inside > 0)


def op_cases_host(ctx, rng):
    """Operators with a container operand built from host subclass instances (string concatenation, comparison, boolean operators)."""
    containers = [c for c in OP_OTHERS if isinstance(c, dict) and ('a' in c or 'o' in c)]
    others = [N(n) for n in OP_NUMS[:8]] + ['', 'abc', None, True]
    for op in BIN_OPS:
        for _ in range(ctx.scale(24, 400)):
            left = rng.choice(containers) if rng.random() < 0.6 else rng.choice([gen_array(rng), gen_object(rng)])
            right = rng.choice(others) if rng.random() < 0.5 else (left if rng.random() < 0.5 else rng.choice([gen_array(rng), gen_object(rng)]))
            if rng.random() < 0.5:
                left, right = right, left
            case, nsub = hostify_case(rng, {'kind': 'binary', 'op': op, 'left': left, 'right': right}, rng.choice(HOST_MODES))
            if nsub and op_safe(op, left, right):
                yield case
    for op in UN_OPS:
        for _ in range(ctx.scale(6, 60)):
            case, nsub = hostify_case(rng, {'kind': 'unary', 'op': op, 'left': rng.choice([gen_array(rng), gen_object(rng)])}, rng.choice(HOST_MODES))
            if nsub:
                yield case


def search(ctx):
    """Directed search: boundary index / count / radix / digits arguments of every function, float spelling vs int spelling."""
    lib = fw.impl()['library']
    models = arg_models()
    lim = Limiter(ctx)
    rng = ctx.rng('search')
    st = ctx.stream('search', 'directed search after a broken obligation: number-typed argument positions of every function')
    for fname in [n for n in lib.SCRIPT_FUNCTIONS if n not in EXCLUDED]:
        for _ in range(ctx.scale(600, 3000)):
            case, how = gen_case(rng, fname, models)
            check_case(ctx, lim, st, case, how)
            if ctx.witnesses:
                return
    for _shape, _path, _co, _ca, case in host_text_cases(ctx):
        check_case(ctx, lim, st, case, 'host-text', key='host-text:')
        if ctx.witnesses:
            return
    for _ in range(ctx.scale(2000, 10000)):
        check_case(ctx, lim, st, gen_hostscript(rng), 'host-script', key='host-script:')
        if ctx.witnesses:
            return
    names = [n for n in lib.SCRIPT_FUNCTIONS if n not in EXCLUDED]
    for gen in (gen_arg_values, gen_arg_pairs):
        for case, _p, how in gen(ctx, rng, names, models):
            check_case(ctx, lim, st, case, 'value:' + how, key='value:', oracle='spelling-irrelevant:boundary-value')
            if ctx.witnesses:
                return
    for case, _p, _how in gen_wrong_types(ctx, rng, names, models):
        check_case(ctx, lim, st, case, 'wrongtype', key='wrong:', oracle='spelling-irrelevant:unexpected-type')
        if ctx.witnesses:
            return


def replay(witness):
    case = witness['input']
    if case.get('kind') == 'zsign':
        return zsign_differs(case)[0]
    if case.get('fresh'):
        return fresh_differs([case])[0][0]
    if case['kind'] == 'call' and case.get('nbr'):
        return nbr_differs(case)[0]
    if case['kind'] == 'call':
        return (call_differs_ext(case) if case.get('ext') else call_differs(case))[0]
    if case['kind'] in ('binary', 'unary'):
        return op_differs(case)[0]
    if case['kind'] == 'script':
        return script_differs(case['text'])[0]
    if case['kind'] == 'hscript':
        return hscript_differs(case)[0]
    if case['kind'] == 'producers':
        return producers_differ(case)[0]
    if case['kind'] == 'dataexpr':
        return dataexpr_differ(case)[0]
    return False


LEVEL_TEXT = ('Theorems (all arguments, all argument-model tables): for the host-level subset of library functions that use a number as index, '
              'count, size, radix or char code (arrayDelete/Get/Set/Slice/NewSize/IndexOf/LastIndexOf, stringCharCodeAt/FromCharCode/IndexOf/'
              'LastIndexOf/Repeat/Slice, numberParseInt, dataTop) the host model - written with partial, Python-typed primitives and int() exactly '
              'where library.py has it - refines the one-number-type function over Rat including failure values and post-call arguments; hence '
              'equal-valued argument lists give equal results; value_args_validate number checks are spelling-independent; value_round_number '
              'refines its abstract version for digits <= 22 (the F15 boundary is the hypothesis). Argument models are regenerated from library.py '
              'on every run. All other library functions, the operators and script-level literals are covered by the implementation-side '
              'metamorphic oracle (stream libnum/operators/script) only; the same oracle runs with the numbers inside host-created dict / list '
              'subclass instances (OrderedDict, defaultdict, Counter, application subclasses) for every function, every operator, every '
              'container-to-text path and scripts over host-provided globals (streams host-containers/host-text/host-script); and with a pool '
              'of boundary VALUES (every radix / digit count, surrogate and other char-code boundaries, lengths of the other arguments, huge '
              'counts, -0.0) at every argument position and pair of positions of every function, one argument of an unexpected (indexable) '
              'type at every position, the built-in expression-function names, dataCalculatedField expression text, the numbers produced by '
              'literal / arithmetic / jsonParse / mathCeil / stringCharCodeAt / host, and a fresh interpreter running the float spelling first '
              '(streams arg-values/arg-pairs/arg-wrongtype/expr-functions/number-producers/operators-boundary/fresh-order); the model-expressible '
              'part of those cases (no surrogate char codes: a Lean Char cannot hold one) is also compared with LibH. Every number generator draws '
              'from a magnitude SCALE ladder (1 ... 2^31, sqrt(2^53), 1e9, 1e12, 2^57/1000, 2^58/1000, 2^59/1000, 1e15-1: point, +-2 neighbourhood of '
              'both parities, random band values, both signs); datetime arithmetic (datetime + n, n + datetime; operator, script text, data expression) '
              'over 9 bases from year 1 to 9999 x the whole ladder (stream datetime-scale), the data functions over rows of large values (data-scale), '
              'and histories in a fresh interpreter that first produce and print -0.0 / true / false and run the case on every ==-equal neighbour of '
              'its numbers (neighbour-history) are implementation-side only, as is the sign-sensitive comparison of zero results (zero-sign: the models are '
              'over rationals and have no negative zero) and the search / compare / bucket / deduplicate consumers run against collections of the '
              'HOST-EQUAL neighbours of the number that belong to other BareScript types (equal-neighbours: true / false, null, \'\', the texts \'1\' / \'1.0\', '
              'a datetime and its epoch number, in every order around the equal number, key and collection spelled independently).')
LEVEL_NOTE = ('proof for the host-level subset (index/count/size/radix/char-code users); translation-validation strength for the remaining library '
              'functions, where numbers only flow into comparison/arithmetic/stringification and Python int-vs-float mixed operations are exact on '
              'the values (assumption, DESIGN 6) - those are covered by the libnum/operators/script streams, not by a theorem. The model is by-value '
              '(no aliasing); IEEE rounding enters only as the abstract function rnd in roundNumber_refines. Known: F15, F44. F44 (stream zero-sign, the only '
              'sign-sensitive comparison; matcher _is_f44 as narrow as the finding): -0.0 as an INPUT is outside the quantifier (it is not float(n) of any int n), but unary - on the integral 0 and n % m '
              'with m < 0 and a zero result RETURN int 0 for the int spelling and -0.0 for the float spelling (runtime.py unary -, %); the two are equal '
              'by value_compare yet value_string / value_json print "0" vs "-0" (value.py:70), so `\'\' + (-n)` differs by spelling. All other streams compare '
              'results by value (canon_num maps -0.0 to 0); zero-sign runs every operator, library function and expression function sign-sensitively: no other '
              'operation has a spelling-dependent zero sign, and any new one is a VIOLATION.')


# extension: further model code, theorems and streams (DESIGN 13.7)
from props import c12x as _ext  # noqa: E402  pylint: disable=wrong-import-position
_ext.EXTRA_ROOTS = ['Drv.C12X']
fw.attach_extension(globals(), _ext)

# extension: host-level model of 21 more functions and the history theorem (DESIGN 13.9)
from props import c12y as _ext2  # noqa: E402  pylint: disable=wrong-import-position
_ext2.EXTRA_ROOTS = ['Drv.C12Y']
fw.attach_extension(globals(), _ext2)
